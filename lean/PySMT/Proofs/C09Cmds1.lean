import PySMT.Proofs.C09ScriptRound
import PySMT.Proofs.C07Cmds
/-!
# C09: print → parse for GENERAL command lists (`SmtLibScript.serialize` → `get_script`) — definitions, invariant, steps

A list of `Printer.Cmd` (set-logic, declare-sort, declare-fun, declare-const, assert, push, pop, check-sat) printed by
`scriptOfCmds dag` and read by the parser model `Parser.script` gives back the same commands (`toCommand`).

The parser does not undo declarations at `pop` (known finding P01), the standard interpreter does; so the parser's
environment is in general *larger* than the standard's. The invariant `Inv` relates the standard state `st`, the parser
state `Γ` and the lists `NF`, `NS` of all function/constant names and all sort names declared so far (never shrinking):
every symbol/sort of the current *or a saved* standard environment is bound in `Γ` to its declaration value, its name is
in `NF`/`NS`, and it is the `ρ`-symbol (has the `κ`-arity) of its name. A declaration may repeat a popped one (one name,
one symbol: the stale binding is the same value) but a function must not take the name of a sort declared anywhere in the
script, nor a sort the name of a function (the parser has one cache for both). `Corr st.env [] Γ` follows (`corr_of_inv`).
-/
namespace PySMT.Parser.Agree
open PySMT PySMT.Parser PySMT.Std PySMT.Sexp PySMT.Printer

/-! ## definitions -/

/-- the parser's command for a printer command (`dag`: the assertion was printed by the DAG printer) -/
def toCommand (dag : Bool) : Printer.Cmd → Parser.Command
  | .setLogic l => .setLogic ((logicEntry l).map (·.1))
  | .declareSort n k => .declareSort n k
  | .declareFun s => .declare "declare-fun" s
  | .declareConst s => .declare "declare-const" s
  | .assert t => .assert (unfoldAVw (!dag) t)
  | .push n => .push (n : Int)
  | .pop n => .pop (n : Int)
  | .checkSat => .plain "check-sat" []

/-- the function or constant name a command declares -/
def declFunNames : Printer.Cmd → List String
  | .declareFun s | .declareConst s => [s.name]
  | _ => []

/-- the sort name a command declares -/
def declSortNames : Printer.Cmd → List String
  | .declareSort n _ => [n]
  | _ => []

/-- the declared sorts of a command list, with their arities -/
def sortsOf : List Printer.Cmd → List (String × Nat)
  | [] => []
  | .declareSort n k :: cs => (n, k) :: sortsOf cs
  | _ :: cs => sortsOf cs

/-- decidable form of `defFree` for an environment without sort abbreviations: no declared sort is spelled `.def_…` -/
def noDefSorts (env : SEnv) : Bool := env.sorts.all (fun d => !(".def_".toList.isPrefixOf d.1.toList))

/-- what the parser side needs of one command beyond C07's `cmdOK`. `st`: the standard state before the command, `NF` /
`NS`: all function-or-constant / sort names declared so far (including those whose declaration was popped), `ρ`: the
formula manager's name ↦ symbol assignment (one name, one symbol), `κ`: the type manager's name ↦ arity assignment (one
sort name, one arity).
* `set-logic`: `logicOK` (the parser's and the standard's reading of numerals agree);
* declarations: the name is not spelled like a literal, is not `true`/`false` (`nameOK1`); a function or constant is not
  named like a sort declared before in this script, a sort not like a function or constant declared before — popped or
  not (P01: the parser keeps popped declarations, in one cache for sorts and terms); a function (arity > 0) is not named
  like a token of the parser's table; the symbol is the `ρ`-symbol of its name, the sort arity is the `κ`-arity (so the
  re-declaration of a popped name must repeat the popped declaration);
* `assert t`: `parseOK`, `mgrNormal`; DAG printer: no declared sort is spelled `.def_k`. -/
def pcmdOK (dag : Bool) (ρ : List (String × Sym)) (κ : List (String × Nat)) (st : StdState) (NF NS : List String) :
    Printer.Cmd → Bool
  | .setLogic l => logicOK l
  | .declareSort n k => nameOK1 n && !NF.contains n && decide (κ.lookup n = some k)
  | .declareFun s =>
    nameOK1 s.name && !NS.contains s.name && (s.params.isEmpty || (tableLookup s.name).isNone)
      && decide (ρ.lookup s.name = some s)
  | .declareConst s => nameOK1 s.name && !NS.contains s.name && decide (ρ.lookup s.name = some s)
  | .assert t => parseOK st.env ρ t && mgrNormal t && (!dag || noDefSorts st.env)
  | _ => true

def pcmdsFrom (dag : Bool) (ρ : List (String × Sym)) (κ : List (String × Nat)) :
    StdState → List String → List String → List Printer.Cmd → Bool
  | _, _, _, [] => true
  | st, NF, NS, c :: cs =>
    pcmdOK dag ρ κ st NF NS c &&
      pcmdsFrom dag ρ κ (cmdNext dag st c) (declFunNames c ++ NF) (declSortNames c ++ NS) cs

/-- the parser-side condition on a whole script read from the initial state -/
def pcmdsOK (dag : Bool) (ρ : List (String × Sym)) (cmds : List Printer.Cmd) : Bool :=
  pcmdsFrom dag ρ (sortsOf cmds) StdState.init [] [] cmds

/-- a standard environment all of whose declarations are bound in the parser's cache `binds`, under names of `NF` / `NS`,
and are the `ρ`-symbols / have the `κ`-arities of their names -/
def EnvIn (ρ : List (String × Sym)) (κ : List (String × Nat)) (binds : List (String × Parser.Val))
    (NF NS : List String) (e : SEnv) : Prop :=
  (∀ s ∈ e.funs, lookup s.name binds = some (declVal s) ∧ s.name ∈ NF ∧ ρ.lookup s.name = some s ∧
      (s.params.isEmpty = false → tableLookup s.name = none)) ∧
  (∀ d ∈ e.sorts, lookup d.1 binds = some (sortVal d) ∧ d.1 ∈ NS ∧ κ.lookup d.1 = some d.2) ∧
  e.defs = [] ∧ e.aliases = []

/-- the invariant of the script induction -/
structure Inv (ρ : List (String × Sym)) (κ : List (String × Nat)) (st : StdState) (Γ : PEnv)
    (NF NS : List String) : Prop where
  tt : lookup "true" Γ.binds = some (.term Term.tt)
  ff : lookup "false" Γ.binds = some (.term Term.ff)
  /-- the current and every saved standard environment is part of the parser's -/
  envs : ∀ e ∈ st.env :: st.saved, EnvIn ρ κ Γ.binds NF NS e
  names : ∀ n v, lookup n Γ.binds = some v → pnameOK n = true
  mgr : MgrLe Γ.mgr ρ
  msorts : ∀ e ∈ Γ.mgr.sorts, κ.lookup e.1 = some e.2
  logic : Γ.intArith.getD true = !(realsOnlyLogics.contains st.env.logic)
  logic0 : st.logicSet = false → Γ.intArith = none

/-- reading a term does not touch the type manager's sort declarations (proved in `C09Cmds2`: `rdKeepsSorts`) -/
def RdKeepsSorts : Prop := ∀ (Γ : PEnv) (lone : Bool) (s : Sexp) (v : Parser.Val) (σ : MgrSt),
  rdVal Γ lone s = .ok (v, σ) → σ.sorts = Γ.mgr.sorts

theorem inv_init (ρ : List (String × Sym)) (κ : List (String × Nat)) : Inv ρ κ StdState.init PEnv.init [] [] := by
  refine ⟨rfl, rfl, ?_, ?_, ?_, ?_, rfl, fun _ => rfl⟩
  · intro e he
    have : e = ({} : SEnv) := by simpa [StdState.init] using he
    subst this
    exact ⟨fun s hs => absurd hs List.not_mem_nil, fun d hd => absurd hd List.not_mem_nil, rfl, rfl⟩
  · intro n v hl
    show pnameOK n = true
    have hb : (PEnv.init).binds = [("true", .term Term.tt), ("false", .term Term.ff)] := rfl
    rw [hb] at hl
    simp only [lookup] at hl
    split at hl
    · rename_i he; have : n = "true" := by have := he; simp at this; exact this.symm
      subst this; decide
    · split at hl
      · rename_i he; have : n = "false" := by have := he; simp at this; exact this.symm
        subst this; decide
      · cases hl
  · intro e he; cases he
  · intro e he; cases he

theorem corr_of_inv {ρ : List (String × Sym)} {κ : List (String × Nat)} {st : StdState} {Γ : PEnv}
    {NF NS : List String} (h : Inv ρ κ st Γ NF NS) : Corr st.env [] Γ := by
  obtain ⟨hf, hs, hd, ha⟩ := h.envs st.env (by simp)
  refine ⟨?_, fun _ => h.tt, fun _ => h.ff, ?_, ?_, hd, h.names, ?_, ?_, h.logic⟩
  · intro n t ty hl; simp [lookupScope] at hl
  · intro n s _ _ _ hlf
    obtain ⟨hm, hname⟩ := find_name (f := fun s : Sym => s.name) hlf
    rw [← hname]; exact (hf s hm).1
  · intro n s hlf hp
    obtain ⟨hm, hname⟩ := find_name (f := fun s : Sym => s.name) hlf
    rw [← hname]; exact (hf s hm).2.2.2 hp
  · intro n hl
    simp only [SEnv.lookupSort, Option.map_eq_some_iff] at hl
    obtain ⟨d, hd', h0⟩ := hl
    obtain ⟨hm, hname⟩ := find_name (f := fun d : String × Nat => d.1) hd'
    have := (hs d hm).1
    rw [hname] at this
    rw [this]
    simp only [sortVal, h0, if_true, hname]
  · intro n ty _ hal
    simp [SEnv.lookupAlias, ha] at hal

/-! ## dispatch on the remaining command names -/

theorem pyTok_cmds2 : pyTok "declare-const" = "declare-const" ∧ pyTok "push" = "push" ∧ pyTok "pop" = "pop" := by
  decide +kernel

theorem cmd_declareConst_eq (Γ : PEnv) (args : List Sexp) :
    cmd Γ (.list (.atom "declare-const" :: args)) = cmdDeclareConst Γ args := by
  simp only [cmd, pyTok_cmds2.1]
  simp (config := { decide := true }) only [cmdNamed, if_true, if_false]

theorem cmd_push_eq (Γ : PEnv) (args : List Sexp) :
    cmd Γ (.list (.atom "push" :: args)) = cmdPushPop Γ true args := by
  simp only [cmd, pyTok_cmds2.2.1]
  simp (config := { decide := true }) only [cmdNamed, if_true, if_false]

theorem cmd_pop_eq (Γ : PEnv) (args : List Sexp) :
    cmd Γ (.list (.atom "pop" :: args)) = cmdPushPop Γ false args := by
  simp only [cmd, pyTok_cmds2.2.2]
  simp (config := { decide := true }) only [cmdNamed, if_true, if_false]

/-! ## push, pop: the parser only records the command -/

theorem cmd_push (Γ : PEnv) (n : Nat) : cmd Γ (.list [.atom "push", natAtom n]) = .ok (Γ, .push (n : Int)) := by
  rw [cmd_push_eq]
  simp only [cmdPushPop, natAtom, toksOf, tokOf, Lit.pyInt_numeral (natStr n) n (numeral?_natStr n), if_true]

theorem cmd_pop (Γ : PEnv) (n : Nat) : cmd Γ (.list [.atom "pop", natAtom n]) = .ok (Γ, .pop (n : Int)) := by
  rw [cmd_pop_eq]
  simp only [cmdPushPop, natAtom, toksOf, tokOf, Lit.pyInt_numeral (natStr n) n (numeral?_natStr n),
    Bool.false_eq_true, if_false]

/-- the environments of the standard state after `pop n` are saved or current ones of the state before -/
theorem popN_envs (P : SEnv → Prop) (hP : ∀ (e : SEnv) (l : String), P e → P { e with logic := l }) :
    ∀ (n : Nat) (st st' : StdState), popN st n = .ok st' → (∀ e ∈ st.env :: st.saved, P e) →
      (∀ e ∈ st'.env :: st'.saved, P e) ∧ st'.env.logic = st.env.logic ∧ st'.logicSet = st.logicSet
  | 0, st, st', h, hp => by
    simp only [popN, Except.ok.injEq] at h
    subst h
    exact ⟨hp, rfl, rfl⟩
  | n + 1, st, st', h, hp => by
    unfold popN at h
    split at h
    · next e rest _ as hsv has =>
      obtain ⟨a, b, c⟩ := popN_envs P hP n _ st' h (by
        intro e' he'
        simp only [List.mem_cons] at he'
        rcases he' with rfl | he'
        · exact hP e _ (hp e (by rw [hsv]; simp))
        · exact hp e' (by rw [hsv]; simp [he']))
      exact ⟨a, b, c⟩
    · cases h

theorem pushN_envs (P : SEnv → Prop) : ∀ (n : Nat) (st : StdState), (∀ e ∈ st.env :: st.saved, P e) →
    (∀ e ∈ (pushN st n).env :: (pushN st n).saved, P e) ∧ (pushN st n).env = st.env ∧
      (pushN st n).logicSet = st.logicSet
  | 0, st, hp => ⟨hp, rfl, rfl⟩
  | n + 1, st, hp => by
    have hstep : pushN st (n + 1) = pushN { st with saved := st.env :: st.saved, asserts := [] :: st.asserts } n := rfl
    rw [hstep]
    obtain ⟨a, b, c⟩ := pushN_envs P n { st with saved := st.env :: st.saved, asserts := [] :: st.asserts } (by
      intro e he
      simp only [List.mem_cons] at he
      rcases he with rfl | rfl | he
      · exact hp _ (by simp)
      · exact hp _ (by simp)
      · exact hp e (by simp [he]))
    exact ⟨a, b, c⟩

theorem envIn_logic (ρ : List (String × Sym)) (κ : List (String × Nat)) (binds : List (String × Parser.Val))
    (NF NS : List String) (e : SEnv) (l : String)
    (h : EnvIn ρ κ binds NF NS e) : EnvIn ρ κ binds NF NS { e with logic := l } := h

theorem inv_push {ρ : List (String × Sym)} {κ : List (String × Nat)} {st : StdState} {Γ : PEnv}
    {NF NS : List String} (h : Inv ρ κ st Γ NF NS) (n : Nat) : Inv ρ κ (pushN st n) Γ NF NS := by
  obtain ⟨a, b, c⟩ := pushN_envs (EnvIn ρ κ Γ.binds NF NS) n st h.envs
  exact ⟨h.tt, h.ff, a, h.names, h.mgr, h.msorts, by rw [b]; exact h.logic, by rw [c]; exact h.logic0⟩

theorem inv_pop {ρ : List (String × Sym)} {κ : List (String × Nat)} {st st' : StdState} {Γ : PEnv}
    {NF NS : List String} (h : Inv ρ κ st Γ NF NS) (n : Nat) (hp : popN st n = .ok st') : Inv ρ κ st' Γ NF NS := by
  obtain ⟨a, b, c⟩ := popN_envs (EnvIn ρ κ Γ.binds NF NS) (envIn_logic ρ κ Γ.binds NF NS) n st st' hp h.envs
  exact ⟨h.tt, h.ff, a, h.names, h.mgr, h.msorts, by rw [b]; exact h.logic, by rw [c]; exact h.logic0⟩

/-! ## set-logic -/

theorem cmd_setLogic_gen (Γ : PEnv) (hia : Γ.intArith = none) (logic : String)
    (hs : isSimpleSymbolChars logic.toList = true) (hr : isReserved logic = false) :
    cmd Γ (.list [.atom "set-logic", atomOfText logic]) =
      .ok ({ Γ with intArith := (logicEntry logic).map (·.2) }, .setLogic ((logicEntry logic).map (·.1))) := by
  have ha : atomOfText logic = .atom logic := by
    simp [atomOfText, lexChars_simple _ hs, String.ofList_toList]
  have hp : pyTok logic = logic := pyTok_of_symName (symName?_simple logic hs hr)
  rw [ha, cmd_setLogic_eq]
  simp only [cmdSetLogic, toksOf, tokOf, hp, logicEntry]
  cases Gen.ParserOps.logics.find? (fun e => lower e.1 == lower logic) with
  | none =>
    show Except.ok (Γ, _) = Except.ok ({ Γ with intArith := none }, _)
    rw [← hia]
    rfl
  | some e => rfl

/-! ## a new binding -/

/-- a (re-)declared function or constant: stale bindings of the same name hold the same symbol -/
theorem envIn_bindFun {ρ : List (String × Sym)} {κ : List (String × Nat)} {binds : List (String × Parser.Val)}
    {NF NS : List String} {e : SEnv} (s' : Sym) (h : EnvIn ρ κ binds NF NS e) (hn : s'.name ∉ NS)
    (hρ : ρ.lookup s'.name = some s') :
    EnvIn ρ κ ((s'.name, declVal s') :: binds) (s'.name :: NF) NS e := by
  obtain ⟨hf, hs, hd, ha⟩ := h
  refine ⟨fun s hs' => ?_, fun d hd' => ?_, hd, ha⟩
  · obtain ⟨a, b, c, d⟩ := hf s hs'
    refine ⟨?_, List.mem_cons_of_mem _ b, c, d⟩
    by_cases hne : s'.name = s.name
    · have hss : s = s' := by
        rw [hne, c] at hρ
        exact Option.some.inj hρ
      subst hss
      exact lookup_cons_eq
    · rw [lookup_cons_ne hne]; exact a
  · obtain ⟨a, b, c⟩ := hs d hd'
    have hne : s'.name ≠ d.1 := fun e => hn (e ▸ b)
    exact ⟨by rw [lookup_cons_ne hne]; exact a, b, c⟩

/-- a (re-)declared sort -/
theorem envIn_bindSort {ρ : List (String × Sym)} {κ : List (String × Nat)} {binds : List (String × Parser.Val)}
    {NF NS : List String} {e : SEnv} (n : String) (k : Nat) (h : EnvIn ρ κ binds NF NS e) (hn : n ∉ NF)
    (hκ : κ.lookup n = some k) :
    EnvIn ρ κ ((n, sortVal (n, k)) :: binds) NF (n :: NS) e := by
  obtain ⟨hf, hs, hd, ha⟩ := h
  refine ⟨fun s hs' => ?_, fun d hd' => ?_, hd, ha⟩
  · obtain ⟨a, b, c, d⟩ := hf s hs'
    have hne : n ≠ s.name := fun e => hn (e ▸ b)
    exact ⟨by rw [lookup_cons_ne hne]; exact a, b, c, d⟩
  · obtain ⟨a, b, c⟩ := hs d hd'
    refine ⟨?_, List.mem_cons_of_mem _ b, c⟩
    by_cases hne : n = d.1
    · have hk : d.2 = k := by
        rw [hne, c] at hκ
        exact Option.some.inj hκ
      have hd2 : d = (n, k) := Prod.ext hne.symm hk
      subst hd2
      exact lookup_cons_eq
    · rw [lookup_cons_ne hne]; exact a

theorem envIn_addSort {ρ : List (String × Sym)} {κ : List (String × Nat)} {binds : List (String × Parser.Val)}
    {NF NS : List String} {e : SEnv} (n : String) (k : Nat) (h : EnvIn ρ κ binds NF NS e) (hn : n ∉ NF)
    (hκ : κ.lookup n = some k) :
    EnvIn ρ κ ((n, sortVal (n, k)) :: binds) NF (n :: NS) { e with sorts := (n, k) :: e.sorts } := by
  obtain ⟨hf, hs, hd, ha⟩ := envIn_bindSort n k h hn hκ
  refine ⟨hf, fun d hd' => ?_, hd, ha⟩
  simp only [List.mem_cons] at hd'
  rcases hd' with rfl | hd'
  · exact ⟨lookup_cons_eq, List.mem_cons_self, hκ⟩
  · exact hs d hd'

theorem envIn_addFun {ρ : List (String × Sym)} {κ : List (String × Nat)} {binds : List (String × Parser.Val)}
    {NF NS : List String} {e : SEnv} (s : Sym) (h : EnvIn ρ κ binds NF NS e) (hn : s.name ∉ NS)
    (hρ : ρ.lookup s.name = some s) (htok : s.params.isEmpty = false → tableLookup s.name = none) :
    EnvIn ρ κ ((s.name, declVal s) :: binds) (s.name :: NF) NS { e with funs := s :: e.funs } := by
  obtain ⟨hf, hs, hd, ha⟩ := envIn_bindFun s h hn hρ
  refine ⟨fun s' hs' => ?_, hs, hd, ha⟩
  simp only [List.mem_cons] at hs'
  rcases hs' with rfl | hs'
  · exact ⟨lookup_cons_eq, List.mem_cons_self, hρ, htok⟩
  · exact hf s' hs'

theorem nameOK1_parts {n : String} (h : nameOK1 n = true) : pnameOK n = true ∧ n ≠ "true" ∧ n ≠ "false" := by
  simp only [nameOK1, Bool.and_eq_true, bne_iff_ne, ne_eq] at h
  exact ⟨h.1.1, h.1.2, h.2⟩

theorem inv_bind {ρ : List (String × Sym)} {κ : List (String × Nat)} {st : StdState} {Γ : PEnv}
    {NF NS : List String} (h : Inv ρ κ st Γ NF NS) (n : String) (v : Parser.Val) (hn1 : nameOK1 n = true)
    (NF' NS' : List String)
    (hkeep : ∀ e, EnvIn ρ κ Γ.binds NF NS e → EnvIn ρ κ ((n, v) :: Γ.binds) NF' NS' e)
    (σ : MgrSt) (hσ : MgrLe σ ρ) (hσs : ∀ e ∈ σ.sorts, κ.lookup e.1 = some e.2)
    (env' : SEnv) (hlog : env'.logic = st.env.logic) (henv : EnvIn ρ κ ((n, v) :: Γ.binds) NF' NS' env') :
    Inv ρ κ { st with env := env' } { Γ with binds := (n, v) :: Γ.binds, mgr := σ } NF' NS' := by
  obtain ⟨hp, ht, hf⟩ := nameOK1_parts hn1
  refine ⟨?_, ?_, ?_, ?_, hσ, hσs, ?_, h.logic0⟩
  · show lookup "true" ((n, v) :: Γ.binds) = _
    rw [lookup_cons_ne ht]; exact h.tt
  · show lookup "false" ((n, v) :: Γ.binds) = _
    rw [lookup_cons_ne hf]; exact h.ff
  · intro e he
    show EnvIn ρ κ ((n, v) :: Γ.binds) NF' NS' e
    have he' : e = env' ∨ e ∈ st.saved := by simpa using he
    rcases he' with rfl | he'
    · exact henv
    · exact hkeep e (h.envs e (List.mem_cons_of_mem _ he'))
  · intro m v' hl
    by_cases hm : n = m
    · subst hm; exact hp
    · have hl' : lookup m ((n, v) :: Γ.binds) = some v' := hl
      rw [lookup_cons_ne hm] at hl'
      exact h.names m v' hl'
  · show Γ.intArith.getD true = !(realsOnlyLogics.contains env'.logic)
    rw [hlog]; exact h.logic

/-! ## `mgr.Symbol` of the `ρ`-symbol -/

theorem mkSymbol_rho {σ : MgrSt} {ρ : List (String × Sym)} (hm : MgrLe σ ρ) (s : Sym)
    (hρ : ρ.lookup s.name = some s) (hne : s.name.isEmpty = false) :
    ∃ σ', mkSymbol σ s = .ok (s, σ') ∧ MgrLe σ' ρ ∧ σ'.sorts = σ.sorts := by
  unfold mkSymbol
  simp only [hne, Bool.false_eq_true, if_false]
  cases hf : σ.symbols.find? (fun e => e.1 == s.name) with
  | none =>
    refine ⟨_, rfl, ?_, rfl⟩
    intro e he
    have he' : e = (s.name, s) ∨ e ∈ σ.symbols := by simpa using he
    rcases he' with rfl | he'
    · exact hρ
    · exact hm e he'
  | some e =>
    obtain ⟨nm, s'⟩ := e
    have hmem := List.mem_of_find?_eq_some hf
    have hnm : nm = s.name := by simpa using List.find?_some hf
    have h1 : ρ.lookup nm = some s' := hm _ hmem
    rw [hnm, hρ] at h1
    have h2 : s' = s := (Option.some.inj h1).symm
    subst h2
    exact ⟨σ, by simp, hm, rfl⟩

theorem pname_nonempty {n : String} (h : pnameOK n = true) : n.isEmpty = false := by
  cases he : n.isEmpty with
  | false => rfl
  | true =>
    have : n = "" := by simpa using he
    rw [this] at h
    revert h; decide

/-! ## declare-sort, declare-fun, declare-const in an arbitrary environment -/

theorem cmd_declareSort_gen (κ : List (String × Nat)) (Γ : PEnv)
    (hms : ∀ e ∈ Γ.mgr.sorts, κ.lookup e.1 = some e.2) (n : String) (k : Nat)
    (hch : n.toList.all nameChar = true) (hr : isReserved n = false) (hκ : κ.lookup n = some k) :
    ∃ σ, cmd Γ (declareSort (n, k)) =
        .ok ({ Γ with binds := (n, sortVal (n, k)) :: Γ.binds, mgr := σ }, .declareSort n k) ∧
      σ.symbols = Γ.mgr.symbols ∧ (∀ e ∈ σ.sorts, κ.lookup e.1 = some e.2) := by
  obtain ⟨tok, htok, hsn⟩ := symTok n hch hr
  have hnum := Lit.pyInt_numeral (natStr k) k (numeral?_natStr k)
  have hneg : ¬ ((k : Int) < 0) := by omega
  simp only [declareSort, sortAtom, htok, natAtom]
  rw [cmd_declareSort_eq]
  cases hfind : Γ.mgr.sorts.find? (fun e => e.1 == n) with
  | none =>
    refine ⟨{ Γ.mgr with sorts := (n, k) :: Γ.mgr.sorts }, ?_, rfl, ?_⟩
    · simp only [cmdDeclareSort, toksOf, tokOf, pyTok_of_symName hsn, hnum, hneg, if_false, hfind,
        Int.toNat_natCast, Int.natCast_eq_zero, sortVal]
    · intro e he
      have he' : e = (n, k) ∨ e ∈ Γ.mgr.sorts := by simpa using he
      rcases he' with rfl | he'
      · exact hκ
      · exact hms e he'
  | some e =>
    obtain ⟨nm, a'⟩ := e
    have hmem := List.mem_of_find?_eq_some hfind
    have hnm : nm = n := by simpa using List.find?_some hfind
    have h1 : κ.lookup nm = some a' := hms _ hmem
    rw [hnm, hκ] at h1
    have h2 : a' = k := (Option.some.inj h1).symm
    subst h2
    refine ⟨Γ.mgr, ?_, rfl, hms⟩
    simp only [cmdDeclareSort, toksOf, tokOf, pyTok_of_symName hsn, hnum, hneg, if_false, hfind,
      Int.toNat_natCast, Int.natCast_eq_zero, sortVal, ne_eq, not_true_eq_false]

theorem cmd_declareFun_gen (env : SEnv) (ρ : List (String × Sym)) (Γ : PEnv) (hc : Corr env [] Γ)
    (hm : MgrLe Γ.mgr ρ) (s : Sym) (hfine : nameFine s.name = true) (hne : pnameOK s.name = true)
    (hρ : ρ.lookup s.name = some s) (hret : SortOK env s.ret = true) (hpar : ∀ t ∈ s.params, SortOK env t = true) :
    ∃ σ, cmd Γ (declareFun s) =
        .ok ({ Γ with binds := (s.name, declVal s) :: Γ.binds, mgr := σ }, .declare "declare-fun" s) ∧
      MgrLe σ ρ ∧ σ.sorts = Γ.mgr.sorts := by
  simp only [nameFine, Bool.and_eq_true, Bool.not_eq_true'] at hfine
  obtain ⟨⟨hch, hr⟩, _⟩ := hfine
  obtain ⟨tok, htok, hsn⟩ := symTok s.name hch hr
  have h1 := readTy_tySexp _ _ hc s.ret hret
  have h2 := readTyList_tySexp _ _ hc s.params hpar
  obtain ⟨σ, hmk, hle, hso⟩ := mkSymbol_rho hm s hρ (pname_nonempty hne)
  have hs : (⟨s.name, s.params, s.ret⟩ : Sym) = s := rfl
  refine ⟨σ, ?_, hle, hso⟩
  simp only [declareFun, htok]
  rw [cmd_declareFun_eq]
  simp only [cmdDeclareFun, h1, h2, pyTok_of_symName hsn, hs, hmk]
  rfl

theorem cmd_declareConst_gen (env : SEnv) (ρ : List (String × Sym)) (Γ : PEnv) (hc : Corr env [] Γ)
    (hm : MgrLe Γ.mgr ρ) (s : Sym) (hpar : s.params = []) (hfine : nameFine s.name = true)
    (hne : pnameOK s.name = true) (hρ : ρ.lookup s.name = some s) (hret : SortOK env s.ret = true) :
    ∃ σ, cmd Γ (.list [.atom "declare-const", quoteAtom s.name, tySexp s.ret]) =
        .ok ({ Γ with binds := (s.name, declVal s) :: Γ.binds, mgr := σ }, .declare "declare-const" s) ∧
      MgrLe σ ρ ∧ σ.sorts = Γ.mgr.sorts := by
  simp only [nameFine, Bool.and_eq_true, Bool.not_eq_true'] at hfine
  obtain ⟨⟨hch, hr⟩, _⟩ := hfine
  obtain ⟨tok, htok, hsn⟩ := symTok s.name hch hr
  have h1 := readTy_tySexp _ _ hc s.ret hret
  obtain ⟨σ, hmk, hle, hso⟩ := mkSymbol_rho hm s hρ (pname_nonempty hne)
  have hs : Sym.var s.name s.ret = s := by cases s; simp_all [Sym.var]
  have hv : declVal s = .term (Term.sym s) := by simp [declVal, hpar]
  refine ⟨σ, ?_, hle, hso⟩
  simp only [htok]
  rw [cmd_declareConst_eq]
  simp only [cmdDeclareConst, h1, pyTok_of_symName hsn, hs, hmk, hv]

/-! ## assert -/

theorem readTermSt_sorts (hks : RdKeepsSorts) {Γ : PEnv} {s : Sexp} {t : Term} {σ : MgrSt}
    (h : readTermSt Γ s = .ok (t, σ)) : σ.sorts = Γ.mgr.sorts := by
  unfold readTermSt at h
  split at h
  · next t' σ' hv =>
    simp only [Except.ok.injEq, Prod.mk.injEq] at h
    obtain ⟨_, rfl⟩ := h
    exact hks _ _ _ _ _ hv
  · cases h
  · cases h

theorem defFree_of (env : SEnv) (h : noDefSorts env = true) (ha : env.aliases = []) : defFree env := by
  intro k
  refine ⟨?_, by simp [SEnv.lookupAlias, ha]⟩
  simp only [SEnv.lookupSort, Option.map_eq_none_iff, List.find?_eq_none]
  intro d hd heq
  have hd1 : d.1 = defName k := by simpa using heq
  simp only [noDefSorts, List.all_eq_true] at h
  have h' := h d hd
  rw [hd1, defName_toList] at h'
  simp at h'

theorem cmd_assert_gen (hks : RdKeepsSorts) (dag : Bool) (env : SEnv) (ρ : List (String × Sym)) (Γ : PEnv)
    (hc : Corr env [] Γ) (hm : MgrLe Γ.mgr ρ) (t : Term) (hb : t.typeOf = some .bool)
    (hP : Printable env [] t = true) (hq : dag = true → noQuant t = true) (hQ : parseOK env ρ t = true)
    (hN : mgrNormal t = true) (hdf : dag = true → defFree env) :
    ∃ σ', cmd Γ (.list [.atom "assert", if dag then toSexpDag t else toSexp t])
        = .ok ({ Γ with mgr := σ' }, .assert (unfoldAVw (!dag) t)) ∧ MgrLe σ' ρ ∧ σ'.sorts = Γ.mgr.sorts := by
  cases dag with
  | false =>
    obtain ⟨σ', hr, hm', hty⟩ := parse_print_id_ty env ρ Γ hc hm t hP hQ hN
    refine ⟨σ', ?_, hm', readTermSt_sorts hks hr⟩
    simp only [Bool.false_eq_true, if_false, Bool.not_false, ← unfoldAV_eq]
    rw [cmd_assert_eq]
    simp only [cmdAssert, hr, hty, hb, beq_self_eq_true, if_true]
  | true =>
    have hq' := hq rfl
    have hrd := Printer.readStd_toSexpDag env t (dagOK_of_printable' _ t hP hq')
    have hτ : tyD t = .bool := by simp [tyD, hb]
    rw [hτ] at hrd
    simp only [readStdTy, List.reverse_nil, List.map_nil] at hrd
    obtain ⟨σ', hv, hm', htok⟩ := agree env ρ (toSexpDag t) (fragS_toSexpDag _ ρ (hdf rfl) t hP hq' hQ) [] Γ true hc hm
      (rotOK_toSexpDag_full _ t hP hq') (unfoldAVw false t) .bool hrd
    rw [mkNorm_of_normal _ (mgrNormal_unfold _ false t [] hP hN)] at hv htok
    refine ⟨σ', ?_, hm', hks _ _ _ _ _ hv⟩
    simp only [if_true, Bool.not_true]
    rw [cmd_assert_eq]
    simp only [cmdAssert, readTermSt, hv, htok.ty, beq_self_eq_true, if_true]

theorem addAssert_fields (st : StdState) (tm : Term) :
    (addAssert st tm).env = st.env ∧ (addAssert st tm).saved = st.saved ∧ (addAssert st tm).logicSet = st.logicSet := by
  unfold addAssert
  split <;> exact ⟨rfl, rfl, rfl⟩

theorem inv_assert {ρ : List (String × Sym)} {κ : List (String × Nat)} {st : StdState} {Γ : PEnv}
    {NF NS : List String} (h : Inv ρ κ st Γ NF NS) (tm : Term) (σ : MgrSt) (hσ : MgrLe σ ρ)
    (hσs : σ.sorts = Γ.mgr.sorts) : Inv ρ κ (addAssert st tm) { Γ with mgr := σ } NF NS := by
  obtain ⟨a, b, c⟩ := addAssert_fields st tm
  exact ⟨h.tt, h.ff, by rw [a, b]; exact h.envs, h.names, hσ, by rw [hσs]; exact h.msorts,
    by rw [a]; exact h.logic, by rw [c]; exact h.logic0⟩

/-! ## one command -/

theorem step_inv (hks : RdKeepsSorts) (dag : Bool) (ρ : List (String × Sym)) (κ : List (String × Nat))
    (st : StdState) (Γ : PEnv) (NF NS : List String) (c : Printer.Cmd) (hI : Inv ρ κ st Γ NF NS)
    (h1 : cmdOK dag st c = true) (h2 : pcmdOK dag ρ κ st NF NS c = true) :
    ∃ Γ', cmd Γ (cmdSexp dag c) = .ok (Γ', toCommand dag c) ∧
      Inv ρ κ (cmdNext dag st c) Γ' (declFunNames c ++ NF) (declSortNames c ++ NS) := by
  have hcorr := corr_of_inv hI
  obtain ⟨hef, hes, hed, hea⟩ := hI.envs st.env (by simp)
  cases c with
  | setLogic l =>
    simp only [cmdOK, Bool.and_eq_true, Bool.not_eq_true'] at h1
    obtain ⟨⟨hls, hs⟩, hr⟩ := h1
    have hl : logicOK l = true := h2
    refine ⟨_, cmd_setLogic_gen Γ (hI.logic0 hls) l hs hr, ?_⟩
    refine ⟨hI.tt, hI.ff, ?_, hI.names, hI.mgr, hI.msorts, logicOK_ia l hl, fun h => by cases h⟩
    intro e he
    have he' : e = { st.env with logic := l } ∨ e ∈ st.saved := by simpa [cmdNext] using he
    rcases he' with rfl | he'
    · exact envIn_logic _ _ _ _ _ _ l (hI.envs st.env (by simp))
    · exact hI.envs e (List.mem_cons_of_mem _ he')
  | declareSort n k =>
    simp only [cmdOK, Bool.and_eq_true, Bool.not_eq_true', Option.isNone_iff_eq_none] at h1
    obtain ⟨⟨⟨⟨hch, hr⟩, _⟩, _⟩, _⟩ := h1
    simp only [pcmdOK, Bool.and_eq_true, Bool.not_eq_true', decide_eq_true_eq] at h2
    obtain ⟨⟨hn1, hnN⟩, hκ⟩ := h2
    have hnN' : n ∉ NF := by simpa using hnN
    obtain ⟨σ, hcmd, hsy, hso⟩ := cmd_declareSort_gen κ Γ hI.msorts n k hch hr hκ
    refine ⟨_, hcmd, ?_⟩
    exact inv_bind hI n (sortVal (n, k)) hn1 NF (n :: NS) (fun e he => envIn_bindSort n k he hnN' hκ) σ
      (fun e he => hI.mgr e (hsy ▸ he)) hso
      { st.env with sorts := (n, k) :: st.env.sorts } rfl (envIn_addSort n k (hI.envs st.env (by simp)) hnN' hκ)
  | declareFun s =>
    simp only [cmdOK, Bool.and_eq_true, Bool.not_eq_true', List.all_eq_true] at h1
    obtain ⟨⟨⟨hfine, _⟩, hret⟩, hpar⟩ := h1
    simp only [pcmdOK, Bool.and_eq_true, Bool.not_eq_true', decide_eq_true_eq, Bool.or_eq_true,
      Option.isNone_iff_eq_none] at h2
    obtain ⟨⟨⟨hn1, hnN⟩, htok⟩, hρ⟩ := h2
    have hnN' : s.name ∉ NS := by simpa using hnN
    obtain ⟨σ, hcmd, hle, hso⟩ := cmd_declareFun_gen st.env ρ Γ hcorr hI.mgr s hfine (nameOK1_parts hn1).1 hρ hret hpar
    refine ⟨_, hcmd, ?_⟩
    exact inv_bind hI s.name (declVal s) hn1 (s.name :: NF) NS (fun e he => envIn_bindFun s he hnN' hρ) σ hle
      (by rw [hso]; exact hI.msorts)
      { st.env with funs := s :: st.env.funs } rfl
      (envIn_addFun s (hI.envs st.env (by simp)) hnN' hρ (fun hp => by
        rcases htok with h | h
        · rw [hp] at h; cases h
        · exact h))
  | declareConst s =>
    simp only [cmdOK, Bool.and_eq_true, Bool.not_eq_true', List.isEmpty_iff] at h1
    obtain ⟨⟨⟨hpar, hfine⟩, _⟩, hret⟩ := h1
    simp only [pcmdOK, Bool.and_eq_true, Bool.not_eq_true', decide_eq_true_eq] at h2
    obtain ⟨⟨hn1, hnN⟩, hρ⟩ := h2
    have hnN' : s.name ∉ NS := by simpa using hnN
    obtain ⟨σ, hcmd, hle, hso⟩ := cmd_declareConst_gen st.env ρ Γ hcorr hI.mgr s hpar hfine (nameOK1_parts hn1).1 hρ hret
    refine ⟨_, hcmd, ?_⟩
    exact inv_bind hI s.name (declVal s) hn1 (s.name :: NF) NS (fun e he => envIn_bindFun s he hnN' hρ) σ hle
      (by rw [hso]; exact hI.msorts)
      { st.env with funs := s :: st.env.funs } rfl
      (envIn_addFun s (hI.envs st.env (by simp)) hnN' hρ (fun hp => by simp [hpar] at hp))
  | assert t =>
    simp only [cmdOK, Bool.and_eq_true, beq_iff_eq, Bool.or_eq_true, Bool.not_eq_true'] at h1
    obtain ⟨⟨hbool, hP⟩, hq⟩ := h1
    simp only [pcmdOK, Bool.and_eq_true, Bool.or_eq_true, Bool.not_eq_true'] at h2
    obtain ⟨⟨hQ, hN⟩, hdf⟩ := h2
    obtain ⟨σ', hcmd, hle, hso⟩ := cmd_assert_gen hks dag st.env ρ Γ hcorr hI.mgr t hbool hP
      (fun hd => by rcases hq with h | h; · rw [hd] at h; cases h
                    · exact h) hQ hN
      (fun hd => by
        rcases hdf with h | h
        · rw [hd] at h; cases h
        · exact defFree_of _ h hea)
    exact ⟨_, hcmd, inv_assert hI _ σ' hle hso⟩
  | push n => exact ⟨Γ, cmd_push Γ n, inv_push hI n⟩
  | pop n =>
    simp only [cmdOK] at h1
    cases hp : popN st n with
    | ok st' =>
      refine ⟨Γ, cmd_pop Γ n, ?_⟩
      show Inv ρ κ (cmdNext dag st (.pop n)) Γ NF NS
      simp only [cmdNext, hp]
      exact inv_pop hI n hp
    | error e => rw [hp] at h1; simp at h1
  | checkSat => exact ⟨Γ, cmd_checkSat Γ, hI⟩

/-! ## the list of commands -/

theorem script_cmds_from (hks : RdKeepsSorts) (dag : Bool) (ρ : List (String × Sym)) (κ : List (String × Nat)) :
    ∀ (cmds : List Printer.Cmd) (st : StdState) (Γ : PEnv) (NF NS : List String), Inv ρ κ st Γ NF NS →
      cmdsOK dag st cmds = true → pcmdsFrom dag ρ κ st NF NS cmds = true →
      script Γ (scriptOfCmds dag cmds) = .ok (cmds.map (toCommand dag)) ∧
        ∃ Γ' NF' NS', envAfter Γ (scriptOfCmds dag cmds) = .ok Γ' ∧ Inv ρ κ (cmdsRun dag st cmds) Γ' NF' NS'
  | [], st, Γ, NF, NS, hI, _, _ => ⟨rfl, Γ, NF, NS, rfl, hI⟩
  | c :: cs, st, Γ, NF, NS, hI, h1, h2 => by
    simp only [cmdsOK, Bool.and_eq_true] at h1
    simp only [pcmdsFrom, Bool.and_eq_true] at h2
    obtain ⟨Γ1, hstep, hI1⟩ := step_inv hks dag ρ κ st Γ NF NS c hI h1.1 h2.1
    obtain ⟨ih1, Γ', NF', NS', ih2, ih3⟩ := script_cmds_from hks dag ρ κ cs _ Γ1 _ _ hI1 h1.2 h2.2
    simp only [scriptOfCmds, List.map_cons] at ih1 ih2 ⊢
    rw [script_cons_ok hstep, envAfter_cons_ok hstep, ih1]
    exact ⟨rfl, Γ', NF', NS', ih2, ih3⟩

end PySMT.Parser.Agree
