import PySMT.Proofs.C12Basic
/-!
# C12, part 2: atoms

`atomsDef` is the definition on the formula's structure: the maximal Boolean sub-terms that are not
part of the Boolean skeleton (connectives, quantifiers, Boolean `ite`, Boolean constants).
`atomsO_spec`: on well-typed terms the AtomsOracle returns exactly these for a Boolean term and
`None` for a term of another sort (it never raises). `atoms_determine`, `atoms_truth_function`: the
value of a quantifier-free Boolean formula is a function of the values of its atoms.
-/
namespace PySMT.Oracles
open PySMT.Gen.Operators PySMT.Analyses

theorem atomsDef_node (op args p) : atomsDef (.node op args p) =
    if isSkel (.node op args p) then (args.map atomsDef).flatten else [.node op args p] := by
  rw [atomsDef.eq_def]; try rfl

theorem atomsO_node (op args p) : atomsO (.node op args p) =
    atomsNode op p (.node op args p) (Term.node op args p).typeOf (args.map atomsO) := by
  rw [atomsO.eq_def]

/-! ### typing facts -/

local macro "tinv " h:ident : tactic => `(tactic| try (cases $h:ident; done))

theorem typeOfNode_arrayStore {p ts τ} (h : typeOfNode .arrayStore p ts = some τ) : ∃ i e, τ = .array i e := by
  rcases ts with _ | ⟨_ | ⟨t1⟩, r1⟩ <;> tinv h
  cases t1 <;> tinv h
  rcases r1 with _ | ⟨_ | ⟨t2⟩, r2⟩ <;> tinv h
  rcases r2 with _ | ⟨_ | ⟨t3⟩, r3⟩ <;> tinv h
  rcases r3 with _ | ⟨t4, r4⟩ <;> tinv h
  obtain ⟨_, rfl⟩ := of_ite_some h
  exact ⟨_, _, rfl⟩

theorem typeOfNode_arrayValue {p ts τ} (h : typeOfNode .arrayValue p ts = some τ) : ∃ i e, τ = .array i e := by
  cases p <;> tinv h
  rcases ts with _ | ⟨_ | ⟨t1⟩, r1⟩ <;> tinv h
  obtain ⟨_, rfl⟩ := of_ite_some h
  exact ⟨_, _, rfl⟩

theorem typeOfNode_pow {p ts τ} (h : typeOfNode .pow p ts = some τ) : τ = .real := by
  rcases ts with _ | ⟨_ | ⟨t1⟩, r1⟩ <;> tinv h
  rcases r1 with _ | ⟨_ | ⟨t2⟩, r2⟩ <;> tinv h
  rcases r2 with _ | ⟨t3, r3⟩ <;> tinv h
  exact (of_ite_some h).2.symm

/-- no theory operator other than `select` produces a Boolean -/
theorem typeOfNode_theory_not_bool (op : Op) (h : theoryOperators.contains op = true) (hsel : op ≠ .arraySelect)
    {p ts τ} (ht : typeOfNode op p ts = some τ) : τ ≠ .bool := by
  by_cases har : op.isArith = true
  · rw [typeOfNode_arith op har] at ht
    split at ht
    · cases ht; simp
    · obtain ⟨_, rfl⟩ := of_ite_some ht; simp
  by_cases hbv : op.isBvSame = true
  · rw [typeOfNode_bvSame op hbv] at ht
    split at ht
    · obtain ⟨_, rfl⟩ := of_ite_some ht; simp
    · cases ht
  by_cases hs : op.strRes = true
  · rw [typeOfNode_strRes op hs ht]; simp
  by_cases hsi : op.strIntRes = true
  · rw [typeOfNode_strIntRes op hsi ht]; simp
  cases op
  all_goals try (exfalso; exact har rfl)
  all_goals try (exfalso; exact hbv rfl)
  all_goals try (exfalso; exact hs rfl)
  all_goals try (exfalso; exact hsi rfl)
  all_goals try (exfalso; exact hsel rfl)
  all_goals try (exfalso; revert h; decide)
  case toReal => rw [typeOfNode_toReal] at ht; obtain ⟨_, rfl⟩ := of_ite_some ht; simp
  case bvConcat => obtain ⟨l, r, _, rfl⟩ := typeOfNode_bvConcat ht; simp
  case bvExtract => obtain ⟨w, lo, hi, base, _, _, rfl, _⟩ := typeOfNode_bvExtract ht; simp
  case bvRol => obtain ⟨w, k, _, _, rfl⟩ := typeOfNode_bvRot .bvRol (.inl rfl) ht; simp
  case bvRor => obtain ⟨w, k, _, _, rfl⟩ := typeOfNode_bvRot .bvRor (.inr rfl) ht; simp
  case bvZext => obtain ⟨w, ws, a, r, _, _, rfl⟩ := typeOfNode_bvExt .bvZext (.inl rfl) ht; simp
  case bvSext => obtain ⟨w, ws, a, r, _, _, rfl⟩ := typeOfNode_bvExt .bvSext (.inr rfl) ht; simp
  case bvComp => obtain ⟨w, _, rfl⟩ := typeOfNode_bvComp ht; simp
  case bvToNatural => obtain ⟨rfl, _⟩ := typeOfNode_bvToNatural ht; simp
  case arrayStore => obtain ⟨i, e, rfl⟩ := typeOfNode_arrayStore ht; simp
  case arrayValue => obtain ⟨i, e, rfl⟩ := typeOfNode_arrayValue ht; simp
  case pow => rw [typeOfNode_pow ht]; simp

theorem allAre_map {args : List Term} {T : Ty} (h : allAre (args.map Term.typeOf) T = true) :
    ∀ a ∈ args, a.typeOf = some T := by
  intro a ha
  simp only [allAre, List.all_map, List.all_eq_true, Function.comp, beq_iff_eq] at h
  exact h a ha

theorem wt_typeOf_isSome : (t : Term) → t.wt = true → ∃ τ, t.typeOf = some τ
  | .node op args p, h => by
    have := Term.wt_typeOf h
    rw [typeOf_node]
    exact Option.isSome_iff_exists.mp this

/-! ### the oracle computes the definition -/

/-- what the oracle returns on a (well-typed) child -/
def childRes (a : Term) : ARes := if a.typeOf = some .bool then .atoms (atomsDef a) else .theory

theorem any_isErr_childRes (args : List Term) : (args.map childRes).any ARes.isErr = false := by
  rw [List.any_map]
  apply List.any_eq_false.mpr
  intro a _
  simp only [Function.comp, childRes]
  split <;> simp [ARes.isErr]

theorem childRes_all_bool {args : List Term} (h : ∀ a ∈ args, a.typeOf = some .bool) :
    args.map childRes = args.map (fun a => ARes.atoms (atomsDef a)) :=
  List.map_congr_left (fun a ha => by simp [childRes, h a ha])

theorem unionAll_atoms (args : List Term) :
    unionAll (args.map (fun a => ARes.atoms (atomsDef a))) = .atoms (args.map atomsDef).flatten := by
  simp [unionAll, List.all_map, ARes.isAtoms, ARes.get, Function.comp_def]

theorem all_isAtoms_atoms (args : List Term) :
    (args.map (fun a => ARes.atoms (atomsDef a))).all ARes.isAtoms = true := by
  simp [List.all_map, ARes.isAtoms, Function.comp_def]

theorem get_flatten_atoms (args : List Term) :
    ((args.map (fun a => ARes.atoms (atomsDef a))).map ARes.get).flatten = (args.map atomsDef).flatten := by
  simp [ARes.get, Function.comp_def]

theorem atomsNode_skel {op p self ty} {rs : List ARes} (hne : rs.any ARes.isErr = false)
    (h1 : (boolConnectives.contains op || quantifiers.contains op) = true) :
    atomsNode op p self ty rs = unionAll rs := by
  simp only [atomsNode, hne, h1, if_true, Bool.false_eq_true, if_false]

theorem atomsNode_rel {op p self ty} {rs : List ARes} (hne : rs.any ARes.isErr = false)
    (h1 : (boolConnectives.contains op || quantifiers.contains op) = false)
    (h2 : relations.contains op = true) :
    atomsNode op p self ty rs = .atoms [self] := by
  simp only [atomsNode, hne, h1, h2, if_true, Bool.false_eq_true, if_false]

theorem atomsNode_select {p self ty} {rs : List ARes} (hne : rs.any ARes.isErr = false) :
    atomsNode .arraySelect p self ty rs = if ty == some .bool then .atoms [self] else .theory := by
  have h1 : (boolConnectives.contains Op.arraySelect || quantifiers.contains Op.arraySelect) = false := rfl
  have h2 : relations.contains Op.arraySelect = false := rfl
  simp only [atomsNode, hne, h1, h2, Bool.false_eq_true, if_false, BEq.rfl, if_true]

theorem atomsNode_theory {op p self ty} {rs : List ARes} (hne : rs.any ARes.isErr = false)
    (h1 : (boolConnectives.contains op || quantifiers.contains op) = false)
    (h2 : relations.contains op = false) (h3 : (op == .arraySelect) = false)
    (h4 : theoryOperators.contains op = true) :
    atomsNode op p self ty rs = .theory := by
  simp only [atomsNode, hne, h1, h2, h3, h4, if_true, Bool.false_eq_true, if_false]

theorem atomsNode_const {op p self ty} {rs : List ARes} (hne : rs.any ARes.isErr = false)
    (h1 : (boolConnectives.contains op || quantifiers.contains op) = false)
    (h2 : relations.contains op = false) (h3 : (op == .arraySelect) = false)
    (h4 : theoryOperators.contains op = false) (h5 : constants.contains op = true) :
    atomsNode op p self ty rs = if op == .boolConst then .atoms [] else .theory := by
  simp only [atomsNode, hne, h1, h2, h3, h4, h5, if_true, Bool.false_eq_true, if_false]

theorem atomsNode_symbol {s : Sym} {self ty} {rs : List ARes} (hne : rs.any ARes.isErr = false) :
    atomsNode .symbol (.sym s) self ty rs =
      if s.params.isEmpty && s.ret == .bool then .atoms [self] else .theory := by
  have h1 : (boolConnectives.contains Op.symbol || quantifiers.contains Op.symbol) = false := rfl
  have h2 : relations.contains Op.symbol = false := rfl
  have h3 : (Op.symbol == .arraySelect) = false := rfl
  have h4 : theoryOperators.contains Op.symbol = false := rfl
  have h5 : constants.contains Op.symbol = false := rfl
  simp only [atomsNode, hne, h1, h2, h3, h4, h5, Bool.false_eq_true, if_false, BEq.rfl, if_true]

theorem atomsNode_function {f : Sym} {self ty} {rs : List ARes} (hne : rs.any ARes.isErr = false) :
    atomsNode .function (.sym f) self ty rs = if f.ret == .bool then .atoms [self] else .theory := by
  have h1 : (boolConnectives.contains Op.function || quantifiers.contains Op.function) = false := rfl
  have h2 : relations.contains Op.function = false := rfl
  have h3 : (Op.function == .arraySelect) = false := rfl
  have h4 : theoryOperators.contains Op.function = false := rfl
  have h5 : constants.contains Op.function = false := rfl
  have h6 : (Op.function == .symbol) = false := rfl
  simp only [atomsNode, hne, h1, h2, h3, h4, h5, h6, Bool.false_eq_true, if_false, BEq.rfl, if_true]

theorem atomsNode_ite {p self ty} {rs : List ARes} (hne : rs.any ARes.isErr = false) :
    atomsNode .ite p self ty rs =
      if rs.all ARes.isAtoms then .atoms (rs.map ARes.get).flatten else .theory := by
  have h1 : (boolConnectives.contains Op.ite || quantifiers.contains Op.ite) = false := rfl
  have h2 : relations.contains Op.ite = false := rfl
  have h3 : (Op.ite == .arraySelect) = false := rfl
  have h4 : theoryOperators.contains Op.ite = false := rfl
  have h5 : constants.contains Op.ite = false := rfl
  have h6 : (Op.ite == .symbol) = false := rfl
  have h7 : (Op.ite == .function) = false := rfl
  simp only [atomsNode, hne, h1, h2, h3, h4, h5, h6, h7, Bool.false_eq_true, if_false, BEq.rfl, if_true]

/-- **`atoms_eq_def`** (with the `None` case): on a well-typed term of type `τ` the oracle returns the
atoms of the definition when `τ = Bool` and `None` ("theory term") otherwise; it never raises. -/
theorem atomsO_spec : (t : Term) → t.wt = true → ∀ τ, t.typeOf = some τ →
    atomsO t = if τ = .bool then .atoms (atomsDef t) else .theory
  | .node op args p, hwt, τ, hty => by
    have ih : args.map atomsO = args.map childRes := by
      apply List.map_congr_left
      intro a ha
      have hwa := Term.wt_child hwt a ha
      obtain ⟨σ, hσ⟩ := wt_typeOf_isSome a hwa
      rw [atomsO_spec a hwa σ hσ, childRes, hσ]
      by_cases hb : σ = .bool <;> simp [hb]
    have hnoerr := any_isErr_childRes args
    have hty' := hty
    rw [typeOf_node] at hty'
    have hself : (Term.node op args p).op = op := rfl
    rw [atomsO_node, ih, atomsDef_node, hty]
    -- nodes of the Boolean skeleton whose children are all Boolean
    have skel : (boolConnectives.contains op || quantifiers.contains op) = true →
        isSkel (.node op args p) = true →
        allAre (args.map Term.typeOf) .bool = true → τ = .bool →
        atomsNode op p (.node op args p) (some τ) (args.map childRes) =
          if τ = .bool then .atoms (if isSkel (.node op args p) then (args.map atomsDef).flatten
            else [.node op args p]) else .theory := by
      intro hcls hsk hall hτ
      subst hτ
      rw [atomsNode_skel hnoerr hcls, childRes_all_bool (allAre_map hall), unionAll_atoms, hsk]
      simp
    -- relations
    have rel : relations.contains op = true →
        (boolConnectives.contains op || quantifiers.contains op) = false →
        isSkel (.node op args p) = false → op.boolRes = true →
        atomsNode op p (.node op args p) (some τ) (args.map childRes) =
          if τ = .bool then .atoms (if isSkel (.node op args p) then (args.map atomsDef).flatten
            else [.node op args p]) else .theory := by
      intro hr hcls hsk hb
      rw [atomsNode_rel hnoerr hcls hr, hsk, typeOfNode_boolRes _ _ _ _ hb hty']
      simp
    -- theory operators
    have thy : theoryOperators.contains op = true → op ≠ .arraySelect →
        (boolConnectives.contains op || quantifiers.contains op) = false →
        relations.contains op = false →
        atomsNode op p (.node op args p) (some τ) (args.map childRes) =
          if τ = .bool then .atoms (if isSkel (.node op args p) then (args.map atomsDef).flatten
            else [.node op args p]) else .theory := by
      intro ht hsel hcls hr
      have hτ := typeOfNode_theory_not_bool op ht hsel hty'
      rw [atomsNode_theory hnoerr hcls hr (by simpa using hsel) ht]
      simp [hτ]
    -- constants other than Boolean ones
    have cst : constants.contains op = true → (op == .boolConst) = false → τ ≠ .bool →
        (boolConnectives.contains op || quantifiers.contains op) = false →
        relations.contains op = false → (op == .arraySelect) = false → theoryOperators.contains op = false →
        atomsNode op p (.node op args p) (some τ) (args.map childRes) =
          if τ = .bool then .atoms (if isSkel (.node op args p) then (args.map atomsDef).flatten
            else [.node op args p]) else .theory := by
      intro hc hb hτ hcls hr hsel ht
      rw [atomsNode_const hnoerr hcls hr hsel ht hc, hb]
      simp [hτ]
    have cargs : op.isConstant = true → args = [] := by
      intro hc
      have : args.map Term.typeOf = [] := typeOfNode_const_args hc (Term.wt_typeOf hwt)
      simpa using this
    cases op
    case and => obtain ⟨h1, h2⟩ := of_ite_some hty'; exact skel rfl rfl h1 h2.symm
    case or => obtain ⟨h1, h2⟩ := of_ite_some hty'; exact skel rfl rfl h1 h2.symm
    case not => obtain ⟨h1, h2⟩ := of_ite_some hty'; exact skel rfl rfl h1 h2.symm
    case implies => obtain ⟨h1, h2⟩ := of_ite_some hty'; exact skel rfl rfl h1 h2.symm
    case iff => obtain ⟨h1, h2⟩ := of_ite_some hty'; exact skel rfl rfl h1 h2.symm
    case forall_ =>
      have hts := typeOfNode_forall (Term.wt_typeOf hwt)
      rw [typeOfNode_forall_eq, hts] at hty'
      exact skel rfl rfl (by rw [hts]; rfl) (Option.some.inj hty').symm
    case exists_ =>
      have hts := typeOfNode_exists (Term.wt_typeOf hwt)
      rw [typeOfNode_exists_eq, hts] at hty'
      exact skel rfl rfl (by rw [hts]; rfl) (Option.some.inj hty').symm
    case le | lt | equals | bvUlt | bvUle | bvSlt | bvSle | strContains | strPrefixOf | strSuffixOf =>
      exact rel rfl rfl rfl rfl
    case arraySelect =>
      rw [atomsNode_select hnoerr]
      have hsk : isSkel (.node .arraySelect args p) = false := rfl
      rw [hsk]
      by_cases hb : τ = .bool <;> simp [hb]
    case symbol =>
      obtain ⟨hts, s, rfl, hpar⟩ := typeOfNode_symbol (Term.wt_typeOf hwt)
      rw [typeOfNode_symbol_eq, hts] at hty'
      obtain ⟨_, rfl⟩ := of_ite_some hty'
      rw [atomsNode_symbol hnoerr]
      have hsk : isSkel (.node .symbol args (.sym s)) = false := rfl
      rw [hsk]
      by_cases hb : s.ret = .bool <;> simp [hb, hpar]
    case function =>
      obtain ⟨f, rfl⟩ := typeOfNode_function_payload (Term.wt_typeOf hwt)
      rw [typeOfNode_function_eq] at hty'
      obtain ⟨_, rfl⟩ := of_ite_some hty'
      rw [atomsNode_function hnoerr]
      have hsk : isSkel (.node .function args (.sym f)) = false := rfl
      rw [hsk]
      by_cases hb : f.ret = .bool <;> simp [hb]
    case boolConst =>
      have := cargs rfl
      subst this
      have hτ : τ = .bool := by
        rcases p with _ | _ | _ | _ | _ | _ | _ | _ | _ | _ <;> exact (Option.some.inj hty').symm
      subst hτ
      have h := @atomsNode_const .boolConst p (.node .boolConst [] p) (some .bool) ([].map childRes) hnoerr
        rfl rfl rfl rfl rfl
      rw [h]
      have hsk : isSkel (.node .boolConst [] p) = true := rfl
      simp [hsk]
    case realConst =>
      have := cargs rfl
      subst this
      have hτ : τ = .real := (Option.some.inj hty').symm
      exact cst rfl rfl (by simp [hτ]) rfl rfl rfl rfl
    case algebraicConst =>
      have := cargs rfl
      subst this
      have hτ : τ = .real := (Option.some.inj hty').symm
      exact cst rfl rfl (by simp [hτ]) rfl rfl rfl rfl
    case intConst =>
      have := cargs rfl
      subst this
      have hτ : τ = .int := (Option.some.inj hty').symm
      exact cst rfl rfl (by simp [hτ]) rfl rfl rfl rfl
    case strConst =>
      have := cargs rfl
      subst this
      have hτ : τ = .str := (Option.some.inj hty').symm
      exact cst rfl rfl (by simp [hτ]) rfl rfl rfl rfl
    case bvConst =>
      have := cargs rfl
      subst this
      have hτ : τ ≠ .bool := by
        cases p <;> first | (cases hty'; done) | (cases hty'; simp)
      exact cst rfl rfl hτ rfl rfl rfl rfl
    case ite =>
      have hts := typeOfNode_ite hty'
      rw [atomsNode_ite hnoerr]
      rcases args with _ | ⟨c, _ | ⟨a, _ | ⟨b, _ | ⟨d, r⟩⟩⟩⟩ <;> try (simp at hts; done)
      simp only [List.map_cons, List.map_nil, List.cons.injEq, and_true] at hts
      obtain ⟨hc, ha, hb⟩ := hts
      have hsk : isSkel (.node .ite [c, a, b] p) = (τ == .bool) := by
        show ((Term.node .ite [c, a, b] p).typeOf == some .bool) = (τ == .bool)
        rw [hty]
        by_cases h : τ = .bool <;> simp [h]
      rw [hsk]
      by_cases h : τ = .bool
      · subst h
        simp [childRes, hc, ha, hb, ARes.isAtoms, ARes.get]
      · simp [childRes, hc, ha, hb, ARes.isAtoms, h]
    all_goals exact thy rfl (by simp) rfl rfl

/-! ### the value of a quantifier-free Boolean formula is a function of the values of its atoms -/

theorem skelEval_node (ρ : Term → Bool) (op args p) : skelEval ρ (.node op args p) =
    if isSkel (.node op args p) then
      match op, args.map (skelEval ρ), p with
      | .and, bs, _ => bs.all id
      | .or, bs, _ => bs.any id
      | .not, [a], _ => !a
      | .implies, [a, b], _ => !a || b
      | .iff, [a, b], _ => a == b
      | .ite, [c, a, b], _ => if c then a else b
      | .boolConst, _, .b v => v
      | _, _, _ => false
    else ρ (.node op args p) := by
  rw [skelEval.eq_def]; try rfl

theorem isSkel_cases {op args p} (h : isSkel (.node op args p) = true) :
    op = .and ∨ op = .or ∨ op = .not ∨ op = .implies ∨ op = .iff ∨ op = .forall_ ∨ op = .exists_ ∨
    op = .boolConst ∨ op = .ite := by
  cases op <;> simp [isSkel, Term.op] at h ⊢

theorem isQF_node {op args p} (h : (Term.node op args p).isQF = true) :
    op.isQuantifier = false ∧ ∀ a ∈ args, a.isQF = true := by
  rw [← isQFO_eq_isQF, isQFO_node] at h
  simp only [qfNode, quantifiers_contains] at h
  cases hq : op.isQuantifier
  · simp only [hq, Bool.false_eq_true, if_false, List.all_map, List.all_eq_true, Function.comp, id] at h
    exact ⟨rfl, fun a ha => by rw [← isQFO_eq_isQF]; exact h a ha⟩
  · simp [hq] at h

theorem mem_atomsDef_child {op args p} (h : isSkel (.node op args p) = true) {a : Term} (ha : a ∈ args)
    {x : Term} (hx : x ∈ atomsDef a) : x ∈ atomsDef (.node op args p) := by
  rw [atomsDef_node, h]
  simp only [if_true, List.mem_flatten, List.mem_map]
  exact ⟨_, ⟨a, ha, rfl⟩, hx⟩

/-- the skeleton operators do not read the interpretation -/
theorem evalOp_skel_indep (I J : Interp) (op : Op)
    (h : op = .and ∨ op = .or ∨ op = .not ∨ op = .implies ∨ op = .iff ∨ op = .boolConst ∨ op = .ite)
    (p : Payload) (vs : List Val) : evalOp I op p vs = evalOp J op p vs := by
  rcases h with rfl | rfl | rfl | rfl | rfl | rfl | rfl <;> first
    | rfl
    | (rcases vs with _ | ⟨a, _ | ⟨b, _ | ⟨c, _ | ⟨d, r⟩⟩⟩⟩ <;> rfl)
    | (cases p <;> rfl)

/-- **`atoms_determine`** (definition side): two interpretations that give every atom of a
quantifier-free term the same value give the term the same value. No other agreement between the
interpretations is needed (the atoms carry all the theory content). -/
theorem atomsDef_determine (I J : Interp) : (t : Term) → t.isQF = true →
    (∀ a ∈ atomsDef t, eval I a = eval J a) → eval I t = eval J t
  | .node op args p, hqf, h => by
    by_cases hsk : isSkel (.node op args p) = true
    · obtain ⟨hq, hch⟩ := isQF_node hqf
      have ih : ∀ a ∈ args, eval I a = eval J a := fun a ha =>
        atomsDef_determine I J a (hch a ha) (fun x hx => h x (mem_atomsDef_child hsk ha hx))
      have hop : op = .and ∨ op = .or ∨ op = .not ∨ op = .implies ∨ op = .iff ∨ op = .boolConst ∨ op = .ite := by
        rcases isSkel_cases hsk with h | h | h | h | h | h | h | h | h <;> simp_all [Op.isQuantifier]
      have h1 : op ≠ .symbol := by rcases hop with rfl | rfl | rfl | rfl | rfl | rfl | rfl <;> simp
      have h2 : op ≠ .function := by rcases hop with rfl | rfl | rfl | rfl | rfl | rfl | rfl <;> simp
      rw [eval_plain I op args p h1 h2 hq, eval_plain J op args p h1 h2 hq, evalOp_skel_indep I J op hop,
        List.map_congr_left ih]
    · apply h
      rw [atomsDef_node]
      simp [hsk]

theorem skelEval_congr (ρ ρ' : Term → Bool) : (t : Term) → (∀ a ∈ atomsDef t, ρ a = ρ' a) →
    skelEval ρ t = skelEval ρ' t
  | .node op args p, h => by
    rw [skelEval_node, skelEval_node]
    by_cases hsk : isSkel (.node op args p) = true
    · have ih : args.map (skelEval ρ) = args.map (skelEval ρ') :=
        List.map_congr_left (fun a ha => skelEval_congr ρ ρ' a (fun x hx => h x (mem_atomsDef_child hsk ha hx)))
      rw [ih]
      simp only [hsk, if_true]
    · have : isSkel (.node op args p) = false := by simpa using hsk
      simp only [this, Bool.false_eq_true, if_false]
      apply h
      rw [atomsDef_node]
      simp [this]

@[simp] theorem isTrue_b (b : Bool) : (Val.b b).isTrue = b := by cases b <;> rfl

/-- the truth value of a quantifier-free term is the Boolean skeleton evaluated on the truth
values of the atoms -/
theorem atoms_truth_function (I : Interp) : (t : Term) → t.isQF = true →
    (eval I t).isTrue = skelEval (fun a => (eval I a).isTrue) t
  | .node op args p, hqf => by
    rw [skelEval_node]
    by_cases hsk : isSkel (.node op args p) = true
    · obtain ⟨hq, hch⟩ := isQF_node hqf
      have ih : args.map (skelEval (fun a => (eval I a).isTrue)) = args.map (fun a => (eval I a).isTrue) :=
        List.map_congr_left (fun a ha => (atoms_truth_function I a (hch a ha)).symm)
      rw [ih]
      simp only [hsk, if_true]
      rcases isSkel_cases hsk with rfl | rfl | rfl | rfl | rfl | rfl | rfl | rfl | rfl
      · rw [eval_and]; simp [List.all_map, Function.comp_def]
      · rw [eval_or]; simp [List.any_map, Function.comp_def]
      · rw [eval_plain I .not args p (by simp) (by simp) rfl]
        rcases args with _ | ⟨a, _ | ⟨b, r⟩⟩ <;> simp [evalOp]
      · rw [eval_plain I .implies args p (by simp) (by simp) rfl]
        rcases args with _ | ⟨a, _ | ⟨b, _ | ⟨c, r⟩⟩⟩ <;> simp [evalOp]
      · rw [eval_plain I .iff args p (by simp) (by simp) rfl]
        rcases args with _ | ⟨a, _ | ⟨b, _ | ⟨c, r⟩⟩⟩ <;> simp [evalOp]
      · simp [Op.isQuantifier] at hq
      · simp [Op.isQuantifier] at hq
      · rw [eval_plain I .boolConst args p (by simp) (by simp) rfl]
        cases p <;> simp [evalOp]
      · rw [eval_plain I .ite args p (by simp) (by simp) rfl]
        rcases args with _ | ⟨c, _ | ⟨a, _ | ⟨b, _ | ⟨d, r⟩⟩⟩⟩ <;> simp [evalOp]
        split <;> rfl
    · have : isSkel (.node op args p) = false := by simpa using hsk
      simp [this]

/-- **`atoms_determine`**, truth-value form -/
theorem atomsDef_determine_truth (I J : Interp) (t : Term) (hqf : t.isQF = true)
    (h : ∀ a ∈ atomsDef t, (eval I a).isTrue = (eval J a).isTrue) :
    (eval I t).isTrue = (eval J t).isTrue := by
  rw [atoms_truth_function I t hqf, atoms_truth_function J t hqf]
  exact skelEval_congr _ _ t h

end PySMT.Oracles
