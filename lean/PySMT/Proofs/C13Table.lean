/-
C13, table part: facts about the *regenerated* tables of `Gen/Logics.lean`, each closed by
`decide +kernel` over the finite table (re-checked whenever pysmt/logics.py changes), and the
table-specific selection functions.
-/
import PySMT.Gen.Logics
import PySMT.Proofs.C13Select
namespace PySMT.Logics

/-- every logic that is a member of some module-level set -/
def TABLE : List Logic := (LOGICS ++ PYSMT_LOGICS ++ SMTLIB2_LOGICS).eraseDups

/-- all named logics have a well-formed theory that passes the constructor's assertion -/
theorem table_wf : ∀ l ∈ ALL_NAMED, l.theory.wf = true ∧ l.theory.init_ok = true := by decide +kernel

/-- no two table logics differ only in their name -/
theorem table_no_twins : NoTwins TABLE := by unfold NoTwins; decide +kernel

theorem logics_no_twins : NoTwins LOGICS := by unfold NoTwins; decide +kernel
theorem pysmt_no_twins : NoTwins PYSMT_LOGICS := by unfold NoTwins; decide +kernel
theorem smtlib2_no_twins : NoTwins SMTLIB2_LOGICS := by unfold NoTwins; decide +kernel

/-- on the table `≤` is antisymmetric on the nose (decided over all pairs, independently of the
general theorem) -/
theorem table_antisymm : ∀ a ∈ TABLE, ∀ b ∈ TABLE, Logic.le a b = true → Logic.le b a = true → a = b := by
  decide +kernel

theorem table_names_unique : ∀ a ∈ TABLE, ∀ b ∈ TABLE, a.name = b.name → a = b := by decide +kernel

/-- the `Auto` marker is the only named logic outside the table that has a twin inside it -/
theorem auto_is_twin_of_bool : AUTO.theory = BOOL.theory ∧ AUTO.quantifier_free = BOOL.quantifier_free ∧
    AUTO ∉ TABLE := by decide +kernel

/-- F32: every logic that detection can return (`PYSMT_LOGICS`) and every SMT-LIB logic is a member of
`LOGICS`, the table `get_logic_by_name` and `get_logic` search -/
theorem pysmt_subset_logics : ∀ l ∈ PYSMT_LOGICS, l ∈ LOGICS := by decide +kernel
theorem smtlib2_subset_logics : ∀ l ∈ SMTLIB2_LOGICS, l ∈ LOGICS := by decide +kernel

/-- `get_logic` (by flags) finds every member of `LOGICS` -/
theorem get_logic_finds : ∀ l ∈ LOGICS,
    (get_logic l.quantifier_free l.theory.arrays l.theory.arrays_const l.theory.bit_vectors
      l.theory.floating_point l.theory.integer_arithmetic l.theory.real_arithmetic
      l.theory.integer_difference l.theory.real_difference l.theory.linear l.theory.uninterpreted
      l.theory.custom_type l.theory.strings).toOption = some l := by decide +kernel

/-! ### the two table-specific selection functions -/

theorem get_closer_pysmt_logic_spec (tgt r : Logic) (h : get_closer_pysmt_logic tgt = .ok r) :
    IsClosest Logic.le PYSMT_LOGICS tgt r :=
  get_closer_logic_spec PYSMT_LOGICS tgt r h

theorem get_closer_pysmt_logic_total (tgt : Logic) (h : ∃ k ∈ PYSMT_LOGICS, Logic.le tgt k = true) :
    ∃ r, get_closer_pysmt_logic tgt = .ok r :=
  get_closer_logic_total PYSMT_LOGICS tgt pysmt_no_twins h

theorem smtlib_special1 : IsClosest Logic.le SMTLIB2_LOGICS QF_BOOL QF_UF := by
  unfold IsClosest; decide +kernel
theorem smtlib_special2 : IsClosest Logic.le SMTLIB2_LOGICS BOOL LRA := by
  unfold IsClosest; decide +kernel

/-- the two hard-wired answers of `get_closer_smtlib_logic` are closest logics too -/
theorem get_closer_smtlib_logic_spec (tgt r : Logic) (h : get_closer_smtlib_logic tgt = .ok r) :
    IsClosest Logic.le SMTLIB2_LOGICS tgt r := by
  simp only [get_closer_smtlib_logic] at h
  cases h1 : Logic.eq tgt QF_BOOL with
  | true =>
    rw [h1, cond_true] at h
    cases h
    rw [(Logic.eq_iff _ _).1 h1]
    exact smtlib_special1
  | false =>
    rw [h1, cond_false] at h
    cases h2 : Logic.eq tgt BOOL with
    | true =>
      rw [h2, cond_true] at h
      cases h
      rw [(Logic.eq_iff _ _).1 h2]
      exact smtlib_special2
    | false =>
      rw [h2, cond_false] at h
      exact get_closer_logic_spec SMTLIB2_LOGICS tgt r h

end PySMT.Logics
