import PySMT.Proofs.C08WT2
import PySMT.Impl.Parser
/-!
# C08 — "accepted ⇒ well-typed", part 3: the non-recursive pieces of the parser model

`ValOK` / `EnvOK` (the invariant of the parser's cache), and: `callMgr`, `fix_real`, the three special operators,
`applyFn` for every kind of callable except `define-fun`'d functions, `literal`, `atomVal`, `(_ …)`, `(as …)`,
quantified variables.
-/
namespace PySMT.Parser.WT
open PySMT PySMT.Parser PySMT.Gen.ParserOps

/-- what a value of the parser's cache must satisfy -/
def ValOK : Parser.Val → Prop
  | .term t => t.wt = true
  | .fn (.defn _ _) => False      -- applications of define-fun'd functions (substitution, finding F17) are outside this theorem
  | _ => True

def EnvOK (binds : List (String × Parser.Val)) : Prop := ∀ e ∈ binds, ValOK e.2

theorem EnvOK_cons {n : String} {v : Parser.Val} {binds : List (String × Parser.Val)} (hv : ValOK v)
    (h : EnvOK binds) : EnvOK ((n, v) :: binds) := by
  intro e he
  simp only [List.mem_cons] at he
  rcases he with rfl | he
  · exact hv
  · exact h e he

theorem EnvOK_bindAll : ∀ (bs binds : List (String × Parser.Val)), EnvOK bs → EnvOK binds → EnvOK (bindAll bs binds)
  | [], _, _, h => h
  | b :: bs, binds, hb, h => by
    unfold bindAll
    simp only [List.foldl_cons]
    exact EnvOK_bindAll bs (b :: binds) (fun e he => hb e (by simp [he]))
      (EnvOK_cons (hb b (by simp)) h)

theorem EnvOK_reverse {bs : List (String × Parser.Val)} (h : EnvOK bs) : EnvOK bs.reverse :=
  fun e he => h e (by simpa using he)

theorem EnvOK_init : EnvOK PEnv.init.binds := by
  intro e he
  simp only [PEnv.init, List.mem_cons, List.not_mem_nil, or_false] at he
  rcases he with rfl | rfl
  · exact wt_tt
  · exact wt_ff

theorem lookup_ok {n : String} : ∀ {binds : List (String × Parser.Val)} {v : Parser.Val}, EnvOK binds →
    lookup n binds = some v → ValOK v
  | [], _, _, h => by simp [lookup] at h
  | (k, w) :: rest, v, henv, h => by
    unfold lookup at h
    split at h
    · cases h; exact henv (k, w) (by simp)
    · exact lookup_ok (fun e he => henv e (by simp [he])) h

/-! ## the `Except` monad -/

theorem map_ok {ε α β : Type} {x : Except ε α} {g : α → β} {v : β} (h : x.map g = .ok v) :
    ∃ a, x = .ok a ∧ v = g a := by
  cases x with
  | error e => cases h
  | ok a => cases h; exact ⟨a, rfl, rfl⟩

theorem bind_ok {ε α β : Type} {x : Except ε α} {f : α → Except ε β} {v : β} (h : x >>= f = .ok v) :
    ∃ a, x = .ok a ∧ f a = .ok v := by
  cases x with
  | error e => cases h
  | ok a => exact ⟨a, rfl, h⟩

theorem liftMk_ok {r : Mk.R} {t : Term} (h : liftMk r = .ok t) : r = .ok t := by
  unfold liftMk at h
  split at h
  · cases h; rfl
  · cases h

theorem liftMk_wt {r : Mk.R} (hr : WTR r) {t : Term} (h : liftMk r = .ok t) : t.wt = true := hr t (liftMk_ok h)

/-- `(liftMk r).map (fun t => g t)` for a `g` that wraps the term -/
theorem liftMk_map_wt {β : Type} {r : Mk.R} (hr : WTR r) {g : Term → β} {v : β} (h : (liftMk r).map g = .ok v) :
    ∃ t, t.wt = true ∧ v = g t := by
  obtain ⟨t, ht, rfl⟩ := map_ok h
  exact ⟨t, liftMk_wt hr ht, rfl⟩

/-! ## `mgr.<method>(*args)`, `fix_real` -/

theorem callMgr_wt (m : String) (args : List Term) (h : ∀ a ∈ args, a.wt = true) {t : Term}
    (hc : callMgr m args = .ok t) : t.wt = true := by
  unfold callMgr at hc
  split at hc
  · split at hc
    · cases hc
    · exact liftMk_wt (call_wt m args h) hc
  · exact liftMk_wt (call_wt m args h) hc

theorem mapM_wt (f : Term → Except Err Term) (hf : ∀ x, x.wt = true → ∀ y, f x = .ok y → y.wt = true) :
    ∀ (l : List Term), (∀ a ∈ l, a.wt = true) → ∀ l', l.mapM f = .ok l' → ∀ b ∈ l', b.wt = true
  | [], _, l', h => by
    simp only [List.mapM_nil, pure, Except.pure, Except.ok.injEq] at h
    subst h; intro b hb; cases hb
  | a :: l, hl, l', h => by
    simp only [List.mapM_cons, bind, Except.bind, pure, Except.pure] at h
    cases h1 : f a with
    | error e => simp [h1] at h
    | ok y =>
      simp only [h1] at h
      cases h2 : l.mapM f with
      | error e => simp [h2] at h
      | ok ys =>
        simp only [h2, Except.ok.injEq] at h
        subst h
        intro b hb
        simp only [List.mem_cons] at hb
        rcases hb with rfl | hb
        · exact hf a (hl a (by simp)) _ h1
        · exact mapM_wt f hf l (fun x hx => hl x (by simp [hx])) ys h2 b hb

theorem fixReal_wt (m : String) (args : List Term) (h : ∀ a ∈ args, a.wt = true) {t : Term}
    (hc : fixReal m args = .ok t) : t.wt = true := by
  unfold fixReal at hc
  split at hc
  · next t' heq => cases hc; exact callMgr_wt m args h heq
  · dsimp only at hc
    split at hc
    · obtain ⟨args', hm, hc'⟩ := bind_ok hc
      refine callMgr_wt m args' (mapM_wt _ ?_ args h args' hm) hc'
      intro x hx y hy
      split at hy
      · exact liftMk_wt (WTR_ToReal hx) hy
      · cases hy; exact hx
    · cases hc
  · cases hc

/-! ## `_minus_or_uminus`, `_division`, `_equals_or_iff` -/

theorem applySpecial_wt (fn : String) (args : List Term) (h : ∀ a ∈ args, a.wt = true) {t : Term}
    (hc : applySpecial fn args = .ok t) : t.wt = true := by
  unfold applySpecial at hc
  split at hc
  · -- unary / binary minus
    split at hc
    · next a =>
      have ha : a.wt = true := h a (by simp)
      split at hc
      · split at hc
        · cases hc; exact wt_int _
        · exact liftMk_wt (WTR_Times (mem2 (wt_int _) ha)) hc
      · split at hc
        · cases hc; exact wt_real _
        · exact liftMk_wt (WTR_Times (mem2 (wt_real _) ha)) hc
    · exact fixReal_wt _ _ h hc
    · cases hc
  · split at hc
    · -- division
      split at hc
      · split at hc
        · split at hc
          · split at hc
            · cases hc; exact wt_real _
            · exact fixReal_wt _ _ h hc
          · exact fixReal_wt _ _ h hc
        · exact fixReal_wt _ _ h hc
      · cases hc
    · split at hc
      · -- equality
        split at hc
        · next a b =>
          split at hc
          · exact liftMk_wt (WTR_Iff (h a (by simp)) (h b (by simp))) hc
          · exact fixReal_wt _ _ h hc
        · cases hc
      · cases hc

/-! ## applying a callable -/

theorem termsOf_wt : ∀ (vals : List Parser.Val), (∀ v ∈ vals, ValOK v) → ∀ args, termsOf vals = some args →
    (∀ a ∈ args, a.wt = true) ∧ args.length = vals.length
  | [], _, args, h => by
    simp only [termsOf, Option.some.injEq] at h
    subst h; exact ⟨fun _ ha => (nomatch ha), rfl⟩
  | .term t :: rest, hv, args, h => by
    simp only [termsOf, Option.map_eq_some_iff] at h
    obtain ⟨as, has, rfl⟩ := h
    obtain ⟨h1, h2⟩ := termsOf_wt rest (fun v hv' => hv v (by simp [hv'])) as has
    refine ⟨?_, by simp [h2]⟩
    intro a ha
    simp only [List.mem_cons] at ha
    rcases ha with rfl | ha
    · exact hv (.term a) (by simp)
    · exact h1 a ha
  | .fn _ :: _, _, _, h => by simp [termsOf] at h
  | .sortDecl _ _ :: _, _, _, h => by simp [termsOf] at h
  | .sortTy _ :: _, _, _, h => by simp [termsOf] at h

/-- the result of an application is always a term -/
theorem applyFn_term {f : Fn} {vals : List Parser.Val} {v : Parser.Val} (h : applyFn f vals = .ok v) :
    ∃ t, v = .term t := by
  unfold applyFn at h
  split at h
  · cases h
  · obtain ⟨t, _, rfl⟩ := map_ok h
    exact ⟨t, rfl⟩

/-- **`applyFn`**: every callable except a `define-fun`'d function; an uninterpreted function symbol must get at least
one argument (`Function(f, [])` is the bare symbol `f`, which has no sort in the model — see the counterexample in
`C08WT4.lean`). -/
theorem applyFn_wt (f : Fn) (hf : ValOK (.fn f)) (vals : List Parser.Val) (hv : ∀ v ∈ vals, ValOK v)
    (huf : ∀ s, f = .uf s → vals ≠ [] ∨ s.params = []) {v : Parser.Val} (h : applyFn f vals = .ok v) :
    ValOK v := by
  unfold applyFn at h
  split at h
  · cases h
  · next args hargs =>
    obtain ⟨hw, hlen⟩ := termsOf_wt vals hv args hargs
    obtain ⟨t, ht, rfl⟩ := map_ok h
    show t.wt = true
    cases f with
    | mgr m => exact callMgr_wt m args hw ht
    | fixReal m => exact fixReal_wt m args hw ht
    | special s => exact applySpecial_wt s args hw ht
    | extract stop start =>
      dsimp only at ht
      split at ht
      · next a => exact liftMk_wt (WTR_BVExtract (hw a (by simp)) _ _) ht
      · cases ht
    | zext k =>
      dsimp only at ht
      split at ht
      · next a => exact liftMk_wt (WTR_BVZExt (hw a (by simp)) _) ht
      · cases ht
    | sext k =>
      dsimp only at ht
      split at ht
      · next a => exact liftMk_wt (WTR_BVSExt (hw a (by simp)) _) ht
      · cases ht
    | rep k =>
      dsimp only at ht
      split at ht
      · next a => exact liftMk_wt (WTR_BVRepeat (hw a (by simp)) _) ht
      · cases ht
    | rol k =>
      dsimp only at ht
      split at ht
      · next a => exact liftMk_wt (WTR_BVRol (hw a (by simp)) _) ht
      · cases ht
    | ror k =>
      dsimp only at ht
      split at ht
      · next a => exact liftMk_wt (WTR_BVRor (hw a (by simp)) _) ht
      · cases ht
    | asConst idx =>
      dsimp only at ht
      split at ht
      · next a => exact liftMk_wt (WTR_Array_nil idx (hw a (by simp))) ht
      · cases ht
    | uf s =>
      dsimp only at ht
      refine liftMk_wt (WTR_Function s hw ?_) ht
      rcases huf s rfl with h1 | h1
      · left
        intro he
        apply h1
        rw [he] at hlen
        exact List.eq_nil_of_length_eq_zero hlen.symm
      · right; exact h1
    | defn formals body => exact absurd hf id

/-! ## literals and names -/

theorem wt_numeralTerm (ia : Option Bool) (tok : String) (q : Rat) : (numeralTerm ia tok q).wt = true := by
  unfold numeralTerm
  split
  · split
    · split
      · exact wt_real _
      · exact wt_int _
    · exact wt_real _
  · exact wt_real _

theorem literal_wt {ia : Option Bool} {u : Bool} {tok : String} {v : Parser.Val} (h : literal ia u tok = .ok v) :
    ValOK v := by
  unfold literal at h
  split at h
  · split at h
    · split at h
      · cases h
      · obtain ⟨t, ht, rfl⟩ := liftMk_map_wt (WTR_BV _ _) h; exact ht
    · cases h
  · split at h
    · cases h
    · split at h
      · obtain ⟨t, ht, rfl⟩ := liftMk_map_wt (WTR_BV _ _) h; exact ht
      · cases h
  · cases h
  · cases h
  · split at h
    · cases h; exact wt_numeralTerm _ _ _
    · cases h
    · split at h
      · cases h; exact wt_str _
      · cases h

theorem atomVal_wt {Γ : PEnv} (henv : EnvOK Γ.binds) {u : Bool} {s : Sexp} {v : Parser.Val}
    (h : atomVal Γ u s = .ok v) : ValOK v := by
  unfold atomVal at h
  split at h
  · dsimp only at h
    split at h
    · next w hl => cases h; exact lookup_ok henv hl
    · exact literal_wt h
  · cases h; exact wt_str _
  · cases h

/-! ## `(_ …)`, `(as …)`, quantified variables -/

theorem underscore_wt {args : List Sexp} {v : Parser.Val} (h : underscore args = .ok v) :
    ValOK v ∧ ∀ s, v ≠ .fn (.uf s) := by
  unfold underscore at h
  dsimp only at h
  split at h
  · split at h
    · -- extract
      split at h
      · obtain ⟨s', _, h⟩ := bind_ok h
        obtain ⟨e', _, h⟩ := bind_ok h
        cases h; exact ⟨trivial, fun _ hh => nomatch hh⟩
      · cases h
    · split at h
      · split at h
        · obtain ⟨n, _, rfl⟩ := map_ok h; exact ⟨trivial, fun _ hh => nomatch hh⟩
        · cases h
      · split at h
        · split at h
          · obtain ⟨n, _, rfl⟩ := map_ok h; exact ⟨trivial, fun _ hh => nomatch hh⟩
          · cases h
        · split at h
          · split at h
            · obtain ⟨n, _, rfl⟩ := map_ok h; exact ⟨trivial, fun _ hh => nomatch hh⟩
            · cases h
          · split at h
            · split at h
              · obtain ⟨n, _, rfl⟩ := map_ok h; exact ⟨trivial, fun _ hh => nomatch hh⟩
              · cases h
            · split at h
              · split at h
                · obtain ⟨n, _, rfl⟩ := map_ok h; exact ⟨trivial, fun _ hh => nomatch hh⟩
                · cases h
              · split at h
                · -- (_ bvN w)
                  split at h
                  · obtain ⟨w', _, h⟩ := bind_ok h
                    split at h
                    · cases h
                    · obtain ⟨t, ht, rfl⟩ := liftMk_map_wt (WTR_BV _ _) h
                      exact ⟨ht, fun _ hh => nomatch hh⟩
                  · cases h
                  · cases h
                · split at h
                  · cases h
                  · cases h
  · cases h

theorem mkSymbol_fst {σ σ' : MgrSt} {s s' : Sym} (h : mkSymbol σ s = .ok (s', σ')) : s' = s := by
  unfold mkSymbol at h
  split at h
  · cases h
  · split at h
    · split at h
      · cases h; rfl
      · cases h
    · cases h; rfl

theorem asForm_wt {Γ : PEnv} {l : List Sexp} {v : Parser.Val} {σ : MgrSt} (h : asForm Γ l = .ok (v, σ)) :
    ValOK v ∧ ∀ s, v ≠ .fn (.uf s) := by
  unfold asForm at h
  split at h
  · split at h
    · split at h
      · split at h
        · cases h; exact ⟨trivial, fun _ hh => nomatch hh⟩
        · cases h
      · obtain ⟨r, hr, he⟩ := map_ok h
        obtain ⟨s', σ'⟩ := r
        cases he
        rw [mkSymbol_fst hr]
        exact ⟨wt_sym_var _ _, fun _ hh => nomatch hh⟩
    · cases h
  · cases h

theorem quantVar_params {σ σ' : MgrSt} {n : String} {ty : Ty} {s : Sym} (h : quantVar σ n ty = .ok (s, σ')) :
    s.params = [] := by
  unfold quantVar at h
  split at h
  · next r hr => cases h; rw [mkSymbol_fst hr]; rfl
  · unfold mkFresh at h
    dsimp only at h
    rw [mkSymbol_fst h]
  · cases h

end PySMT.Parser.WT
