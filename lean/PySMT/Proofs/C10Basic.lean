import PySMT.Proofs.SimpSorts
import PySMT.Impl.Rewritings.NNF
/-!
# C10 — basic lemmas: Boolean-typed well-formed terms, their values, the smart constructors
-/
namespace PySMT.Rewritings

/-- truth value of a term under an interpretation -/
def truth (I : Interp) (t : Term) : Bool := (eval I t).isTrue

/-- well-formed and of sort Bool -/
def WB (t : Term) : Prop := t.wf = true ∧ t.typeOf = some .bool

theorem WB.isB {t : Term} (h : WB t) {I : Interp} (hI : I.WF) : eval I t = .b (truth I t) := by
  obtain ⟨b, hb⟩ := eval_bool_of_wf h.1 h.2 hI
  simp [truth, hb, Val.isTrue]
  cases b <;> rfl

/-! ## lists -/

theorem list_all_congr {α} {l : List α} {f g : α → Bool} (h : ∀ a ∈ l, f a = g a) : l.all f = l.all g := by
  induction l with
  | nil => rfl
  | cons a l ih =>
    simp only [List.all_cons, h a (by simp), ih (fun x hx => h x (List.mem_cons_of_mem _ hx))]

theorem list_any_congr {α} {l : List α} {f g : α → Bool} (h : ∀ a ∈ l, f a = g a) : l.any f = l.any g := by
  induction l with
  | nil => rfl
  | cons a l ih =>
    simp only [List.any_cons, h a (by simp), ih (fun x hx => h x (List.mem_cons_of_mem _ hx))]

theorem list_not_all {α} (l : List α) (f : α → Bool) : (!l.all f) = l.any (fun a => !f a) := by
  induction l with
  | nil => rfl
  | cons a l ih => simp only [List.all_cons, List.any_cons, Bool.not_and, ih]

theorem list_not_any {α} (l : List α) (f : α → Bool) : (!l.any f) = l.all (fun a => !f a) := by
  induction l with
  | nil => rfl
  | cons a l ih => simp only [List.all_cons, List.any_cons, Bool.not_or, ih]

/-! ## quantifiers -/

/-- pointwise equal bodies on the well-formed interpretations -/
theorem quant_congr_wf (all : Bool) (k k' : Interp → Bool) (hk : ∀ J : Interp, J.WF → k J = k' J) :
    ∀ (vs : List Sym) (I : Interp), I.WF → I.quant all vs k = I.quant all vs k'
  | [], I, hI => hk I hI
  | x :: xs, I, hI => by
    have step : ∀ v ∈ I.dom x.ret, (I.bind x v).quant all xs k = (I.bind x v).quant all xs k' :=
      fun v hv => quant_congr_wf all k k' hk xs _ (hI.bind x v (hI.dom_sort _ v hv))
    simp only [Interp.quant]
    rw [list_all_congr step, list_any_congr step]

/-- de Morgan for the quantifiers -/
theorem quant_not (all : Bool) (k : Interp → Bool) :
    ∀ (vs : List Sym) (I : Interp), (!I.quant all vs k) = I.quant (!all) vs (fun J => !k J)
  | [], I => rfl
  | x :: xs, I => by
    have step : ∀ v, (!(I.bind x v).quant all xs k) = (I.bind x v).quant (!all) xs (fun J => !k J) :=
      fun v => quant_not all k xs _
    cases all
    · simp only [Interp.quant, Bool.false_eq_true, if_false, Bool.not_false, if_true, list_not_any]
      exact list_all_congr (fun v _ => step v)
    · simp only [Interp.quant, Bool.false_eq_true, if_false, Bool.not_true, if_true, list_not_all]
      exact list_any_congr (fun v _ => step v)

/-! ## typing of the Boolean connectives -/

theorem allAre_iff (ts : List (Option Ty)) (t : Ty) : allAre ts t = true ↔ ∀ x ∈ ts, x = some t := by
  simp [allAre]

theorem typeOfNode_conn {op : Op} (h : op = .and ∨ op = .or ∨ op = .not ∨ op = .implies ∨ op = .iff)
    (p : Payload) (ts : List (Option Ty)) :
    typeOfNode op p ts = if allAre ts .bool then some .bool else none := by
  rcases h with rfl | rfl | rfl | rfl | rfl <;> rfl

/-- a Boolean connective node is well-formed Boolean iff its shape is admissible and all its
arguments are well-formed Boolean -/
theorem wb_conn {op : Op} (h : op = .and ∨ op = .or ∨ op = .not ∨ op = .implies ∨ op = .iff)
    (args : List Term) (p : Payload) :
    WB (.node op args p) ↔ op.shapeOK p args.length = true ∧ ∀ a ∈ args, WB a := by
  unfold WB
  rw [Term.wf_node, typeOf_node, typeOfNode_conn h]
  constructor
  · rintro ⟨⟨hch, hs, _⟩, hty⟩
    refine ⟨hs, fun a ha => ⟨hch a ha, ?_⟩⟩
    split at hty
    · next hall =>
      rw [allAre_iff] at hall
      exact hall _ (List.mem_map.mpr ⟨a, ha, rfl⟩)
    · cases hty
  · rintro ⟨hs, hall⟩
    have : allAre (args.map Term.typeOf) .bool = true := by
      rw [allAre_iff]
      rintro _ hx
      obtain ⟨a, ha, rfl⟩ := List.mem_map.mp hx
      exact (hall a ha).2
    simp only [this, if_true, Option.isSome_some, and_true]
    exact ⟨fun a ha => (hall a ha).1, hs⟩

theorem wb_and (args : List Term) (p : Payload) : WB (.node .and args p) ↔ ∀ a ∈ args, WB a := by
  rw [wb_conn (by simp)]; simp [Op.shapeOK]
theorem wb_or (args : List Term) (p : Payload) : WB (.node .or args p) ↔ ∀ a ∈ args, WB a := by
  rw [wb_conn (by simp)]; simp [Op.shapeOK]
theorem wb_not (a : Term) (p : Payload) : WB (.node .not [a] p) ↔ WB a := by
  rw [wb_conn (by simp)]; simp [Op.shapeOK]
theorem wb_implies (a b : Term) (p : Payload) : WB (.node .implies [a, b] p) ↔ WB a ∧ WB b := by
  rw [wb_conn (by simp)]; simp [Op.shapeOK]
theorem wb_iff (a b : Term) (p : Payload) : WB (.node .iff [a, b] p) ↔ WB a ∧ WB b := by
  rw [wb_conn (by simp)]; simp [Op.shapeOK]

/-- arities of the connectives on well-formed terms -/
theorem wf_not_args {args : List Term} {p : Payload} (h : (Term.node .not args p).wf = true) :
    ∃ a, args = [a] := by
  have := (Term.wf_node.mp h).2.1
  simp only [Op.shapeOK, beq_iff_eq] at this
  match args, this with
  | [a], _ => exact ⟨a, rfl⟩

theorem wf_binary_args {op : Op} (hop : op = .implies ∨ op = .iff) {args : List Term} {p : Payload}
    (h : (Term.node op args p).wf = true) : ∃ a b, args = [a, b] := by
  have := (Term.wf_node.mp h).2.1
  rcases hop with rfl | rfl <;> simp only [Op.shapeOK, beq_iff_eq] at this
  all_goals
    match args, this with
    | [a, b], _ => exact ⟨a, b, rfl⟩

theorem wf_ite_args {args : List Term} {p : Payload} (h : (Term.node .ite args p).wf = true) :
    ∃ c a b, args = [c, a, b] := by
  have := (Term.wf_node.mp h).2.1
  simp only [Op.shapeOK, beq_iff_eq] at this
  match args, this with
  | [c, a, b], _ => exact ⟨c, a, b, rfl⟩

theorem wf_quant_args {op : Op} (hop : op = .forall_ ∨ op = .exists_) {args : List Term} {p : Payload}
    (h : (Term.node op args p).wf = true) : ∃ b vs, args = [b] ∧ p = .qvars vs := by
  have hs := (Term.wf_node.mp h).2.1
  obtain ⟨b, rfl⟩ := Term.wt_quant_args (Term.wf_wt _ h) (by rcases hop with rfl | rfl <;> rfl)
  rcases hop with rfl | rfl
  all_goals
    cases p with
    | qvars vs => exact ⟨b, vs, rfl, rfl⟩
    | _ => exact Bool.noConfusion hs

theorem wb_ite (c a b : Term) (p : Payload) :
    WB (.node .ite [c, a, b] p) ↔ WB c ∧ WB a ∧ WB b := by
  unfold WB
  rw [Term.wf_node, typeOf_node]
  constructor
  · rintro ⟨⟨hch, _, _⟩, hty⟩
    have := PySMT.typeOfNode_ite hty
    simp only [List.map_cons, List.map_nil, List.cons.injEq, and_true] at this
    exact ⟨⟨hch c (by simp), this.1⟩, ⟨hch a (by simp), this.2.1⟩, ⟨hch b (by simp), this.2.2⟩⟩
  · rintro ⟨hc, ha, hb⟩
    have hty : typeOfNode .ite p ([c, a, b].map Term.typeOf) = some .bool := by
      simp only [List.map_cons, List.map_nil, hc.2, ha.2, hb.2]; rfl
    refine ⟨⟨?_, rfl, by rw [hty]; rfl⟩, hty⟩
    intro x hx
    simp only [List.mem_cons, List.not_mem_nil, or_false] at hx
    rcases hx with rfl | rfl | rfl
    · exact hc.1
    · exact ha.1
    · exact hb.1

theorem wb_forall (b : Term) (vs : List Sym) : WB (.node .forall_ [b] (.qvars vs)) ↔ WB b := by
  unfold WB
  rw [Term.wf_node, typeOf_node]
  constructor
  · rintro ⟨⟨hch, _, hs⟩, _⟩
    have := typeOfNode_forall hs
    simp only [List.map_cons, List.map_nil, List.cons.injEq, and_true] at this
    exact ⟨hch b (by simp), this⟩
  · rintro ⟨h1, h2⟩
    have hty : typeOfNode .forall_ (.qvars vs) ([b].map Term.typeOf) = some .bool := by
      simp only [List.map_cons, List.map_nil, h2]; rfl
    exact ⟨⟨by simpa using h1, rfl, by rw [hty]; rfl⟩, hty⟩

theorem wb_exists (b : Term) (vs : List Sym) : WB (.node .exists_ [b] (.qvars vs)) ↔ WB b := by
  unfold WB
  rw [Term.wf_node, typeOf_node]
  constructor
  · rintro ⟨⟨hch, _, hs⟩, _⟩
    have := typeOfNode_exists hs
    simp only [List.map_cons, List.map_nil, List.cons.injEq, and_true] at this
    exact ⟨hch b (by simp), this⟩
  · rintro ⟨h1, h2⟩
    have hty : typeOfNode .exists_ (.qvars vs) ([b].map Term.typeOf) = some .bool := by
      simp only [List.map_cons, List.map_nil, h2]; rfl
    exact ⟨⟨by simpa using h1, rfl, by rw [hty]; rfl⟩, hty⟩

theorem wb_tt : WB Term.tt := ⟨Term.wf_node.mpr ⟨by simp, rfl, rfl⟩, by rw [Term.tt, typeOf_node]; rfl⟩
theorem wb_ff : WB Term.ff := ⟨Term.wf_node.mpr ⟨by simp, rfl, rfl⟩, by rw [Term.ff, typeOf_node]; rfl⟩

/-! ## values of the Boolean connectives -/

theorem eval_not (I : Interp) (a : Term) (p : Payload) :
    eval I (.node .not [a] p) = .b (!truth I a) := by
  rw [eval_plain I .not [a] p (by simp) (by simp) rfl]; rfl

theorem eval_implies (I : Interp) (a b : Term) (p : Payload) :
    eval I (.node .implies [a, b] p) = .b (!truth I a || truth I b) := by
  rw [eval_plain I .implies [a, b] p (by simp) (by simp) rfl]; rfl

theorem eval_iff (I : Interp) (a b : Term) (p : Payload) :
    eval I (.node .iff [a, b] p) = .b (truth I a == truth I b) := by
  rw [eval_plain I .iff [a, b] p (by simp) (by simp) rfl]; rfl

theorem eval_ite (I : Interp) (c a b : Term) (p : Payload) :
    eval I (.node .ite [c, a, b] p) = if truth I c then eval I a else eval I b := by
  rw [eval_plain I .ite [c, a, b] p (by simp) (by simp) rfl]; rfl

theorem eval_and' (I : Interp) (args : List Term) (p : Payload) :
    eval I (.node .and args p) = .b (args.all (truth I)) := eval_and I args p

theorem eval_or' (I : Interp) (args : List Term) (p : Payload) :
    eval I (.node .or args p) = .b (args.any (truth I)) := eval_or I args p

theorem eval_forall' (I : Interp) (vs : List Sym) (b : Term) :
    eval I (.node .forall_ [b] (.qvars vs)) = .b (I.quant true vs (fun J => truth J b)) := eval_forall I vs b

theorem eval_exists' (I : Interp) (vs : List Sym) (b : Term) :
    eval I (.node .exists_ [b] (.qvars vs)) = .b (I.quant false vs (fun J => truth J b)) := eval_exists I vs b

theorem eval_tt (I : Interp) : eval I Term.tt = .b true := by
  rw [Term.tt, eval_plain I _ _ _ (by decide) (by decide) rfl]; rfl
theorem eval_ff (I : Interp) : eval I Term.ff = .b false := by
  rw [Term.ff, eval_plain I _ _ _ (by decide) (by decide) rfl]; rfl

theorem truth_of_eval {I : Interp} {t : Term} {b : Bool} (h : eval I t = .b b) : truth I t = b := by
  simp [truth, h, Val.isTrue]; cases b <;> rfl

theorem truth_and (I : Interp) (args : List Term) (p : Payload) :
    truth I (.node .and args p) = args.all (truth I) := truth_of_eval (eval_and' I args p)
theorem truth_or (I : Interp) (args : List Term) (p : Payload) :
    truth I (.node .or args p) = args.any (truth I) := truth_of_eval (eval_or' I args p)
theorem truth_not (I : Interp) (a : Term) (p : Payload) :
    truth I (.node .not [a] p) = !truth I a := truth_of_eval (eval_not I a p)
theorem truth_implies (I : Interp) (a b : Term) (p : Payload) :
    truth I (.node .implies [a, b] p) = (!truth I a || truth I b) := truth_of_eval (eval_implies I a b p)
theorem truth_iff (I : Interp) (a b : Term) (p : Payload) :
    truth I (.node .iff [a, b] p) = (truth I a == truth I b) := truth_of_eval (eval_iff I a b p)
theorem truth_ite (I : Interp) (c a b : Term) (p : Payload) :
    truth I (.node .ite [c, a, b] p) = if truth I c then truth I a else truth I b := by
  simp only [truth, eval_ite]
  by_cases h : (eval I c).isTrue = true <;> simp [h]
theorem truth_forall (I : Interp) (vs : List Sym) (b : Term) :
    truth I (.node .forall_ [b] (.qvars vs)) = I.quant true vs (fun J => truth J b) :=
  truth_of_eval (eval_forall' I vs b)
theorem truth_exists (I : Interp) (vs : List Sym) (b : Term) :
    truth I (.node .exists_ [b] (.qvars vs)) = I.quant false vs (fun J => truth J b) :=
  truth_of_eval (eval_exists' I vs b)

theorem wb_pair {x y : Term} (hx : WB x) (hy : WB y) : ∀ z ∈ [x, y], WB z := by
  intro z hz
  simp only [List.mem_cons, List.not_mem_nil, or_false] at hz
  rcases hz with rfl | rfl
  · exact hx
  · exact hy

/-! ## the smart constructors -/

theorem wb_mkAnd {as : List Term} (h : ∀ a ∈ as, WB a) : WB (mkAnd as) := by
  match as, h with
  | [], _ => exact wb_tt
  | [a], h => exact h a (by simp)
  | a :: b :: rest, h => exact (wb_and _ _).mpr h

theorem wb_mkOr {as : List Term} (h : ∀ a ∈ as, WB a) : WB (mkOr as) := by
  match as, h with
  | [], _ => exact wb_ff
  | [a], h => exact h a (by simp)
  | a :: b :: rest, h => exact (wb_or _ _).mpr h

theorem eval_mkAnd {I : Interp} (hI : I.WF) {as : List Term} (h : ∀ a ∈ as, WB a) :
    eval I (mkAnd as) = .b (as.all (truth I)) := by
  match as, h with
  | [], _ => exact eval_tt I
  | [a], h => rw [mkAnd, (h a (by simp)).isB hI]; simp
  | a :: b :: rest, h => exact eval_and' I _ _

theorem eval_mkOr {I : Interp} (hI : I.WF) {as : List Term} (h : ∀ a ∈ as, WB a) :
    eval I (mkOr as) = .b (as.any (truth I)) := by
  match as, h with
  | [], _ => exact eval_ff I
  | [a], h => rw [mkOr, (h a (by simp)).isB hI]; simp
  | a :: b :: rest, h => exact eval_or' I _ _

theorem mkNot_cases (t : Term) :
    (∃ a p, t = .node .not [a] p ∧ mkNot t = a) ∨ mkNot t = .node .not [t] .none := by
  unfold mkNot
  split
  · next a p => exact .inl ⟨a, p, rfl, rfl⟩
  · exact .inr rfl

theorem wb_mkNot {t : Term} (h : WB t) : WB (mkNot t) := by
  rcases mkNot_cases t with ⟨a, p, rfl, h2⟩ | h2
  · rw [h2]; exact (wb_not a p).mp h
  · rw [h2]; exact (wb_not t .none).mpr h

theorem eval_mkNot {I : Interp} (hI : I.WF) {t : Term} (h : WB t) :
    eval I (mkNot t) = .b (!truth I t) := by
  rcases mkNot_cases t with ⟨a, p, rfl, h2⟩ | h2
  · rw [h2, ((wb_not a p).mp h).isB hI]
    simp [truth_of_eval (eval_not I a p)]
  · rw [h2, eval_not]

theorem wb_mkForall {vs : List Sym} {b : Term} (h : WB b) : WB (mkForall vs b) := by
  unfold mkForall; split
  · exact h
  · exact (wb_forall b vs).mpr h

theorem wb_mkExists {vs : List Sym} {b : Term} (h : WB b) : WB (mkExists vs b) := by
  unfold mkExists; split
  · exact h
  · exact (wb_exists b vs).mpr h

theorem eval_mkForall {I : Interp} (hI : I.WF) (vs : List Sym) {b : Term} (h : WB b) :
    eval I (mkForall vs b) = .b (I.quant true vs (fun J => truth J b)) := by
  unfold mkForall; split
  · next hv =>
    have : vs = [] := by simpa using hv
    subst this
    rw [h.isB hI]; rfl
  · exact eval_forall' I vs b

theorem eval_mkExists {I : Interp} (hI : I.WF) (vs : List Sym) {b : Term} (h : WB b) :
    eval I (mkExists vs b) = .b (I.quant false vs (fun J => truth J b)) := by
  unfold mkExists; split
  · next hv =>
    have : vs = [] := by simpa using hv
    subst this
    rw [h.isB hI]; rfl
  · exact eval_exists' I vs b

end PySMT.Rewritings
