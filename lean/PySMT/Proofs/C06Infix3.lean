import PySMT.Proofs.C06Infix2
/-!
# C06 — remaining structured entries of the regenerated infix table: the `Ite` method,
`__truediv__`, `__getitem__`, and the methods that call the manager function of their name.
-/
namespace PySMT.C06
open PySMT.Mk PySMT.Mk.Infix

theorem call_extract (a : Term) (s : Int) (e : Option Int) :
    call "BVExtract" [.t a, .i s, (match e with | some v => .i v | none => .none)] = Mk.BVExtract a s e := by
  cases e <;> rfl

theorem call_ite (c a b : Term) : call "Ite" [Arg.t c, Arg.t a, Arg.t b] = Mk.Ite c a b := rfl

/-- one round of symbolic execution of the interpreter (kept in two phases: unfolding the
interpreter and reducing the string comparisons / conditionals it produces) -/
macro "interp_a" : tactic =>
  `(tactic| simp only [exec, evalC, evalE, evalEs, argTerm, bind, Except.bind, Env.get, Env.set, List.find?])
macro "interp_b" : tactic =>
  `(tactic| simp only [beq_self_eq_true, String.reduceBEq, isFNodeArg, if_true, Bool.false_eq_true, if_false,
      List.cons_append, List.nil_append])
macro "interp" : tactic =>
  `(tactic| (interp_a; (try interp_b); (try interp_a); (try interp_b); (try interp_a); (try interp_b);
             (try interp_a); (try interp_b)))

/-! ## `c.Ite(a, b)` -/

theorem lookup_iteMethod : Gen.Infix.table.lookup "Ite" = some ⟨["then_", "else_"], false,
    [.ite (.and (.isFNode (.var "then_")) (.isFNode (.var "else_")))
      [.ret (.mgr "Ite" [.self, .var "then_", .var "else_"])] [.raise .mode]]⟩ := by rfl

theorem run_iteMethod (c a b : Term) :
    Infix.run Gen.Infix.table "Ite" c [.t a, .t b] = Mk.Ite c a b := by
  unfold Infix.run fuel
  unfold runMethod
  simp only [lookup_iteMethod, Bool.false_eq_true, if_false, List.length_cons, List.length_nil, ne_eq,
    not_true_eq_false, List.zip, List.zipWith]
  interp
  rw [call_ite]
  cases Mk.Ite c a b <;> rfl

/-- a Python literal as a branch is refused (`PysmtModeError`) -/
theorem run_iteMethod_literal (c a : Term) (n : Int) :
    Infix.run Gen.Infix.table "Ite" c [.t a, .i n] = .error .mode := by
  unfold Infix.run fuel
  unfold runMethod
  simp only [lookup_iteMethod, Bool.false_eq_true, if_false, List.length_cons, List.length_nil, ne_eq,
    not_true_eq_false, List.zip, List.zipWith]
  interp

/-- **`c.Ite(a, b)`**: if-then-else -/
theorem iteMethod_denotes (I : Interp) {c a b t : Term}
    (h : Infix.run Gen.Infix.table "Ite" c [.t a, .t b] = .ok t) :
    eval I t = if truth I c then eval I a else eval I b := by
  rw [run_iteMethod] at h
  exact ite_eval I h

/-! ## `a / b` in Python 3 (`__truediv__`) is `__div__` -/

theorem lookup_truediv : Gen.Infix.table.lookup "__truediv__" = some ⟨["right"], false,
    [.ret (.meth .self "__div__" [.var "right"])]⟩ := by rfl

theorem lookup_div : Gen.Infix.table.lookup "__div__" = some ⟨["right"], false,
    [.ret (.infix .self (.var "right") (some "Div") (some "BVUDiv"))]⟩ := by rfl

theorem run_truediv (a : Term) (b : Arg) :
    Infix.run Gen.Infix.table "__truediv__" a [b] = Infix.run Gen.Infix.table "__div__" a [b] := by
  rw [run_binary _ _ _ _ _ _ _ lookup_div]
  unfold Infix.run fuel
  unfold runMethod
  simp only [lookup_truediv, Bool.false_eq_true, if_false, List.length_cons, List.length_nil, ne_eq,
    not_true_eq_false, List.zip, List.zipWith]
  interp
  unfold runMethod
  simp only [lookup_div, Bool.false_eq_true, if_false, List.length_cons, List.length_nil, ne_eq,
    not_true_eq_false, List.zip, List.zipWith]
  interp
  cases applyInfix a b (some "Div") (some "BVUDiv") <;> rfl

/-! ## `a[i]`, `a[lo:hi]` -/

theorem lookup_getitem : Gen.Infix.table.lookup "__getitem__" = some ⟨["idx"], false,
    [.ite (.isSlice (.var "idx"))
      [.assign "end" (.attr (.var "idx") "stop"), .assign "start" (.attr (.var "idx") "start"),
       .ite (.isNone (.var "start")) [.assign "start" (.int 0)] []]
      [.assign "end" (.var "idx"), .assign "start" (.var "idx")],
     .ite (.isBV .self) [.ret (.mgr "BVExtract" [.self, .var "start", .var "end"])] [],
     .raise .unsupported]⟩ := by rfl

def getitemModel (a : Term) (start : Int) (stop : Option Int) : R :=
  match a.typeOf with
  | none => .error .type
  | some τ => if τ.isBv then Mk.BVExtract a start stop else .error .unsupported

theorem call_extract_some (a : Term) (s e : Int) :
    call "BVExtract" [.t a, .i s, .i e] = Mk.BVExtract a s (some e) := rfl
theorem call_extract_none (a : Term) (s : Int) :
    call "BVExtract" [.t a, .i s, .none] = Mk.BVExtract a s none := rfl

/-- finishing steps shared by the `__getitem__` lemmas -/
macro "getitem_finish" a:term : tactic =>
  `(tactic| (
    unfold getitemModel
    cases Term.typeOf $a with
    | none => rfl
    | some τ =>
      dsimp only
      cases hb : Ty.isBv τ
      · simp only [Bool.false_eq_true, if_false, exec]
      · simp only [if_true, exec, evalE, evalEs, bind, Except.bind, Env.get, List.find?, beq_self_eq_true,
          String.reduceBEq, call_extract_some, call_extract_none, Option.getD_some, Option.getD_none]
        first
          | (cases Mk.BVExtract $a _ _ <;> rfl)
          | rfl))

theorem run_getitem_index (a : Term) (k : Int) :
    Infix.run Gen.Infix.table "__getitem__" a [.i k] = getitemModel a k (some k) := by
  unfold Infix.run fuel
  unfold runMethod
  simp only [lookup_getitem, Bool.false_eq_true, if_false, List.length_cons, List.length_nil, ne_eq,
    not_true_eq_false, List.zip, List.zipWith]
  interp
  getitem_finish a

theorem run_getitem_slice (a : Term) (lo hi : Option Int) :
    Infix.run Gen.Infix.table "__getitem__" a [.slice lo hi] = getitemModel a (lo.getD 0) hi := by
  unfold Infix.run fuel
  unfold runMethod
  simp only [lookup_getitem, Bool.false_eq_true, if_false, List.length_cons, List.length_nil, ne_eq,
    not_true_eq_false, List.zip, List.zipWith]
  cases lo <;> cases hi
  all_goals
    interp
    getitem_finish a

/-- **`a[lo:hi]`** on a bit-vector: bits `lo … hi`, both inclusive (`lo` defaults to 0) -/
theorem getitem_denotes (I : Interp) {a t : Term} {lo : Option Int} {hi : Int} {w : Nat}
    (h : Infix.run Gen.Infix.table "__getitem__" a [.slice lo (some hi)] = .ok t)
    (x : BitVec w) (ha : eval I a = ofBV x) :
    eval I t = ofBV (x.extractLsb' (lo.getD 0).toNat (hi.toNat - (lo.getD 0).toNat + 1)) := by
  rw [run_getitem_slice] at h
  unfold getitemModel at h
  cases hty : a.typeOf with
  | none => rw [hty] at h; cases h
  | some τ =>
    rw [hty] at h
    cases hb : τ.isBv
    · simp [hb] at h
    · simp only [hb, if_true] at h
      exact (bvExtract_denotes I h x ha).2.2

/-- **`a[k]`**: the single bit `k` -/
theorem getitem_index_denotes (I : Interp) {a t : Term} {k : Int} {w : Nat}
    (h : Infix.run Gen.Infix.table "__getitem__" a [.i k] = .ok t)
    (x : BitVec w) (ha : eval I a = ofBV x) : eval I t = ofBV (x.extractLsb' k.toNat 1) := by
  rw [run_getitem_index] at h
  unfold getitemModel at h
  cases hty : a.typeOf with
  | none => rw [hty] at h; cases h
  | some τ =>
    rw [hty] at h
    cases hb : τ.isBv
    · simp [hb] at h
    · simp only [hb, if_true] at h
      have := (bvExtract_denotes I h x ha).2.2
      rwa [Nat.sub_self, Nat.zero_add] at this

/-! ## methods that call the manager function of their own name -/

/-- every one-parameter direct entry of the regenerated table passes `(self, parameter)` to
the manager function of the same name -/
theorem infix_direct1 {name p F : String}
    (hl : Gen.Infix.table.lookup name = some ⟨[p], false, [.ret (.mgr F [.self, .var p])]⟩)
    (a : Term) (b : Arg) : Infix.run Gen.Infix.table name a [b] = call name [.t a, b] := by
  have hok := List.all_eq_true.mp table_ok.1 _ (lookup_mem hl)
  simp only [entryOK, beq_self_eq_true, Bool.true_and, Bool.and_eq_true, beq_iff_eq] at hok
  rw [run_direct1 _ _ _ _ _ _ hl, hok.1]

/-- every two-parameter direct entry passes `(self, p1, p2)` in this order -/
theorem infix_direct2 {name p1 p2 F : String}
    (hl : Gen.Infix.table.lookup name = some ⟨[p1, p2], false, [.ret (.mgr F [.self, .var p1, .var p2])]⟩)
    (a : Term) (b c : Arg) : Infix.run Gen.Infix.table name a [b, c] = call name [.t a, b, c] := by
  have hok := List.all_eq_true.mp table_ok.1 _ (lookup_mem hl)
  simp only [entryOK, beq_self_eq_true, Bool.true_and, Bool.and_eq_true, beq_iff_eq] at hok
  rw [run_direct2 _ _ _ _ _ hok.1.1 _ _ _ hl, hok.1.2]

/-! ## `f(a1, …, an)` (`__call__`, modelled by hand and pinned by its AST hash) -/

theorem lookup_call : Gen.Infix.table.lookup "__call__" = some ⟨[], true, [.opaque "a4bb6eeb2ae42963"]⟩ := by rfl

theorem run_call (self : Term) (args : List Arg) :
    Infix.run Gen.Infix.table "__call__" self args = callModel self args := by
  unfold Infix.run fuel
  unfold runMethod
  simp only [lookup_call, if_true, exec]
  have hh : ("__call__" == "__call__" && alignedHashes.contains ("__call__", "a4bb6eeb2ae42963")) = true := by
    decide
  simp only [hh, if_true, bind, Except.bind]
  cases callModel self args <;> rfl

theorem termArgs_terms (as : List Term) : termArgs (as.map Arg.t) = .ok as := by
  induction as with
  | nil => rfl
  | cons a as ih => simp [termArgs, ih, bind, Except.bind]

theorem prep_terms : ∀ (as : List Term) (ts : List Ty), as.length = ts.length →
    callModel.prep (as.map Arg.t) ts = .ok (as.map Arg.t)
  | [], [], _ => rfl
  | a :: as, t :: ts, h => by
    have := prep_terms as ts (by simpa using h)
    simp [callModel.prep, this, prepareArg, bind, Except.bind]
  | [], _ :: _, h => by simp at h
  | _ :: _, [], h => by simp at h

/-- **`f(a1, …, an)`** on formulas: the application `Function(f, [a1, …, an])` -/
theorem call_method (f : Sym) (as : List Term) (hp : f.params ≠ []) (hl : as.length = f.params.length) :
    Infix.run Gen.Infix.table "__call__" (Term.sym f) (as.map Arg.t) = Mk.Function f as := by
  rw [run_call]
  unfold callModel Term.sym
  have h1 : f.params.isEmpty = false := by
    cases hps : f.params with
    | nil => exact absurd hps hp
    | cons _ _ => rfl
  simp only [h1, Bool.false_eq_true, if_false, List.length_map, hl, ne_eq, not_true_eq_false,
    prep_terms as f.params hl, bind, Except.bind]
  have h2 : call "Function" (Arg.sym f :: as.map Arg.t) = (do Mk.Function f (← termArgs (as.map Arg.t))) := rfl
  rw [h2, termArgs_terms]
  rfl

/-- a function application denotes the interpretation of the symbol applied to the argument values -/
theorem function_denotes (I : Interp) {f : Sym} {as : List Term} {t : Term} (h : Mk.Function f as = .ok t)
    (hne : as ≠ []) : eval I t = I.fn f (as.map (eval I)) := by
  unfold Mk.Function at h
  have h1 : as.isEmpty = false := by
    cases as with
    | nil => exact absurd rfl hne
    | cons _ _ => rfl
  simp only [h1, Bool.false_eq_true, if_false] at h
  split at h
  · cases h
  · split at h
    · cases h
    · rw [create_ok h, eval_node]
      simp [evalNode, List.map_map, Function.comp_def]

end PySMT.C06
