import PySMT.Impl.WF
import PySMT.Proofs.SimpVals
import PySMT.Proofs.Coincidence
/-! TEMPORARY development stub (replaced by Proofs/SimpSorts.lean; delete before delivery). -/
namespace PySMT
theorem eval_hasSort : (t : Term) → t.wf = true → ∀ τ : Ty, t.typeOf = some τ →
    ∀ I : Interp, I.WF → (eval I t).hasSort τ = true := by
  sorry
end PySMT
