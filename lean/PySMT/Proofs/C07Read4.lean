import PySMT.Proofs.C07Read3
/-!
# C07 (`read_toSexp`, continued): arithmetic, equality, ite, bit-vector and string operators, arrays
-/
namespace PySMT.Printer
open PySMT.Std PySMT.Sexp

theorem isRealConst_unfoldAV (srt : Bool) : ∀ (a : Term), isRealConst (unfoldAVw srt a) = isRealConst a
  | .node op args p => by
    by_cases hop : op = .arrayValue
    · subst hop
      unfold unfoldAVw
      dsimp only
      split
      · next idx _ rest ds restS _ =>
        have : ∀ (l : List ((Term × Term) × (Term × Term))) (acc : Term), isRealConst acc = none →
            isRealConst (l.foldl (fun acc e => Term.node .arrayStore [acc, e.2.1, e.2.2] .none) acc) = none := by
          intro l
          induction l with
          | nil => intro acc h; exact h
          | cons e l ih => intro acc _; exact ih _ rfl
        rw [this _ _ rfl]; rfl
      · rfl
    · rw [unfoldAV_plain srt _ _ _ hop]
      cases args with
      | nil => rfl
      | cons a as => simp [isRealConst]

section
variable (sp : Spell) (hsp : SpellStd sp) (env : SEnv) (sc : List Binding) (hsc : ThFree sc) (srt : Bool)
  (toS : Term → Sexp) (scope0 : List Sym)
include hsp hsc

theorem reads_minus (p : Payload) (args : List Term) (τ : Ty)
    (hargs : ∀ a ∈ args, Reads env sc srt toS a) (hty : (Term.node .minus args p).typeOf = some τ)
    (hS : stdTy .minus p (args.map tyD) = some τ) : NodeReads sp env sc srt toS .minus args p := by
  have key : ∃ t, (t = .int ∨ t = .real) ∧ p = .none ∧ τ = t ∧ args.map tyD = [t, t] := by
    simp only [stdTy] at hS
    split at hS
    · rename_i hc
      simp only [Bool.and_eq_true, beq_iff_eq] at hc
      exact ⟨.int, Or.inl rfl, hc.1, by simpa using hS.symm, hc.2⟩
    · split at hS
      · rename_i hc
        simp only [Bool.and_eq_true, beq_iff_eq] at hc
        exact ⟨.real, Or.inr rfl, hc.1, by simpa using hS.symm, hc.2⟩
      · simp at hS
  obtain ⟨t, ht, rfl, rfl, hts⟩ := key
  obtain ⟨a, b, rfl, ha, hb⟩ := map_eq_two hts
  apply reads_simple sp env sc hsc srt toS .minus .none [a, b] "-" (by decide)
    (fun as => by simp [nodeSexp, walkKey, spell sp hsp "walk_minus" "-" (by decide)])
    (unfoldAV_plain srt _ _ _ (by decide)) hargs (by simp) _ hty
  simp only [List.map, U, ha, hb]; exact ap_minus _ _ _ ht

theorem reads_div (p : Payload) (args : List Term) (τ : Ty)
    (hargs : ∀ a ∈ args, Reads env sc srt toS a) (hty : (Term.node .div args p).typeOf = some τ)
    (hS : stdTy .div p (args.map tyD) = some τ) (hok : nodeOK env scope0 .div p args = true) :
    NodeReads sp env sc srt toS .div args p := by
  simp only [stdTy] at hS
  split at hS <;> simp at hS
  rename_i hc
  simp only [Bool.and_eq_true, beq_iff_eq] at hc
  obtain ⟨rfl, hts⟩ := hc
  subst hS
  obtain ⟨a, b, rfl, ha, hb⟩ := map_eq_two hts
  apply reads_simple sp env sc hsc srt toS .div .none [a, b] "/" (by decide)
    (fun as => by simp [nodeSexp, walkKey, spell sp hsp "walk_div" "/" (by decide)])
    (unfoldAV_plain srt _ _ _ (by decide)) hargs (by simp) _ hty
  simp only [List.map, U, ha, hb]
  apply ap_div
  rw [isRealConst_unfoldAV, isRealConst_unfoldAV]
  simp only [nodeOK, Bool.not_eq_true', Bool.and_eq_false_iff] at hok
  rintro ⟨h1, y, h2, h3⟩
  rcases hok with h | h
  · rw [h1] at h; simp at h
  · rw [h2] at h; simp [h3] at h

theorem reads_rel (op : Op) (hop : op = .le ∨ op = .lt) (p : Payload) (args : List Term) (τ : Ty)
    (hargs : ∀ a ∈ args, Reads env sc srt toS a) (hty : (Term.node op args p).typeOf = some τ)
    (hS : stdTy op p (args.map tyD) = some τ) : NodeReads sp env sc srt toS op args p := by
  have key : ∃ t, (t = .int ∨ t = .real) ∧ p = .none ∧ τ = .bool ∧ args.map tyD = [t, t] := by
    rcases hop with rfl | rfl <;>
    · simp only [stdTy] at hS
      split at hS <;> simp at hS
      rename_i hc
      simp only [Bool.and_eq_true, Bool.or_eq_true, beq_iff_eq] at hc
      rcases hc.2 with h | h
      · exact ⟨.int, Or.inl rfl, hc.1, hS.symm, h⟩
      · exact ⟨.real, Or.inr rfl, hc.1, hS.symm, h⟩
  obtain ⟨t, ht, rfl, rfl, hts⟩ := key
  obtain ⟨a, b, rfl, ha, hb⟩ := map_eq_two hts
  rcases hop with rfl | rfl
  · apply reads_simple sp env sc hsc srt toS .le .none [a, b] "<=" (by decide)
      (fun as => by simp [nodeSexp, walkKey, spell sp hsp "walk_le" "<=" (by decide)])
      (unfoldAV_plain srt _ _ _ (by decide)) hargs (by simp) _ hty
    simp only [List.map, U, ha, hb]; exact ap_le _ _ _ ht
  · apply reads_simple sp env sc hsc srt toS .lt .none [a, b] "<" (by decide)
      (fun as => by simp [nodeSexp, walkKey, spell sp hsp "walk_lt" "<" (by decide)])
      (unfoldAV_plain srt _ _ _ (by decide)) hargs (by simp) _ hty
    simp only [List.map, U, ha, hb]; exact ap_lt _ _ _ ht

theorem reads_equals (p : Payload) (args : List Term) (τ : Ty)
    (hargs : ∀ a ∈ args, Reads env sc srt toS a) (hty : (Term.node .equals args p).typeOf = some τ)
    (hS : stdTy .equals p (args.map tyD) = some τ) : NodeReads sp env sc srt toS .equals args p := by
  simp only [stdTy] at hS
  split at hS
  · next x y hts =>
    split at hS <;> simp at hS
    rename_i hc
    simp only [Bool.and_eq_true, beq_iff_eq, bne_iff_ne, ne_eq] at hc
    obtain ⟨rfl, hnb⟩ := hc
    subst hS
    obtain ⟨a, b, rfl, ha, hb⟩ := map_eq_two hts
    apply reads_simple sp env sc hsc srt toS .equals .none [a, b] "=" (by decide)
      (fun as => by simp [nodeSexp, walkKey, spell sp hsp "walk_equals" "=" (by decide)])
      (unfoldAV_plain srt _ _ _ (by decide)) hargs (by simp) _ hty
    simp only [List.map, U, ha, hb]; exact ap_equals _ _ _ hnb
  · simp at hS

theorem reads_ite (p : Payload) (args : List Term) (τ : Ty)
    (hargs : ∀ a ∈ args, Reads env sc srt toS a) (hty : (Term.node .ite args p).typeOf = some τ)
    (hS : stdTy .ite p (args.map tyD) = some τ) : NodeReads sp env sc srt toS .ite args p := by
  simp only [stdTy] at hS
  split at hS
  · next x y hts =>
    split at hS <;> simp at hS
    rename_i hc
    simp only [beq_iff_eq] at hc
    subst hc
    subst hS
    obtain ⟨c, a, b, rfl, hc', ha, hb⟩ := map_eq_three hts
    apply reads_simple sp env sc hsc srt toS .ite .none [c, a, b] "ite" (by decide)
      (fun as => by simp [nodeSexp, walkKey, spell sp hsp "walk_ite" "ite" (by decide)])
      (unfoldAV_plain srt _ _ _ (by decide)) hargs (by simp) _ hty
    simp only [List.map, U, ha, hb, hc']; exact ap_ite _ _ _ _
  · simp at hS

theorem reads_toReal (p : Payload) (args : List Term) (τ : Ty)
    (hargs : ∀ a ∈ args, Reads env sc srt toS a) (hty : (Term.node .toReal args p).typeOf = some τ)
    (hS : stdTy .toReal p (args.map tyD) = some τ) : NodeReads sp env sc srt toS .toReal args p := by
  simp only [stdTy] at hS
  split at hS <;> simp at hS
  rename_i hc
  simp only [Bool.and_eq_true, beq_iff_eq] at hc
  obtain ⟨rfl, hts⟩ := hc
  subst hS
  obtain ⟨a, rfl, ha⟩ := map_eq_one hts
  apply reads_simple sp env sc hsc srt toS .toReal .none [a] "to_real" (by decide)
    (fun as => by simp [nodeSexp, walkKey, spell sp hsp "walk_toreal" "to_real" (by decide)])
    (unfoldAV_plain srt _ _ _ (by decide)) hargs (by simp) _ hty
  simp only [List.map, U, ha]; exact ap_toReal _

end

end PySMT.Printer
