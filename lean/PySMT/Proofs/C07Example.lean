import PySMT.Proofs.C07Decls
/-! # C07: a concrete instance of the theorems' hypotheses (non-vacuity), unfolded by hand because `Term.typeOf`,
`Printable`, … are compiled by well-founded recursion and do not reduce in `decide` -/
namespace PySMT.C07
open PySMT PySMT.Printer PySMT.Std PySMT.Sexp

def x : Sym := ⟨"x y", [], .int⟩
/-- `(<= |x y| (- 5))` -/
def t1 : Term := .node .le [Term.sym x, Term.int (-5)] .none

theorem ty_x : (Term.sym x).typeOf = some .int := by rw [Term.sym, typeOf_node]; decide
theorem ty_c : (Term.int (-5)).typeOf = some .int := by rw [Term.int, typeOf_node]; decide
theorem ty_t1 : t1.typeOf = some .bool := by rw [t1, typeOf_node]; simp only [List.map, ty_x, ty_c]; decide
theorem fv_t1 : t1.fv.eraseDups = [x] := by
  simp [t1, Term.fv, Term.sym, Term.int, List.eraseDups, List.eraseDupsBy, List.eraseDupsBy.loop]
theorem decls_t1 : sortDecls t1 = [] := by
  simp [sortDecls, t1, Printer.Term.tys, Term.sym, Term.int, declsOfTy, x]
theorem pr_x (env : SEnv) (h : env.lookupFun "x y" = some x) : Printable env [] (Term.sym x) = true := by
  have h3 : stdTy .symbol (.sym x) [] = some .int := by decide
  have h4 : typeOfNode .symbol (.sym x) [] = some .int := by decide
  have h7 : nameFine "x y" = true := by decide +kernel
  have h8 : x.params.isEmpty = true := rfl
  have h9 : x.name = "x y" := rfl
  rw [Term.sym, Printable.eq_def]
  simp only [List.map_nil, h3, h4, beq_self_eq_true, Bool.true_and, nodeOK, List.length_nil, h7, h8, findVar,
    List.find?_nil, h9, h, List.all_nil, Bool.and_true]
theorem pr_c (env : SEnv) (hl : env.realsOnly = false) : Printable env [] (Term.int (-5)) = true := by
  have h5 : stdTy .intConst (.i (-5)) [] = some .int := by decide
  have h6 : typeOfNode .intConst (.i (-5)) [] = some .int := by decide
  rw [Term.int, Printable.eq_def]
  simp only [List.map_nil, h5, h6, beq_self_eq_true, nodeOK, hl, Bool.not_false, List.all_nil, Bool.and_true]
theorem pr_t1 (env : SEnv) (h : env.lookupFun "x y" = some x) (hl : env.realsOnly = false) :
    Printable env [] t1 = true := by
  have h1 : stdTy .le .none [.int, .int] = some .bool := by decide
  have h2 : typeOfNode .le .none [some .int, some .int] = some .bool := by decide
  rw [t1, Printable.eq_def]
  simp only [List.map_cons, List.map_nil, tyD, ty_x, ty_c, Option.getD_some, h1, h2, beq_self_eq_true, nodeOK,
    pr_x env h, pr_c env hl, List.all_cons, List.all_nil, Bool.and_true, id]


theorem scriptOK_t1 : ScriptOK "QF_LIA" t1 = true := by
  have hp := pr_t1 (scriptEnv "QF_LIA" t1) (by simp [scriptEnv, fv_t1, SEnv.lookupFun, x]) (by decide)
  simp only [ScriptOK, decls_t1, fv_t1, ty_t1, hp]
  decide +kernel

theorem avGuard_t1 : avGuard t1 = true := by simp [avGuard, t1, Term.sym, Term.int]

theorem noQuant_t1 : noQuant t1 = true := by simp [noQuant, t1, Term.sym, Term.int, Op.isQuantifier]

end PySMT.C07
