import PySMT.Proofs.C07WF
/-! # C07: a concrete instance of the theorems' hypotheses (non-vacuity), unfolded by hand because `Term.typeOf`,
`Printable`, … are compiled by well-founded recursion and do not reduce in `decide` -/
namespace PySMT.C07
open PySMT PySMT.Printer PySMT.Std PySMT.Sexp

def x : Sym := ⟨"x y", [], .int⟩
/-- `(<= |x y| (- 5))` -/
def t1 : Term := .node .le [Term.sym x, Term.int (-5)] .none

theorem ty_x : (Term.sym x).typeOf = some .int := by rw [Term.sym, typeOf_node]; decide
theorem ty_c : (Term.int (-5)).typeOf = some .int := by rw [Term.int, typeOf_node]; decide
theorem ty_t1 : t1.typeOf = some .bool := by rw [t1, typeOf_node]; simp only [List.map, ty_x, ty_c]; decide
theorem fv_t1 : t1.fv.eraseDups = [x] := by
  simp [t1, Term.fv, Term.sym, Term.int, List.eraseDups, List.eraseDupsBy, List.eraseDupsBy.loop]
theorem decls_t1 : sortDecls t1 = [] := by
  simp [sortDecls, t1, Printer.Term.tys, Term.sym, Term.int, declsOfTy, x]
theorem pr_x (env : SEnv) (h : env.lookupFun "x y" = some x) : Printable env [] (Term.sym x) = true := by
  have h3 : stdTy .symbol (.sym x) [] = some .int := by decide
  have h4 : typeOfNode .symbol (.sym x) [] = some .int := by decide
  have h7 : nameFine "x y" = true := by decide +kernel
  have h8 : x.params.isEmpty = true := rfl
  have h9 : x.name = "x y" := rfl
  rw [Term.sym, Printable.eq_def]
  simp only [List.map_nil, h3, h4, beq_self_eq_true, Bool.true_and, nodeOK, List.length_nil, h7, h8, findVar,
    List.find?_nil, h9, h, List.all_nil, Bool.and_true]
theorem pr_c (env : SEnv) (hl : env.realsOnly = false) : Printable env [] (Term.int (-5)) = true := by
  have h5 : stdTy .intConst (.i (-5)) [] = some .int := by decide
  have h6 : typeOfNode .intConst (.i (-5)) [] = some .int := by decide
  rw [Term.int, Printable.eq_def]
  simp only [List.map_nil, h5, h6, beq_self_eq_true, nodeOK, hl, Bool.not_false, List.all_nil, Bool.and_true]
theorem pr_t1 (env : SEnv) (h : env.lookupFun "x y" = some x) (hl : env.realsOnly = false) :
    Printable env [] t1 = true := by
  have h1 : stdTy .le .none [.int, .int] = some .bool := by decide
  have h2 : typeOfNode .le .none [some .int, some .int] = some .bool := by decide
  rw [t1, Printable.eq_def]
  simp only [List.map_cons, List.map_nil, tyD, ty_x, ty_c, Option.getD_some, h1, h2, beq_self_eq_true, nodeOK,
    pr_x env h, pr_c env hl, List.all_cons, List.all_nil, Bool.and_true, id]


theorem scriptOK_t1 : ScriptOK "QF_LIA" t1 = true := by
  have hp := pr_t1 (scriptEnv "QF_LIA" t1) (by simp [scriptEnv, fv_t1, SEnv.lookupFun, x]) (by decide)
  simp only [ScriptOK, decls_t1, fv_t1, ty_t1, hp]
  decide +kernel

theorem avGuard_t1 : avGuard t1 = true := by simp [avGuard, t1, Term.sym, Term.int]

theorem noQuant_t1 : noQuant t1 = true := by simp [noQuant, t1, Term.sym, Term.int, Op.isQuantifier]

/-! ## more witnesses: a bit-vector term, a `.def_k` clash, an array value, a quantifier -/

/-- assembling `Printable` for a node that is not a binder -/
theorem pr_node (env : SEnv) (scope : List Sym) (op : Op) (args : List Term) (p : Payload) (τ : Ty)
    (h1 : op ≠ .forall_) (h2 : op ≠ .exists_)
    (hS : stdTy op p (args.map tyD) = some τ) (hT : typeOfNode op p (args.map Term.typeOf) = some τ)
    (hok : nodeOK env scope op p args = true) (hargs : ∀ a ∈ args, Printable env scope a = true) :
    Printable env scope (.node op args p) = true := by
  rw [Printable.eq_def]
  simp only [hS, hT, beq_self_eq_true, Bool.true_and]
  have hall : (args.map (Printable env scope)).all id = true := by
    simp only [List.all_map, List.all_eq_true, Function.comp, id]; exact hargs
  split
  · exact absurd rfl h1
  · exact absurd rfl h2
  · simp [hok, hall]

def bsym : Sym := ⟨"b", [], .bv 2⟩
/-- `(bvult b (bvnot b))` -/
def tBV : Term := .node .bvUlt [Term.sym bsym, .node .bvNot [Term.sym bsym] (.ints [2])] .none
def envBV : SEnv := { funs := [bsym] }

theorem ty_b : (Term.sym bsym).typeOf = some (.bv 2) := by rw [Term.sym, typeOf_node]; decide
theorem pr_b : Printable envBV [] (Term.sym bsym) = true :=
  pr_node envBV [] .symbol [] (.sym bsym) (.bv 2) (by decide) (by decide) (by decide) (by decide) (by decide +kernel)
    (fun _ h => by simp at h)
theorem ty_nb : (Term.node .bvNot [Term.sym bsym] (.ints [2])).typeOf = some (.bv 2) := by
  rw [typeOf_node]; simp only [List.map, ty_b]; decide
theorem pr_nb : Printable envBV [] (.node .bvNot [Term.sym bsym] (.ints [2])) = true :=
  pr_node envBV [] .bvNot _ _ (.bv 2) (by decide) (by decide)
    (by simp only [List.map, tyD, ty_b, Option.getD_some]; decide) (by simp only [List.map, ty_b]; decide) (by decide)
    (fun a h => by simp only [List.mem_singleton] at h; subst h; exact pr_b)
theorem pr_tBV : Printable envBV [] tBV = true :=
  pr_node envBV [] .bvUlt _ _ .bool (by decide) (by decide)
    (by simp only [List.map, tyD, ty_b, ty_nb, Option.getD_some]; decide) (by simp only [List.map, ty_b, ty_nb]; decide)
    (by decide)
    (fun a h => by
      simp only [List.mem_cons, List.not_mem_nil, or_false] at h
      rcases h with rfl | rfl
      · exact pr_b
      · exact pr_nb)

def d0 : Sym := ⟨".def_0", [], .bool⟩
def psym : Sym := ⟨"p", [], .bool⟩
/-- `(and .def_0 p)`: a user symbol spelled like the first let name of the DAG printer -/
def tDef : Term := .node .and [Term.sym d0, Term.sym psym] .none
def envDef : SEnv := { funs := [d0, psym] }

theorem ty_d0 : (Term.sym d0).typeOf = some .bool := by rw [Term.sym, typeOf_node]; decide
theorem ty_p : (Term.sym psym).typeOf = some .bool := by rw [Term.sym, typeOf_node]; decide
theorem pr_tDef : Printable envDef [] tDef = true :=
  pr_node envDef [] .and _ _ .bool (by decide) (by decide)
    (by simp only [List.map, tyD, ty_d0, ty_p, Option.getD_some]; decide) (by simp only [List.map, ty_d0, ty_p]; decide)
    (by decide)
    (fun a h => by
      simp only [List.mem_cons, List.not_mem_nil, or_false] at h
      rcases h with rfl | rfl
      · exact pr_node envDef [] .symbol [] (.sym d0) .bool (by decide) (by decide) (by decide) (by decide)
          (by decide +kernel) (fun _ h => by simp at h)
      · exact pr_node envDef [] .symbol [] (.sym psym) .bool (by decide) (by decide) (by decide) (by decide)
          (by decide +kernel) (fun _ h => by simp at h))
theorem nq_tDef : noQuant tDef = true := by simp [noQuant, tDef, Term.sym, Op.isQuantifier]
theorem ag_tDef : avGuard tDef = true := by simp [avGuard, tDef, Term.sym]

/-- the array value `Array(Int, 0, {1: 2, 3: 4})` -/
def tAV : Term := .node .arrayValue [Term.int 0, Term.int 1, Term.int 2, Term.int 3, Term.int 4] (.ty .int)

theorem ty_int (n : Int) : (Term.int n).typeOf = some .int := by rw [Term.int, typeOf_node]; rfl
theorem pr_int (n : Int) : Printable {} [] (Term.int n) = true :=
  pr_node {} [] .intConst [] (.i n) .int (by decide) (by decide) rfl rfl (by simp [nodeOK]; decide) (fun _ h => by simp at h)
theorem pr_tAV : Printable {} [] tAV = true :=
  pr_node {} [] .arrayValue _ _ (.array .int .int) (by decide) (by decide)
    (by simp only [List.map, tyD, ty_int, Option.getD_some]; decide) (by simp only [List.map, ty_int]; decide)
    (by simp only [nodeOK, ty_int]; decide)
    (fun a h => by
      simp only [List.mem_cons, List.not_mem_nil, or_false] at h
      rcases h with rfl | rfl | rfl | rfl | rfl <;> exact pr_int _)
theorem ag_tAV : avGuard tAV = true := by
  simp [avGuard, tAV, Term.int, pairsOf, constVal, Val.hasSort, pairwiseNe]

def xq : Sym := ⟨"x", [], .int⟩
/-- `(forall ((x Int)) (<= x x))` -/
def tQ : Term := Term.mkForall [xq] (.node .le [Term.sym xq, Term.sym xq] .none)

theorem ty_xq : (Term.sym xq).typeOf = some .int := by rw [Term.sym, typeOf_node]; decide
theorem ty_le : (Term.node .le [Term.sym xq, Term.sym xq] .none).typeOf = some .bool := by
  rw [typeOf_node]; simp only [List.map, ty_xq]; decide
theorem pr_tQ : Printable {} [] tQ = true := by
  have hx : Printable {} [xq] (Term.sym xq) = true :=
    pr_node {} [xq] .symbol [] (.sym xq) .int (by decide) (by decide) (by decide) (by decide) (by decide +kernel)
      (fun _ h => by simp at h)
  have hle : Printable {} [xq] (.node .le [Term.sym xq, Term.sym xq] .none) = true :=
    pr_node {} [xq] .le _ _ .bool (by decide) (by decide)
      (by simp only [List.map, tyD, ty_xq, Option.getD_some]; decide) (by simp only [List.map, ty_xq]; decide) (by decide)
      (fun a h => by
        simp only [List.mem_cons, List.not_mem_nil, or_false] at h
        rcases h with rfl | rfl <;> exact hx)
  rw [tQ, Term.mkForall, Printable.eq_def]
  have hS : stdTy .forall_ (.qvars [xq]) [tyD (.node .le [Term.sym xq, Term.sym xq] .none)] = some .bool := by
    simp only [tyD, ty_le, Option.getD_some]; decide
  have hT : typeOfNode .forall_ (.qvars [xq]) [(Term.node .le [Term.sym xq, Term.sym xq] .none).typeOf] = some .bool := by
    simp only [ty_le]; decide
  have hb : binderOK {} [xq] = true := by decide +kernel
  simp only [List.map, hS, hT, beq_self_eq_true, Bool.true_and, hb, List.reverse_cons, List.reverse_nil, List.nil_append,
    List.append_nil, hle, List.all_cons, List.all_nil, id, Bool.and_self]

end PySMT.C07
