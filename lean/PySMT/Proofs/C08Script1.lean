import PySMT.Proofs.C08AgreeTop2
import PySMT.Proofs.C08AgreeSort
import PySMT.Proofs.C09Script2
/-!
# C08: the declaration COMMANDS of the parser model against the standard's — the environments

All agreement / soundness theorems of C08 (`readTerm_agree`, `readTerm_sound`) assume corresponding environments
`Corr env [] Γ`. The files `C08Script1-3` show that the commands `set-logic`, `declare-sort` (arity 0), `declare-fun`,
`declare-const` and the parameterless `define-sort` — as ARBITRARY command texts, not printer output — move a
corresponding pair `(st.env, Γ)` to a corresponding pair, starting from the initial states.

This file: the initial environments correspond (`corr_init`); `Corr` is kept when both sides are extended by a function
symbol (`corr_declFun`), a sort symbol of arity 0 (`corr_declSort`), a sort abbreviation (`corr_defSort`), or get a new
logic (`corr_setLogic`); the two readers of sort LISTS agree (`readTyList_agree`).

No `define-fun` (`Corr.nodefs`), no `push`/`pop`: `Corr` is one-directional (the parser may know more names), and nothing
is ever forgotten in this fragment.

`Proofs/C08Script2.lean`: one command (`step_decl`) and command lists (`decls_refine`); `Proofs/C08Script3.lean`: the
corollaries for `assert`, `get-value`, `check-sat-assuming`, and examples.
-/
namespace PySMT.Parser.Agree
open PySMT PySMT.Parser PySMT.Std PySMT.Sexp

/-! ## the initial environments correspond -/

theorem lookupScope_nil (n : String) (cr : List Sym) : lookupScope n [] cr = none := rfl

/-- `SmtLibParser._reset` against the standard's initial state -/
theorem corr_init : Corr StdState.init.env [] PEnv.init := by
  refine ⟨?_, fun _ => rfl, fun _ => rfl, ?_, ?_, rfl, ?_, ?_, ?_, ?_⟩
  · intro n t ty h; cases h
  · intro n s _ _ _ h; cases h
  · intro n s h; cases h
  · intro n v hl
    simp only [PEnv.init, lookup] at hl
    split at hl
    · rename_i he; have : n = "true" := by have := he; simp at this; exact this.symm
      subst this; decide
    · split at hl
      · rename_i he; have : n = "false" := by have := he; simp at this; exact this.symm
        subst this; decide
      · cases hl
  · intro n h; cases h
  · intro n ty _ h; cases h
  · decide

theorem mgrLe_init (ρ : List (String × Sym)) : MgrLe PEnv.init.mgr ρ := by
  intro e he; cases he

/-- the formula manager's type manager only knows sort symbols of arity 0 (what the fragment declares) -/
def Sorts0 (σ : MgrSt) : Prop := ∀ e ∈ σ.sorts, e.2 = 0

theorem sorts0_init : Sorts0 PEnv.init.mgr := by
  intro e he; cases he

/-! ## lists of sorts -/

theorem readTyList_agree (env : SEnv) (Γ : PEnv) (hc : Corr env [] Γ) : ∀ (ss : List Sexp) (tys : List Ty),
    FragSortL ss = true → sortStdList env ss = .ok tys → readTyList Γ.binds [] ss = .ok tys
  | [], tys, _, h => by
    rw [sortStdList] at h
    rw [readTyList]
    cases h; rfl
  | s :: rest, tys, hf, h => by
    rw [FragSortL] at hf
    simp only [Bool.and_eq_true] at hf
    rw [sortStdList] at h
    cases h1 : sortStd env s with
    | error e => simp [h1] at h
    | ok t =>
      cases h2 : sortStdList env rest with
      | error e => simp [h1, h2] at h
      | ok ts =>
        simp only [h1, h2, Except.ok.injEq] at h
        subst h
        rw [readTyList, readTy_agree env [] Γ hc Lit.pyInt_numeral s t hf.1 h1,
          readTyList_agree env Γ hc rest ts hf.2 h2]
        rfl

theorem sortStdList_length (env : SEnv) : ∀ (ss : List Sexp) (tys : List Ty),
    sortStdList env ss = .ok tys → tys.length = ss.length
  | [], tys, h => by
    rw [sortStdList] at h
    cases h; rfl
  | s :: rest, tys, h => by
    rw [sortStdList] at h
    cases h1 : sortStd env s with
    | error e => simp [h1] at h
    | ok t =>
      cases h2 : sortStdList env rest with
      | error e => simp [h1, h2] at h
      | ok ts =>
        simp only [h1, h2, Except.ok.injEq] at h
        subst h
        simp [sortStdList_length env rest ts h2]

/-! ## extending corresponding environments -/

theorem nameOK1_inv {n : String} (h : nameOK1 n = true) : pnameOK n = true ∧ n ≠ "true" ∧ n ≠ "false" := by
  simp only [nameOK1, Bool.and_eq_true, bne_iff_ne, ne_eq] at h
  exact ⟨h.1.1, h.1.2, h.2⟩

theorem lookupFun_cons (env : SEnv) (s : Sym) (m : String) :
    ({ env with funs := s :: env.funs } : SEnv).lookupFun m = if s.name == m then some s else env.lookupFun m := by
  simp only [SEnv.lookupFun, List.find?_cons]
  cases s.name == m <;> rfl

theorem lookupSort_cons (env : SEnv) (d : String × Nat) (m : String) :
    ({ env with sorts := d :: env.sorts } : SEnv).lookupSort m = if d.1 == m then some d.2 else env.lookupSort m := by
  simp only [SEnv.lookupSort, List.find?_cons]
  cases d.1 == m <;> rfl

theorem lookupAlias_cons (env : SEnv) (d : String × Ty) (m : String) :
    ({ env with aliases := d :: env.aliases } : SEnv).lookupAlias m
      = if d.1 == m then some d.2 else env.lookupAlias m := by
  simp only [SEnv.lookupAlias, List.find?_cons]
  cases d.1 == m <;> rfl

/-- a new function symbol (or constant), declared on both sides -/
theorem corr_declFun {env : SEnv} {Γ : PEnv} (hc : Corr env [] Γ) (s : Sym) (hn : nameOK1 s.name = true)
    (hs : env.lookupSort s.name = none) (ha : env.lookupAlias s.name = none)
    (htok : s.params.isEmpty = false → tableLookup s.name = none) (σ : MgrSt) :
    Corr { env with funs := s :: env.funs } [] { Γ with binds := (s.name, declVal s) :: Γ.binds, mgr := σ } := by
  obtain ⟨hp, hnt, hnf⟩ := nameOK1_inv hn
  refine ⟨?_, ?_, ?_, ?_, ?_, hc.nodefs, ?_, ?_, ?_, hc.logic⟩
  · intro n t ty h; cases h
  · intro _
    show lookup "true" ((s.name, declVal s) :: Γ.binds) = _
    rw [lookup_cons_ne hnt]; exact hc.tt rfl
  · intro _
    show lookup "false" ((s.name, declVal s) :: Γ.binds) = _
    rw [lookup_cons_ne hnf]; exact hc.ff rfl
  · intro n s' _ h2 h3 hl
    show lookup n ((s.name, declVal s) :: Γ.binds) = _
    rw [lookupFun_cons] at hl
    by_cases hsn : s.name = n
    · subst hsn
      simp only [beq_self_eq_true, if_true, Option.some.injEq] at hl
      subst hl
      rw [lookup_cons_eq]; rfl
    · have : (s.name == n) = false := by simpa using hsn
      simp only [this, Bool.false_eq_true, if_false] at hl
      rw [lookup_cons_ne hsn]
      exact hc.funs n s' rfl h2 h3 hl
  · intro n s' hl hpar
    rw [lookupFun_cons] at hl
    by_cases hsn : s.name = n
    · subst hsn
      simp only [beq_self_eq_true, if_true, Option.some.injEq] at hl
      subst hl
      exact htok hpar
    · have : (s.name == n) = false := by simpa using hsn
      simp only [this, Bool.false_eq_true, if_false] at hl
      exact hc.funTok n s' hl hpar
  · intro n v hl
    by_cases hsn : s.name = n
    · subst hsn; exact hp
    · exact hc.names n v (by rw [← hl]; exact (lookup_cons_ne hsn).symm)
  · intro n hso
    have hso' : env.lookupSort n = some 0 := hso
    have hsn : s.name ≠ n := by intro e; subst e; rw [hs] at hso'; cases hso'
    show lookup n ((s.name, declVal s) :: Γ.binds) = _
    rw [lookup_cons_ne hsn]; exact hc.sorts n hso'
  · intro n ty h1 h2
    have h1' : env.lookupSort n = none := h1
    have h2' : env.lookupAlias n = some ty := h2
    have hsn : s.name ≠ n := by intro e; subst e; rw [ha] at h2'; cases h2'
    show lookup n ((s.name, declVal s) :: Γ.binds) = _
    rw [lookup_cons_ne hsn]; exact hc.aliases n ty h1' h2'

/-- a new sort symbol of arity 0, declared on both sides -/
theorem corr_declSort {env : SEnv} {Γ : PEnv} (hc : Corr env [] Γ) (n : String) (hn : nameOK1 n = true)
    (hf : env.lookupFun n = none) (σ : MgrSt) :
    Corr { env with sorts := (n, 0) :: env.sorts } []
      { Γ with binds := (n, .sortTy (.custom n)) :: Γ.binds, mgr := σ } := by
  obtain ⟨hp, hnt, hnf⟩ := nameOK1_inv hn
  refine ⟨?_, ?_, ?_, ?_, hc.funTok, hc.nodefs, ?_, ?_, ?_, hc.logic⟩
  · intro m t ty h; cases h
  · intro _
    show lookup "true" ((n, _) :: Γ.binds) = _
    rw [lookup_cons_ne hnt]; exact hc.tt rfl
  · intro _
    show lookup "false" ((n, _) :: Γ.binds) = _
    rw [lookup_cons_ne hnf]; exact hc.ff rfl
  · intro m s' _ h2 h3 hl
    have hl' : env.lookupFun m = some s' := hl
    have hnm : n ≠ m := by intro e; subst e; rw [hf] at hl'; cases hl'
    show lookup m ((n, _) :: Γ.binds) = _
    rw [lookup_cons_ne hnm]; exact hc.funs m s' rfl h2 h3 hl'
  · intro m v hl
    by_cases hnm : n = m
    · subst hnm; exact hp
    · exact hc.names m v (by rw [← hl]; exact (lookup_cons_ne hnm).symm)
  · intro m hso
    rw [lookupSort_cons] at hso
    show lookup m ((n, _) :: Γ.binds) = _
    by_cases hnm : n = m
    · subst hnm; rw [lookup_cons_eq]
    · have : (n == m) = false := by simpa using hnm
      simp only [this, Bool.false_eq_true, if_false] at hso
      rw [lookup_cons_ne hnm]; exact hc.sorts m hso
  · intro m ty h1 h2
    rw [lookupSort_cons] at h1
    have h2' : env.lookupAlias m = some ty := h2
    show lookup m ((n, _) :: Γ.binds) = _
    by_cases hnm : n = m
    · subst hnm; simp at h1
    · have : (n == m) = false := by simpa using hnm
      simp only [this, Bool.false_eq_true, if_false] at h1
      rw [lookup_cons_ne hnm]; exact hc.aliases m ty h1 h2'

/-- a new sort abbreviation, defined on both sides -/
theorem corr_defSort {env : SEnv} {Γ : PEnv} (hc : Corr env [] Γ) (n : String) (ty : Ty) (hn : nameOK1 n = true)
    (hf : env.lookupFun n = none) (hs : env.lookupSort n = none) :
    Corr { env with aliases := (n, ty) :: env.aliases } [] { Γ with binds := (n, .sortTy ty) :: Γ.binds } := by
  obtain ⟨hp, hnt, hnf⟩ := nameOK1_inv hn
  refine ⟨?_, ?_, ?_, ?_, hc.funTok, hc.nodefs, ?_, ?_, ?_, hc.logic⟩
  · intro m t ty h; cases h
  · intro _
    show lookup "true" ((n, _) :: Γ.binds) = _
    rw [lookup_cons_ne hnt]; exact hc.tt rfl
  · intro _
    show lookup "false" ((n, _) :: Γ.binds) = _
    rw [lookup_cons_ne hnf]; exact hc.ff rfl
  · intro m s' _ h2 h3 hl
    have hl' : env.lookupFun m = some s' := hl
    have hnm : n ≠ m := by intro e; subst e; rw [hf] at hl'; cases hl'
    show lookup m ((n, _) :: Γ.binds) = _
    rw [lookup_cons_ne hnm]; exact hc.funs m s' rfl h2 h3 hl'
  · intro m v hl
    by_cases hnm : n = m
    · subst hnm; exact hp
    · exact hc.names m v (by rw [← hl]; exact (lookup_cons_ne hnm).symm)
  · intro m hso
    have hso' : env.lookupSort m = some 0 := hso
    have hnm : n ≠ m := by intro e; subst e; rw [hs] at hso'; cases hso'
    show lookup m ((n, _) :: Γ.binds) = _
    rw [lookup_cons_ne hnm]; exact hc.sorts m hso'
  · intro m ty' h1 h2
    have h1' : env.lookupSort m = none := h1
    rw [lookupAlias_cons] at h2
    show lookup m ((n, _) :: Γ.binds) = _
    by_cases hnm : n = m
    · subst hnm
      simp only [beq_self_eq_true, if_true, Option.some.injEq] at h2
      subst h2
      rw [lookup_cons_eq]
    · have : (n == m) = false := by simpa using hnm
      simp only [this, Bool.false_eq_true, if_false] at h2
      rw [lookup_cons_ne hnm]; exact hc.aliases m ty' h1' h2

/-- a new logic, with the parser's arithmetic flag in line with the standard's reading of numerals -/
theorem corr_setLogic {env : SEnv} {Γ : PEnv} (hc : Corr env [] Γ) (l : String) (ia : Option Bool)
    (h : ia.getD true = !(realsOnlyLogics.contains l)) :
    Corr { env with logic := l } [] { Γ with intArith := ia } :=
  ⟨hc.scope, hc.tt, hc.ff, hc.funs, hc.funTok, hc.nodefs, hc.names, hc.sorts, hc.aliases, h⟩

/-! ## examples: the hypotheses are satisfiable -/

example : Corr { StdState.init.env with funs := [⟨"x", [], .int⟩] } []
    { PEnv.init with binds := ("x", declVal ⟨"x", [], .int⟩) :: PEnv.init.binds, mgr := {} } :=
  corr_declFun corr_init ⟨"x", [], .int⟩ (by decide) rfl rfl (by intro h; simp at h) {}

example : Corr { StdState.init.env with funs := [⟨"f", [.int], .bool⟩] } []
    { PEnv.init with binds := ("f", declVal ⟨"f", [.int], .bool⟩) :: PEnv.init.binds, mgr := {} } :=
  corr_declFun corr_init ⟨"f", [.int], .bool⟩ (by decide) rfl rfl (by intro _; decide) {}

example : Corr { StdState.init.env with sorts := [("U", 0)] } []
    { PEnv.init with binds := ("U", .sortTy (.custom "U")) :: PEnv.init.binds, mgr := {} } :=
  corr_declSort corr_init "U" (by decide) rfl {}

example : Corr { StdState.init.env with aliases := [("W", .bv 8)] } []
    { PEnv.init with binds := ("W", .sortTy (.bv 8)) :: PEnv.init.binds } :=
  corr_defSort corr_init "W" (.bv 8) (by decide) rfl rfl

example : Corr { StdState.init.env with logic := "QF_LRA" } [] { PEnv.init with intArith := some false } :=
  corr_setLogic corr_init "QF_LRA" (some false) (by decide)

theorem ok_of_toOption {ε α} {r : Except ε α} {a : α} (h : r.toOption = some a) : r = .ok a := by
  cases r with
  | error e => cases h
  | ok b => simp only [Except.toOption, Option.some.injEq] at h; rw [h]

example : readTyList PEnv.init.binds [] [.atom "Int", .list [.atom "_", .atom "BitVec", .atom "8"]]
    = .ok [.int, .bv 8] :=
  readTyList_agree _ _ corr_init _ _ (by decide +kernel) (ok_of_toOption (by decide +kernel))

end PySMT.Parser.Agree
