import PySMT.Spec.SmtlibText
import PySMT.Impl.Printer
/-!
# C07: the regenerated spelling tables use the standard's operator names

`Gen/PrinterOps.lean` is rewritten from `pysmt/smtlib/printers.py` on every run; the statements below are closed by
`decide` over that table, so a renamed or mistyped operator in either printer class breaks the build of this file.
-/
namespace PySMT.Printer
open PySMT.Std

/-- spellings that are *not* the standard's today (known findings F11 and `pow`); each is matched, in the harness, on the
offending token. (F10 — integer division printed `/` — is not a wrong *name*: `/` is the standard's name of real
division; it is excluded from `print_sound` by the hypothesis `NoIntDiv`.) -/
def knownNonStd : List (String × String) :=
  [("walk_str_to_int", "str.to.int"), ("walk_int_to_str", "int.to.str"), ("walk_pow", "pow")]

/-- operator tokens written by the hand-written constant / array-value walkers -/
def auxStd : List (String × String) :=
  [("walk_int_constant", "-"), ("walk_real_constant:0", "-"), ("walk_real_constant:1", "/"),
   ("walk_array_value:0", "store"), ("walk_array_value:1", "as"), ("walk_array_value:2", "const")]

/-- the entry `(key, spelling)` is the standard's: the key is the walker method of an operator one of whose standard
names is the spelling, or an auxiliary token with its standard spelling -/
def entryStd (kv : String × String) : Bool :=
  Op.all.any (fun o => walkKey o == kv.1 && (opNames o).contains kv.2) || auxStd.contains kv

/-- operators that a printer must be able to spell (everything except symbols, applications, constants,
`pow` and algebraic constants) -/
def spelledOps : List Op :=
  Op.all.filter (fun o => !(opNames o).isEmpty)

/-- every key the model looks up has an entry in the table -/
def tableComplete (tbl : List (String × String)) : Bool :=
  spelledOps.all (fun o => (tbl.lookup (walkKey o)).isSome) && auxStd.all (fun kv => (tbl.lookup kv.1).isSome)

theorem printerOps_std_tree :
    ∀ kv ∈ Gen.PrinterOps.tree, kv ∉ knownNonStd → entryStd kv = true := by decide +kernel

theorem printerOps_std_dag :
    ∀ kv ∈ Gen.PrinterOps.dag, kv ∉ knownNonStd → entryStd kv = true := by decide +kernel

theorem printerOps_complete :
    tableComplete Gen.PrinterOps.tree = true ∧ tableComplete Gen.PrinterOps.dag = true := by decide +kernel

/-- the exclusions are real: today's table does contain them, and they are not standard names -/
theorem knownNonStd_present :
    ∀ kv ∈ knownNonStd, kv ∈ Gen.PrinterOps.tree ∧ kv ∈ Gen.PrinterOps.dag ∧ entryStd kv = false := by decide +kernel

end PySMT.Printer
