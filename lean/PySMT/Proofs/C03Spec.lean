import PySMT.Spec.HasType
/-!
# C03 — `HasType` and its computable characterisation `Term.sortOf`
-/
namespace PySMT
namespace Spec

theorem allIs_iff (σs : List Ty) (σ : Ty) : allIs σs σ = true ↔ ∀ s ∈ σs, s = σ := by
  simp [allIs, List.all_eq_true]

theorem isNum_iff (σ : Ty) : isNum σ = true ↔ Num σ := by
  cases σ <;> simp [isNum, Num]

theorem nary_eq_some (σs : List Ty) (σ τ τ' : Ty) :
    nary σs σ τ = some τ' ↔ 2 ≤ σs.length ∧ (∀ s ∈ σs, s = σ) ∧ τ = τ' := by
  unfold nary
  split
  · next h =>
    simp only [Option.some.injEq]
    exact ⟨fun e => ⟨h.1, (allIs_iff _ _).1 h.2, e⟩, fun e => e.2.2⟩
  · next h =>
    simp only [reduceCtorEq, false_iff, not_and]
    intro h1 h2
    exact absurd ⟨h1, (allIs_iff _ _).2 h2⟩ h

theorem nary_some {σs : List Ty} {σ τ : Ty} (h1 : 2 ≤ σs.length) (h2 : ∀ s ∈ σs, s = σ) :
    nary σs σ τ = some τ := (nary_eq_some σs σ τ τ).2 ⟨h1, h2, rfl⟩

theorem isKv_iff (ι ε : Ty) : ∀ (l : List Ty), isKv ι ε l = true ↔ ∃ n, l = kvSorts ι ε n
  | [] => by simp only [isKv, true_iff]; exact ⟨0, rfl⟩
  | [x] => by
    simp only [isKv, Bool.false_eq_true, false_iff, not_exists]
    intro n; cases n with
    | zero => simp [kvSorts]
    | succ n => simp [kvSorts]
  | k :: v :: rest => by
    simp only [isKv, Bool.and_eq_true, beq_iff_eq, isKv_iff ι ε rest]
    constructor
    · rintro ⟨⟨rfl, rfl⟩, n, rfl⟩; exact ⟨n + 1, rfl⟩
    · rintro ⟨n, h⟩
      cases n with
      | zero => simp [kvSorts] at h
      | succ n =>
        simp only [kvSorts, List.cons.injEq] at h
        obtain ⟨rfl, rfl, rfl⟩ := h
        exact ⟨⟨rfl, rfl⟩, n, rfl⟩

theorem plainVars_iff (vs : List Sym) : plainVars vs = true ↔ vs ≠ [] ∧ ∀ v ∈ vs, v.params = [] := by
  cases vs <;> simp [plainVars, List.all_eq_true]

/-- the rank relation is exactly the graph of `sigOf` (soundness half) -/
theorem sigOf_of_sig {op p σs τ} (h : Sig op p σs τ) : sigOf op p σs = some τ := by
  cases h
  case and h1 h2 => exact nary_some h1 h2
  case or h1 h2 => exact nary_some h1 h2
  case strConcat h1 h2 => exact nary_some h1 h2
  case plus hl hn ha =>
    cases σs with
    | nil => simp at hl
    | cons s rest =>
      have hs : s = τ := ha s (by simp)
      subst hs
      simp only [sigOf, (isNum_iff _).2 hn, if_true]
      exact nary_some hl ha
  case times hl hn ha =>
    cases σs with
    | nil => simp at hl
    | cons s rest =>
      have hs : s = τ := ha s (by simp)
      subst hs
      simp only [sigOf, (isNum_iff _).2 hn, if_true]
      exact nary_some hl ha
  case bvUn hm => simp [bvUnary] at hm; rcases hm with rfl | rfl <;> simp [sigOf]
  case bvBin hm =>
    simp [bvBinary] at hm
    rcases hm with rfl | rfl | rfl | rfl | rfl | rfl | rfl | rfl | rfl | rfl | rfl | rfl | rfl <;> simp [sigOf]
  case bvRel hm => simp [bvRelation] at hm; rcases hm with rfl | rfl | rfl | rfl <;> simp [sigOf]
  case arrayValue ι ε n => simp only [sigOf, (isKv_iff _ _ _).2 ⟨n, rfl⟩, if_true]
  case forall_ h1 h2 => simp only [sigOf, (plainVars_iff _).2 ⟨h1, h2⟩, if_true]
  case exists_ h1 h2 => simp only [sigOf, (plainVars_iff _).2 ⟨h1, h2⟩, if_true]
  case minus h0 => simp [sigOf, (isNum_iff _).2 h0]
  case div h0 => simp [sigOf, (isNum_iff _).2 h0]
  case le h0 => simp [sigOf, (isNum_iff _).2 h0]
  case lt h0 => simp [sigOf, (isNum_iff _).2 h0]
  case pow h0 => simp [sigOf, (isNum_iff _).2 h0]
  case equals h0 => simp [sigOf, h0]
  case symbol h0 => simp [sigOf, h0]
  case app h0 => simp [sigOf, h0]
  case bvExtract h0 h1 => simp [sigOf, h0, h1]
  all_goals simp [sigOf]

/-- completeness half: every value of `sigOf` is a rank -/
theorem sig_of_sigOf {op p σs τ} (h : sigOf op p σs = some τ) : Sig op p σs τ := by
  cases op <;> simp only [sigOf] at h
  case and => obtain ⟨h1, h2, rfl⟩ := (nary_eq_some _ _ _ _).1 h; exact .and _ _ h1 h2
  case or => obtain ⟨h1, h2, rfl⟩ := (nary_eq_some _ _ _ _).1 h; exact .or _ _ h1 h2
  case strConcat => obtain ⟨h1, h2, rfl⟩ := (nary_eq_some _ _ _ _).1 h; exact .strConcat _ _ h1 h2
  case plus =>
    split at h
    · next σ rest =>
      split at h
      · next hn =>
        obtain ⟨h1, h2, rfl⟩ := (nary_eq_some _ _ _ _).1 h
        exact .plus _ _ _ ((isNum_iff _).1 hn) h1 h2
      · cases h
    · cases h
  case times =>
    split at h
    · next σ rest =>
      split at h
      · next hn =>
        obtain ⟨h1, h2, rfl⟩ := (nary_eq_some _ _ _ _).1 h
        exact .times _ _ _ ((isNum_iff _).1 hn) h1 h2
      · cases h
    · cases h
  all_goals (split at h <;> try (cases h; done))
  all_goals try (split at h <;> try (cases h; done))
  all_goals try (cases h)
  all_goals first
    | (constructor; done)
    | (rename_i hh; exact .forall_ _ ((plainVars_iff _).1 hh).1 ((plainVars_iff _).1 hh).2)
    | (rename_i hh; exact .exists_ _ ((plainVars_iff _).1 hh).1 ((plainVars_iff _).1 hh).2)
    | (rename_i hh; exact .symbol _ (by simpa using hh))
    | (rename_i hh; obtain ⟨h1, rfl⟩ := hh; exact .app _ (by simpa using h1))
    | (rename_i hh; obtain ⟨rfl, hn⟩ := hh; exact .minus _ _ ((isNum_iff _).1 hn))
    | (rename_i hh; obtain ⟨rfl, hn⟩ := hh; exact .div _ _ ((isNum_iff _).1 hn))
    | (rename_i hh; obtain ⟨rfl, hn⟩ := hh; exact .le _ _ ((isNum_iff _).1 hn))
    | (rename_i hh; obtain ⟨rfl, hn⟩ := hh; exact .lt _ _ ((isNum_iff _).1 hn))
    | (rename_i hh; obtain ⟨rfl, hn⟩ := hh; exact .pow _ _ ((isNum_iff _).1 hn))
    | (rename_i hh; obtain ⟨rfl, hn⟩ := hh; exact .equals _ _ hn)
    | (rename_i hh; subst hh; constructor; done)
    | (rename_i hh; subst hh; exact .bvUn _ _ (by simp [bvUnary]))
    | (rename_i hh; obtain ⟨rfl, rfl⟩ := hh; exact .bvBin _ _ (by simp [bvBinary]))
    | (rename_i hh; subst hh; exact .bvRel _ _ _ (by simp [bvRelation]))
    | (rename_i hh; obtain ⟨h1, h2, rfl⟩ := hh; exact .bvExtract _ _ _ h1 h2)
    | (rename_i hh; obtain ⟨rfl, rfl⟩ := hh; constructor; done)
    | (rename_i hh; obtain ⟨n, rfl⟩ := (isKv_iff _ _ _).1 hh; exact .arrayValue _ _ n)

theorem sig_iff {op p σs τ} : Sig op p σs τ ↔ sigOf op p σs = some τ := ⟨sigOf_of_sig, sig_of_sigOf⟩

/-- a rank is a function of operator, payload and argument sorts -/
theorem sig_unique {op p σs τ τ'} (h : Sig op p σs τ) (h' : Sig op p σs τ') : τ = τ' := by
  have := (sigOf_of_sig h).symm.trans (sigOf_of_sig h')
  exact Option.some.inj this

theorem allSome_eq_some : ∀ (l : List (Option Ty)) (σs : List Ty), allSome l = some σs ↔ l = σs.map some
  | [], σs => by cases σs <;> simp [allSome]
  | none :: rest, σs => by cases σs <;> simp [allSome]
  | some σ :: rest, σs => by
    cases σs with
    | nil => simp [allSome]
    | cons τ τs =>
      simp only [allSome, Option.map_eq_some_iff, List.cons.injEq, List.map_cons, Option.some.injEq]
      constructor
      · rintro ⟨r, hr, rfl, rfl⟩; exact ⟨rfl, (allSome_eq_some rest r).1 hr⟩
      · rintro ⟨rfl, h⟩; exact ⟨τs, (allSome_eq_some rest τs).2 h, rfl, rfl⟩

end Spec

open Spec

theorem Term.sortOf_node (op : Op) (args : List Term) (p : Payload) (τ : Ty) :
    (Term.node op args p).sortOf = some τ ↔
      ∃ σs, args.map Term.sortOf = σs.map some ∧ sigOf op p σs = some τ := by
  simp only [Term.sortOf]
  constructor
  · intro h
    split at h
    · next σs hs => exact ⟨σs, (allSome_eq_some _ _).1 hs, h⟩
    · cases h
  · rintro ⟨σs, hs, h⟩
    rw [(allSome_eq_some _ _).2 hs]; exact h

namespace Spec

/-- soundness of the characterisation, by the mutual recursor of `HasType`/`HasTypes` -/
theorem sortOf_of_hasType {t : Term} {τ : Ty} (h : HasType t τ) : t.sortOf = some τ := by
  refine HasType.rec (motive_1 := fun t τ _ => t.sortOf = some τ)
    (motive_2 := fun as σs _ => as.map Term.sortOf = σs.map some) ?_ ?_ ?_ h
  · intro op args p σs τ _ hsig ih
    exact (Term.sortOf_node op args p τ).2 ⟨σs, ih, sigOf_of_sig hsig⟩
  · rfl
  · intro a as σ σs _ _ ih1 ih2
    simp only [List.map_cons, ih1, ih2]

theorem hasTypes_of_map : ∀ (as : List Term) (σs : List Ty),
    (∀ a ∈ as, ∀ σ, a.sortOf = some σ → HasType a σ) → as.map Term.sortOf = σs.map some → HasTypes as σs
  | [], [], _, _ => .nil
  | [], _ :: _, _, h => by simp at h
  | _ :: _, [], _, h => by simp at h
  | a :: as, σ :: σs, ih, h => by
    simp only [List.map_cons, List.cons.injEq] at h
    exact .cons (ih a (by simp) σ h.1) (hasTypes_of_map as σs (fun b hb => ih b (by simp [hb])) h.2)

theorem hasType_of_sortOf : (t : Term) → (τ : Ty) → t.sortOf = some τ → HasType t τ
  | .node op args p, τ, h => by
    obtain ⟨σs, hs, hsig⟩ := (Term.sortOf_node op args p τ).1 h
    exact .node (hasTypes_of_map args σs (fun a _ σ hσ => hasType_of_sortOf a σ hσ) hs) (sig_of_sigOf hsig)

/-- `HasType` is decided by `Term.sortOf` -/
theorem hasType_iff_sortOf (t : Term) (τ : Ty) : HasType t τ ↔ t.sortOf = some τ :=
  ⟨sortOf_of_hasType, hasType_of_sortOf t τ⟩

instance (t : Term) (τ : Ty) : Decidable (HasType t τ) := decidable_of_iff _ (hasType_iff_sortOf t τ).symm

/-- a well-sorted term has exactly one sort -/
theorem hasType_unique {t : Term} {τ τ' : Ty} (h : HasType t τ) (h' : HasType t τ') : τ = τ' := by
  have := (sortOf_of_hasType h).symm.trans (sortOf_of_hasType h')
  exact Option.some.inj this

end Spec
end PySMT
