import PySMT.Proofs.C08AgreeMain
import PySMT.Impl.PrinterHyp
/-!
# C09: what the print → parse theorems assume beyond `Printable` (C07)

`parseOK env ρ t` (decidable):
* every bound variable has a name the parser cannot take for a literal or a sort (`bindNameOK`: F16b, and the single cache
  for sorts and terms), and is the formula manager's symbol of that name (`ρ`: one name, one sort — what `FormulaManager`
  guarantees for every formula it holds).
-/
namespace PySMT.Parser.Agree
open PySMT PySMT.Parser PySMT.Std PySMT.Sexp PySMT.Printer

/-- the condition on one node -/
def parseNodeOK (env : SEnv) (ρ : List (String × Sym)) (op : Op) (p : Payload) : Bool :=
  match op, p with
  | .forall_, .qvars vs | .exists_, .qvars vs =>
    vs.all (fun v => bindNameOK env v.name && ρ.lookup v.name == some v)
  | _, _ => true

def parseOK (env : SEnv) (ρ : List (String × Sym)) : Term → Bool
  | .node op args p => (args.map (parseOK env ρ)).all id && parseNodeOK env ρ op p

theorem parseOK_node (env : SEnv) (ρ : List (String × Sym)) (op : Op) (args : List Term) (p : Payload) :
    parseOK env ρ (.node op args p) = ((args.map (parseOK env ρ)).all id && parseNodeOK env ρ op p) := by
  rw [parseOK]

/-- no `rotate_left`/`rotate_right` node (hypothesis of the DAG theorem only: the side condition `RotOK` of the agreement
theorem is proved for the tree printer's text, not for the DAG printer's) -/
def noRot : Term → Bool
  | .node op args _ => (op != .bvRol && op != .bvRor) && (args.map noRot).all id

theorem noRot_node (op : Op) (args : List Term) (p : Payload) :
    noRot (.node op args p) = ((op != .bvRol && op != .bvRor) && (args.map noRot).all id) := by rw [noRot]

end PySMT.Parser.Agree
