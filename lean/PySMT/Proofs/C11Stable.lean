import PySMT.Proofs.C11Simp
/-!
# C11 — structural discharge of `SimpSide` / `ShapeSide` for inputs whose atoms are fixed points of the simplifier

`atomsB t` : the atoms of `t` at Boolean positions (the nodes on which `enc` answers the node itself).
If every one of them is a fixed point of `simp`, the literals the CNFizer negates are definition symbols, their
negations, `True`, `False`, atoms and negated atoms (`Form`), so the simplifier is only ever applied to a definition
symbol, a constant or an atom (`simpArgs_form`).  Then `ShapeSide` holds outright and `SimpSide` follows from
conditions on the atoms alone.
-/
namespace PySMT.C11.Proofs
open PySMT.CNF PySMT.PolCNF PySMT.Simplifier

/-- atoms at Boolean positions, mirroring the case analysis of `enc` -/
def atomsB : Term → List Term
  | .node op args p =>
    match op, args with
    | .and, [a] => atomsB a
    | .and, as => (as.map atomsB).flatten
    | .or, [a] => atomsB a
    | .or, as => (as.map atomsB).flatten
    | .not, [a] => atomsB a
    | .implies, [a, b] => atomsB a ++ atomsB b
    | .iff, [a, b] => atomsB a ++ atomsB b
    | .ite, [i, th, el] =>
      if ph (.node op args p) then [.node op args p] else atomsB i ++ atomsB th ++ atomsB el
    | _, _ => [.node op args p]

theorem atomsB_and_many (args : List Term) (p : Payload) (h : ∀ a, args = [a] → False) :
    atomsB (.node .and args p) = (args.map atomsB).flatten := by
  rw [atomsB.eq_def]; simp only

theorem atomsB_or_many (args : List Term) (p : Payload) (h : ∀ a, args = [a] → False) :
    atomsB (.node .or args p) = (args.map atomsB).flatten := by
  rw [atomsB.eq_def]; simp only

theorem atomsB_default (op : Op) (args : List Term) (p : Payload)
    (h1 : op = .and → False) (h2 : op = .or → False)
    (h5 : ∀ a, op = .not → args = [a] → False) (h6 : ∀ a b, op = .implies → args = [a, b] → False)
    (h7 : ∀ a b, op = .iff → args = [a, b] → False) (h8 : ∀ a b c, op = .ite → args = [a, b, c] → False) :
    atomsB (.node op args p) = [.node op args p] := by
  rw [atomsB.eq_def]; simp only
  split <;> simp_all

/-- the literals that can occur: `±k`, `True`, `False`, `±a` for an atom `a` of the list -/
def Form (A : List Term) (l : Term) : Prop :=
  (∃ k, l = Term.sym k ∨ l = Term.mkNot (Term.sym k)) ∨ l = Term.tt ∨ l = Term.ff ∨
    ∃ a ∈ A, l = a ∨ l = Term.mkNot a

theorem Form.mono {A B : List Term} {l : Term} (h : Form A l) (hs : ∀ a ∈ A, a ∈ B) : Form B l := by
  rcases h with h | h | h | ⟨a, ha, h⟩
  · exact Or.inl h
  · exact Or.inr (Or.inl h)
  · exact Or.inr (Or.inr (Or.inl h))
  · exact Or.inr (Or.inr (Or.inr ⟨a, hs a ha, h⟩))

theorem simp_tt : simp Term.tt = Term.tt := by
  simp [simp, simpWith, Term.tt, ruleOf, Simp.keep]
theorem simp_ff : simp Term.ff = Term.ff := by
  simp [simp, simpWith, Term.ff, ruleOf, Simp.keep]

/-- an atom of `atomsB` is never a negation `not [x]` -/
def NotNeg (a : Term) : Prop := ∀ x p, a ≠ .node .not [x] p

theorem negLit_of_notNeg {E : Env} {a : Term} (h : NotNeg a) : negLit E a = simpNot (E.simp a) := by
  unfold negLit
  split
  · next x p => exact absurd rfl (h x p)
  · rfl

theorem negArg_of_notNeg {a : Term} (h : NotNeg a) : negArg a = a := by
  unfold negArg
  split
  · next x p => exact absurd rfl (h x p)
  · rfl

theorem notNeg_sym (k : Sym) : NotNeg (Term.sym k) := by intro x p h; cases h
theorem notNeg_tt : NotNeg Term.tt := by intro x p h; cases h
theorem notNeg_ff : NotNeg Term.ff := by intro x p h; cases h

/-- what the list of atoms must satisfy -/
structure Stable (A : List Term) : Prop where
  fix    : ∀ a ∈ A, simp a = a
  notNeg : ∀ a ∈ A, NotNeg a

theorem form_negLit {key : Term → Sym} {A : List Term} (hA : Stable A) {l : Term} (h : Form A l) :
    Form A (negLit ⟨key, simp⟩ l) := by
  rcases h with ⟨k, rfl | rfl⟩ | rfl | rfl | ⟨a, ha, e | e⟩
  · rw [negLit_sym (E := ⟨key, simp⟩) simp_sym]; exact Or.inl ⟨k, Or.inr rfl⟩
  · rw [negLit_notSym (E := ⟨key, simp⟩) simp_sym]; exact Or.inl ⟨k, Or.inl rfl⟩
  · rw [negLit_of_notNeg notNeg_tt]
    show Form A (simpNot (simp Term.tt))
    rw [simp_tt]; exact Or.inr (Or.inr (Or.inl rfl))
  · rw [negLit_of_notNeg notNeg_ff]
    show Form A (simpNot (simp Term.ff))
    rw [simp_ff]; exact Or.inr (Or.inl rfl)
  · subst e
    rw [negLit_of_notNeg (hA.notNeg _ ha)]
    show Form A (simpNot (simp _))
    rw [hA.fix _ ha]
    unfold simpNot
    split
    · next as v =>
      cases v
      · exact Or.inr (Or.inl rfl)
      · exact Or.inr (Or.inr (Or.inl rfl))
    · next y p => exact absurd rfl (hA.notNeg _ ha y p)
    · exact Or.inr (Or.inr (Or.inr ⟨_, ha, Or.inr rfl⟩))
  · subst e
    show Form A (simp a)
    rw [hA.fix a ha]
    exact Or.inr (Or.inr (Or.inr ⟨a, ha, Or.inl rfl⟩))

theorem Stable.mono {A B : List Term} (h : Stable B) (hs : ∀ a ∈ A, a ∈ B) : Stable A :=
  ⟨fun a ha => h.fix a (hs a ha), fun a ha => h.notNeg a (hs a ha)⟩

theorem mem_flatten_atomsB {args : List Term} {a x : Term} (ha : a ∈ args) (hx : x ∈ atomsB a) :
    x ∈ (args.map atomsB).flatten := by
  simp only [List.mem_flatten, List.mem_map]
  exact ⟨atomsB a, ⟨a, ha, rfl⟩, hx⟩

/-- literal and negated literals of `enc` have the form `Form (atomsB g)` when the atoms are stable -/
theorem enc_forms (key : Term → Sym) :
    (g : Term) → (∀ a ∈ atomsB g, simp a = a) →
      Form (atomsB g) (enc ⟨key, simp⟩ g).1 ∧ (∀ l ∈ negCalls ⟨key, simp⟩ g, Form (atomsB g) l) ∧
      (∀ a ∈ atomsB g, NotNeg a)
  | .node op args p => by
    have ih : ∀ a ∈ args, (∀ x ∈ atomsB a, simp x = x) →
        Form (atomsB a) (enc ⟨key, simp⟩ a).1 ∧ (∀ l ∈ negCalls ⟨key, simp⟩ a, Form (atomsB a) l) ∧
        (∀ x ∈ atomsB a, NotNeg x) := fun a _ => enc_forms key a
    have hk : Form (atomsB (.node op args p)) (Term.sym (key (.node op args p))) := Or.inl ⟨_, Or.inl rfl⟩
    revert ih hk
    rw [enc.eq_def]; simp only
    split <;> intro ih hk hst
    · next a =>
      rw [atomsB.eq_def] at hst ⊢
      rw [negCalls.eq_def]
      exact ih a (by simp) hst
    · next hne =>
      rw [atomsB_and_many _ _ hne] at hst hk ⊢
      rw [negCalls_and_many _ _ _ hne]
      have hc : ∀ a ∈ args, _ := fun a ha => ih a ha (fun x hx => hst x (mem_flatten_atomsB ha hx))
      refine ⟨hk, ?_, ?_⟩
      · intro l hl
        rcases List.mem_append.mp hl with hl | hl
        · obtain ⟨a, ha, rfl⟩ := List.mem_map.mp hl
          exact (hc a ha).1.mono (fun x hx => mem_flatten_atomsB ha hx)
        · simp only [List.mem_flatten, List.mem_map] at hl
          obtain ⟨_, ⟨a, ha, rfl⟩, hla⟩ := hl
          exact ((hc a ha).2.1 l hla).mono (fun x hx => mem_flatten_atomsB ha hx)
      · intro x hx
        simp only [List.mem_flatten, List.mem_map] at hx
        obtain ⟨_, ⟨a, ha, rfl⟩, hxa⟩ := hx
        exact (hc a ha).2.2 x hxa
    · next a =>
      rw [atomsB.eq_def] at hst ⊢
      rw [negCalls.eq_def]
      exact ih a (by simp) hst
    · next hne =>
      rw [atomsB_or_many _ _ hne] at hst hk ⊢
      rw [negCalls_or_many _ _ _ hne]
      have hc : ∀ a ∈ args, _ := fun a ha => ih a ha (fun x hx => hst x (mem_flatten_atomsB ha hx))
      refine ⟨hk, ?_, ?_⟩
      · intro l hl
        rcases List.mem_append.mp hl with hl | hl
        · obtain ⟨a, ha, rfl⟩ := List.mem_map.mp hl
          exact (hc a ha).1.mono (fun x hx => mem_flatten_atomsB ha hx)
        · simp only [List.mem_flatten, List.mem_map] at hl
          obtain ⟨_, ⟨a, ha, rfl⟩, hla⟩ := hl
          exact ((hc a ha).2.1 l hla).mono (fun x hx => mem_flatten_atomsB ha hx)
      · intro x hx
        simp only [List.mem_flatten, List.mem_map] at hx
        obtain ⟨_, ⟨a, ha, rfl⟩, hxa⟩ := hx
        exact (hc a ha).2.2 x hxa
    · next a =>
      rw [atomsB.eq_def] at hst ⊢
      rw [negCalls.eq_def]
      simp only at hst ⊢
      have ha := ih a (by simp) hst
      have hA : Stable (atomsB a) := ⟨hst, ha.2.2⟩
      refine ⟨?_, ?_, ha.2.2⟩
      · split
        · exact Or.inr (Or.inr (Or.inl rfl))
        · split
          · exact Or.inr (Or.inl rfl)
          · exact form_negLit hA ha.1
      · intro l hl
        rcases List.mem_cons.mp hl with rfl | hl
        · exact ha.1
        · exact ha.2.1 l hl
    · next a b =>
      rw [atomsB.eq_def] at hst hk ⊢
      rw [negCalls.eq_def]
      simp only at hst hk ⊢
      have ha := ih a (by simp) (fun x hx => hst x (List.mem_append_left _ hx))
      have hb := ih b (by simp) (fun x hx => hst x (List.mem_append_right _ hx))
      refine ⟨hk, ?_, ?_⟩
      · intro l hl
        simp only [List.mem_cons, List.mem_append] at hl
        rcases hl with rfl | rfl | hl | hl
        · exact ha.1.mono (fun x hx => List.mem_append_left _ hx)
        · exact hb.1.mono (fun x hx => List.mem_append_right _ hx)
        · exact (ha.2.1 l hl).mono (fun x hx => List.mem_append_left _ hx)
        · exact (hb.2.1 l hl).mono (fun x hx => List.mem_append_right _ hx)
      · intro x hx
        rcases List.mem_append.mp hx with hx | hx
        · exact ha.2.2 x hx
        · exact hb.2.2 x hx
    · next a b =>
      rw [atomsB.eq_def] at hst hk ⊢
      rw [negCalls.eq_def]
      simp only at hst hk ⊢
      have ha := ih a (by simp) (fun x hx => hst x (List.mem_append_left _ hx))
      have hb := ih b (by simp) (fun x hx => hst x (List.mem_append_right _ hx))
      refine ⟨hk, ?_, ?_⟩
      · intro l hl
        simp only [List.mem_cons, List.mem_append] at hl
        rcases hl with rfl | rfl | hl | hl
        · exact ha.1.mono (fun x hx => List.mem_append_left _ hx)
        · exact hb.1.mono (fun x hx => List.mem_append_right _ hx)
        · exact (ha.2.1 l hl).mono (fun x hx => List.mem_append_left _ hx)
        · exact (hb.2.1 l hl).mono (fun x hx => List.mem_append_right _ hx)
      · intro x hx
        rcases List.mem_append.mp hx with hx | hx
        · exact ha.2.2 x hx
        · exact hb.2.2 x hx
    · next i th el =>
      rw [atomsB.eq_def] at hst hk ⊢
      rw [negCalls.eq_def]
      simp only at hst hk ⊢
      split
      · next hph =>
        simp only [hph, if_true] at hst hk ⊢
        refine ⟨Or.inr (Or.inr (Or.inr ⟨_, by simp, Or.inl rfl⟩)), by simp, ?_⟩
        intro x hx
        simp only [List.mem_cons, List.mem_nil_iff, or_false] at hx
        subst hx
        intro y q he
        cases he
      · next hph =>
        simp only [hph, if_false] at hst hk ⊢
        have hi := ih i (by simp) (fun x hx => hst x (by simp [hx]))
        have ht := ih th (by simp) (fun x hx => hst x (by simp [hx]))
        have he := ih el (by simp) (fun x hx => hst x (by simp [hx]))
        refine ⟨hk, ?_, ?_⟩
        · intro l hl
          simp only [List.mem_cons, List.mem_append] at hl
          rcases hl with rfl | rfl | rfl | (hl | hl) | hl
          · exact hi.1.mono (fun x hx => by simp [hx])
          · exact ht.1.mono (fun x hx => by simp [hx])
          · exact he.1.mono (fun x hx => by simp [hx])
          · exact (hi.2.1 l hl).mono (fun x hx => by simp [hx])
          · exact (ht.2.1 l hl).mono (fun x hx => by simp [hx])
          · exact (he.2.1 l hl).mono (fun x hx => by simp [hx])
        · intro x hx
          simp only [List.mem_append] at hx
          rcases hx with (hx | hx) | hx
          · exact hi.2.2 x hx
          · exact ht.2.2 x hx
          · exact he.2.2 x hx
    · next h1 h2 _ _ h5 h6 h7 h8 =>
      rw [atomsB_default _ _ _ h1 h2 h5 h6 h7 h8] at hst ⊢
      have hnc : negCalls ⟨key, simp⟩ (.node op args p) = [] := by
        rw [negCalls.eq_def]; simp only
      rw [hnc]
      refine ⟨Or.inr (Or.inr (Or.inr ⟨_, by simp, Or.inl rfl⟩)), by simp, ?_⟩
      intro x hx
      simp only [List.mem_cons, List.mem_nil_iff, or_false] at hx
      subst hx
      intro y q he
      cases he
      exact h5 y rfl rfl

/-! ## from the forms to the side conditions -/

/-- the atoms of `t` at Boolean positions are fixed points of the simplifier -/
def AtomsStable (t : Term) : Prop := ∀ a ∈ atomsB t, simp a = a

/-- every term handed to the simplifier is a definition symbol, a Boolean constant or an atom -/
theorem simpArgs_form (key : Term → Sym) (t : Term) (hst : AtomsStable t) :
    ∀ x ∈ simpArgs key t, (∃ k, x = Term.sym k) ∨ x = Term.tt ∨ x = Term.ff ∨ x ∈ atomsB t := by
  obtain ⟨h1, h2, h3⟩ := enc_forms key t hst
  intro x hx
  obtain ⟨l, hl, rfl⟩ := List.mem_map.mp hx
  have hf : Form (atomsB t) l := by
    rcases List.mem_cons.mp hl with rfl | hl
    · exact h1
    · exact h2 l hl
  rcases hf with ⟨k, rfl | rfl⟩ | rfl | rfl | ⟨a, ha, rfl | rfl⟩
  · exact Or.inl ⟨k, rfl⟩
  · exact Or.inl ⟨k, rfl⟩
  · exact Or.inr (Or.inl rfl)
  · exact Or.inr (Or.inr (Or.inl rfl))
  · rw [negArg_of_notNeg (h3 _ ha)]; exact Or.inr (Or.inr (Or.inr ha))
  · exact Or.inr (Or.inr (Or.inr ha))

/-- **`ShapeSide` holds when the atoms are fixed points of the simplifier** -/
theorem shapeSide_of_stable (key : Term → Sym) (t : Term) (hst : AtomsStable t) : ShapeSide key t := by
  intro x hx hat
  have keep : simp x = x → LitOrConst (simp x) := by
    intro e
    rw [e]
    rcases hat with h | h
    · exact Or.inl (isLitS_of_atom h)
    · exact Or.inr h
  rcases simpArgs_form key t hst x hx with ⟨k, rfl⟩ | rfl | rfl | ha
  · exact keep (simp_sym k)
  · exact keep simp_tt
  · exact keep simp_ff
  · exact keep (hst x ha)

theorem wf_tt : Term.tt.wf = true ∧ Term.ff.wf = true := by
  constructor <;> exact Term.wf_node.mpr ⟨by simp, rfl, rfl⟩

theorem inFrag_const : inFrag Term.tt = true ∧ inFrag Term.ff = true := by
  constructor <;> simp [inFrag, inFragWith, Term.tt, Term.ff, ruleOf, Simp.keep]

theorem typeOf_const : Term.tt.typeOf = some .bool ∧ Term.ff.typeOf = some .bool := by
  constructor <;> (simp only [Term.tt, Term.ff, typeOf_node, List.map_nil] <;> rfl)

/-- **`SimpSide` from conditions on the atoms alone**, when they are fixed points of the simplifier -/
theorem simpSide_of_stable (key : Term → Sym) (t : Term) (I : Interp) (hst : AtomsStable t)
    (hat : ∀ a ∈ atomsB t, a.wf = true ∧ inFrag a = true ∧ a.typeOf = some .bool ∧ (∀ s ∈ a.fv, s ∈ t.fv) ∧
      div0 I a = false) : SimpSide key t I := by
  intro x hx
  rcases simpArgs_form key t hst x hx with ⟨k, rfl⟩ | rfl | rfl | ha
  · exact Or.inl ⟨k, rfl⟩
  · exact Or.inr ⟨wf_tt.1, inFrag_const.1, typeOf_const.1, by simp [Term.tt, Term.fv], by
      simp [div0, Term.div0F, Term.tt, div0Node]⟩
  · exact Or.inr ⟨wf_tt.2, inFrag_const.2, typeOf_const.2, by simp [Term.ff, Term.fv], by
      simp [div0, Term.div0F, Term.ff, div0Node]⟩
  · exact Or.inr (hat x ha)

end PySMT.C11.Proofs
