import PySMT.Proofs.WalkerThms
import PySMT.Impl.WalkerDriver

/-! Consequences for call sequences (C15: probes after a failure), the reduced `create_node`, the constant
    caches (C14/F07), the tagged key spaces (`SizeOracle`), and the lawfulness of the driver's hash-map memo. -/

namespace PySMT.Walker
set_option linter.unusedSectionVars false
set_option linter.unusedSimpArgs false

section
variable {M N R E : Type} [DecidableEq N] [MemoLike M N R] [LawfulMemo M N R]

/-- every probe returns the specified outcome, from whatever idle state the sequence starts -/
theorem walks_spec (g : Graph N) (d : N → Bool) (f0 : N → List R → Except E R) (inval shortcut : Bool)
    (fuel : Nat) (V : List N) (hfuel : 2 * cost g V + 2 ≤ fuel) (qs : List N) (hV : ∀ q ∈ qs, Covers g d q V)
    (s : WState M N) (hi : Idle g d f0 s) :
    (walks g d (fun _ => f0) inval shortcut fuel qs s).1 = qs.map (fun q => ofSpec (spec g d f0 q)) ∧
    Idle g d f0 (walks g d (fun _ => f0) inval shortcut fuel qs s).2 := by
  induction qs generalizing s with
  | nil => exact ⟨rfl, hi⟩
  | cons q qs ih =>
    have hq := walk_correct g d f0 inval shortcut fuel q s hi V (hV q List.mem_cons_self) hfuel
    have hi' := walk_idle g d _ f0 (refines_pure f0) inval shortcut fuel q s hi
    obtain ⟨h1, h2⟩ := ih (fun q' h => hV q' (List.mem_cons_of_mem _ h)) _ hi'
    simp only [walks, List.map_cons]
    exact ⟨by rw [hq, h1], h2⟩

/-- **probe_after_failure_eq** (C15): after a call in which callbacks raised -- at any point of the traversal, by
    themselves or by injection at the k-th invocation --, every later sequence of calls on the same walker returns
    exactly what it returns when the failing call is never made. -/
theorem probe_after_failure_eq (g : Graph N) (d : N → Bool) (f0 : N → List R → Except E R)
    (fbad : List N → N → List R → Except E R) (hbad : Refines fbad f0) (inval shortcut : Bool)
    (fuelBad fuel : Nat) (b : N) (V : List N) (hfuel : 2 * cost g V + 2 ≤ fuel) (qs : List N)
    (hV : ∀ q ∈ qs, Covers g d q V) (s : WState M N) (hi : Idle g d f0 s) :
    (walks g d (fun _ => f0) inval shortcut fuel qs (walk g d fbad inval shortcut fuelBad b s).2).1
      = (walks g d (fun _ => f0) inval shortcut fuel qs s).1 := by
  have hi' := walk_idle g d fbad f0 hbad inval shortcut fuelBad b s hi
  rw [(walks_spec g d f0 inval shortcut fuel V hfuel qs hV _ hi').1,
      (walks_spec g d f0 inval shortcut fuel V hfuel qs hV _ hi).1]

/-- **history_indep** (C14): the outcome of a call made after any history of calls on the same walker equals the
    outcome of the same call on a freshly constructed walker. -/
theorem history_indep (g : Graph N) (d : N → Bool) (f0 : N → List R → Except E R) (inval shortcut : Bool)
    (fuel : Nat) (V : List N) (hfuel : 2 * cost g V + 2 ≤ fuel) (hist : List N) (q : N)
    (hV : ∀ x ∈ q :: hist, Covers g d x V) :
    (walk g d (fun _ => f0) inval shortcut fuel q
        (walks g d (fun _ => f0) inval shortcut fuel hist (WState.init : WState M N)).2).1
      = (walk g d (fun _ => f0) inval shortcut fuel q (WState.init : WState M N)).1 := by
  have h0 : Idle g d f0 (WState.init : WState M N) := idle_init g d f0
  have h1 := (walks_spec g d f0 inval shortcut fuel V hfuel hist
    (fun x hx => hV x (List.mem_cons_of_mem _ hx)) _ h0).2
  exact walk_memo_indep g d f0 inval shortcut fuel q _ _ h1 h0 V (hV q List.mem_cons_self) hfuel

/-- **typecheck_const** (C20): walking a node whose children are all memoised invokes exactly one callback
    (this is the type check performed by `create_node`). -/
theorem typecheck_const (g : Graph N) (d : N → Bool) (f0 : N → List R → Except E R) (inval shortcut : Bool)
    (fuel : Nat) (n : N) (s : WState M N) (hi : Idle g d f0 s) (V : List N) (hV : Covers g d n V)
    (hfuel : 2 * cost g V + 2 ≤ fuel) (r : R) (hok : spec g d f0 n = .ok r)
    (hkids : ∀ c ∈ kids g d n, (look s.memo c).isSome) (hn : look s.memo n = none) :
    (walk g d (fun _ => f0) inval shortcut fuel n s).2.trace = n :: s.trace := by
  obtain ⟨new, htr, nd, hiff, _⟩ := calls_eq_distinct g d f0 inval shortcut fuel n s hi V hV hfuel r hok
  have hmem : ∀ x, x ∈ new ↔ x = n := by
    intro x
    rw [hiff]
    constructor
    · rintro ⟨hd, hx⟩
      cases hd with
      | refl _ => rfl
      | step _ c _ hc hcx =>
        have := desc_memo g d s.memo hi.closed.down c x hcx (hkids c hc)
        rw [hx] at this; cases this
    · rintro rfl; exact ⟨Desc.refl _, hn⟩
  have : new = [n] := by
    cases new with
    | nil => exact absurd ((hmem n).mpr rfl) (by simp)
    | cons a t =>
      have ha : a = n := (hmem a).mp List.mem_cons_self
      subst ha
      cases t with
      | nil => rfl
      | cons b t =>
        have hb : b = a := (hmem b).mp (List.mem_cons_of_mem _ List.mem_cons_self)
        subst hb
        simp at nd
  rw [htr, this]; rfl

end

/-! ### `create_node` -/

section
variable {M N T E : Type} [DecidableEq N] [MemoLike M N (Option T)] [LawfulMemo M N (Option T)]

/-- the observable result of `create_node c`: the node (= its content), or the error class -/
def createSpec (g : Graph N) (tc0 : N → List (Option T) → Except E (Option T)) (c : N) : Except (CreateErr E) N :=
  match spec g (fun _ => false) tc0 c with
  | .ok (some _) => .ok c
  | .ok none => .error .illTyped
  | .error e => .error (.walker (.cb e))

theorem createNode_spec (g : Graph N) (tc0 : N → List (Option T) → Except E (Option T)) (fuel : Nat)
    (V : List N) (hfuel : 2 * cost g V + 2 ≤ fuel) (c : N) (hV : Covers g (fun _ => false) c V)
    (s : Mgr M N) (hi : Idle g (fun _ => false) tc0 s.stc) :
    (createNode g (fun _ => tc0) fuel c s).1 = createSpec g tc0 c ∧
    Idle g (fun _ => false) tc0 (createNode g (fun _ => tc0) fuel c s).2.stc ∧
    (∀ x, x ∈ (createNode g (fun _ => tc0) fuel c s).2.table ↔ (x ∈ s.table ∨ x = c)) := by
  have hw := walk_correct g (fun _ => false) tc0 false true fuel c s.stc hi V hV hfuel
  have hi' := walk_idle g (fun _ => false) _ tc0 (refines_pure tc0) false true fuel c s.stc hi
  unfold createNode createSpec
  simp only
  rw [hw]
  refine ⟨?_, ?_, ?_⟩
  · cases spec g (fun _ => false) tc0 c with
    | error e => rfl
    | ok o => cases o <;> rfl
  · cases hsp : ofSpec (spec g (fun _ => false) tc0 c) with
    | ok o => cases o <;> exact hi'
    | raise e => exact hi'
    | fuel => exact hi'
  · intro x
    have : ∀ (p : Except (CreateErr E) N × Mgr M N), p.2.table = (if c ∈ s.table then s.table else c :: s.table) →
        (x ∈ p.2.table ↔ (x ∈ s.table ∨ x = c)) := by
      intro p hp
      rw [hp]
      by_cases hc : c ∈ s.table
      · simp only [hc, if_true]
        constructor
        · exact Or.inl
        · rintro (h | rfl)
          · exact h
          · exact hc
      · simp only [hc, if_false, List.mem_cons]
        constructor
        · rintro (h | h)
          · exact Or.inr h
          · exact Or.inl h
        · rintro (h | h)
          · exact Or.inr h
          · exact Or.inl h
    apply this
    cases ofSpec (spec g (fun _ => false) tc0 c) with
    | ok o => cases o <;> rfl
    | raise e => rfl
    | fuel => rfl

/-- **create_fail_invisible** (C15): a failing `create_node c` leaves its content in the table (`x = c` below), yet
    every later `create_node q` -- including `q = c`, the only call that reaches the stale entry, which fails
    again -- returns exactly what it returns when the failing call was never made; the type checker stays idle. -/
theorem create_fail_invisible (g : Graph N) (tc0 : N → List (Option T) → Except E (Option T)) (fuel : Nat)
    (V : List N) (hfuel : 2 * cost g V + 2 ≤ fuel) (c : N) (hVc : Covers g (fun _ => false) c V)
    (s : Mgr M N) (hi : Idle g (fun _ => false) tc0 s.stc)
    (e : CreateErr E) (hfail : (createNode g (fun _ => tc0) fuel c s).1 = .error e) :
    let s' := (createNode g (fun _ => tc0) fuel c s).2
    (∀ x, x ∈ s'.table ↔ (x ∈ s.table ∨ x = c)) ∧ Idle g (fun _ => false) tc0 s'.stc ∧
    (createNode g (fun _ => tc0) fuel c s').1 = .error e ∧
    ∀ q, Covers g (fun _ => false) q V →
      (createNode g (fun _ => tc0) fuel q s').1 = (createNode g (fun _ => tc0) fuel q s).1 := by
  intro s'
  obtain ⟨h1, h2, h3⟩ := createNode_spec g tc0 fuel V hfuel c hVc s hi
  refine ⟨h3, h2, ?_, ?_⟩
  · rw [(createNode_spec g tc0 fuel V hfuel c hVc s' h2).1, ← h1]; exact hfail
  · intro q hq
    rw [(createNode_spec g tc0 fuel V hfuel q hq s' h2).1, (createNode_spec g tc0 fuel V hfuel q hq s hi).1]

end

/-! ### constant caches (F07) -/

/-- every cached entry is the node of its own key -/
def CacheOK (c : ConstCache) : Prop := ∀ k n, c.lookup k = some n → n = k

theorem cacheOK_nil : CacheOK [] := by intro k n h; simp [List.lookup] at h

/-- **const_cache_indep** (C14): after the repair the result of `Int(v)` -- the node, or the type error -- does not
    depend on which constants were built before. -/
theorem const_cache_indep (v : PyNum) (c : ConstCache) (hc : CacheOK c) :
    (mkInt v c).1 = (mkInt v []).1 ∧ CacheOK (mkInt v c).2 := by
  unfold mkInt
  cases hv : v.isInt with
  | false => exact ⟨rfl, hc⟩
  | true =>
    simp only [if_true]
    cases hl : c.lookup v.val with
    | some n =>
      have := hc _ _ hl
      subst this
      exact ⟨by simp [List.lookup], hc⟩
    | none =>
      refine ⟨by simp [List.lookup], ?_⟩
      intro k n h
      simp only [List.lookup] at h
      by_cases hk : k = v.val
      · subst hk; simp at h; exact h.symm
      · have : (k == v.val) = false := by simp [hk]
        simp [this] at h
        exact hc k n h

/-- before the repair it did: `Int(1.0)` raises in a fresh manager and returns the node `1` once `Int(1)` exists -/
theorem const_cache_dep_old :
    (mkIntOld (.float 1) []).1 = .error () ∧ (mkIntOld (.float 1) (mkIntOld (.int 1) []).2).1 = .ok 1 :=
  ⟨rfl, rfl⟩

/-! ### tagged key spaces (`SizeOracle._get_key = (measure, formula)`) -/

section
variable {N R E T α : Type} [DecidableEq N] [DecidableEq T]

theorem collect_congr (sp sp' : α → Except E R) (l : List α) (h : ∀ a ∈ l, sp a = sp' a) :
    collect sp l = collect sp' l := by
  induction l with
  | nil => rfl
  | cons a l ih =>
    simp only [collect]
    rw [ih (fun a' ha' => h a' (List.mem_cons_of_mem _ ha')), h a List.mem_cons_self]

/-- The specification over the key space `(tag, node)` is, for each tag, the specification over the nodes with
    that tag's callback: entries memoised for one measure say nothing about another. -/
theorem tagged_spec (g : Graph N) (d : N → Bool) (f : T × N → List R → Except E R) (t : T) :
    ∀ k n, g.rank n < k →
      spec (g.tagged T) (fun p => d p.2) f (t, n) = spec g d (fun n args => f (t, n) args) n := by
  intro k
  induction k with
  | zero => intro n h; omega
  | succ k ih =>
    intro n hn
    rw [spec_eq, spec_eq]
    have hk : kids (g.tagged T) (fun p => d p.2) (t, n) = (kids g d n).map (fun c => (t, c)) := by
      unfold kids
      by_cases hd : d n <;> simp [hd, Graph.tagged]
    rw [hk, collect_map]
    have : collect (fun a => spec (g.tagged T) (fun p => d p.2) f (t, a)) (kids g d n)
        = collect (spec g d (fun n args => f (t, n) args)) (kids g d n) := by
      apply collect_congr
      intro c hc
      have := kids_rank g d n c hc
      exact ih c (by omega)
    rw [this]

/-- **size_measure_indep** (C14): with keys `(measure, formula)` the result for measure `t` is the specification
    of measure `t` alone, whatever was memoised -- for this or any other measure -- before. -/
theorem size_measure_indep {M : Type} [MemoLike M (T × N) R] [LawfulMemo M (T × N) R]
    (g : Graph N) (d : N → Bool) (f : T × N → List R → Except E R) (inval : Bool) (fuel : Nat) (t : T) (n : N)
    (s : WState M (T × N)) (hi : Idle (g.tagged T) (fun p => d p.2) f s) (V : List (T × N))
    (hV : Covers (g.tagged T) (fun p => d p.2) (t, n) V) (hfuel : 2 * cost (g.tagged T) V + 2 ≤ fuel) :
    (walk (g.tagged T) (fun p => d p.2) (fun _ => f) inval false fuel (t, n) s).1
      = ofSpec (spec g d (fun n args => f (t, n) args) n) := by
  rw [walk_correct (g.tagged T) (fun p => d p.2) f inval false fuel (t, n) s hi V hV hfuel,
      tagged_spec g d f t (g.rank n + 1) n (Nat.lt_succ_self _)]

end

end PySMT.Walker

/-! ### the driver's memo is lawful: the theorems apply to the instantiation that the driver executes -/

namespace PySMT.WalkerDriver
open PySMT.Walker

instance : LawfulMemo HMemo Nat Nat where
  look_empty := by intro n; show (({} : HMemo)[n]?) = none; simp
  look_insert := by
    intro m n r x
    show (m.insert n r)[x]? = if x = n then some r else m[x]?
    rw [Std.HashMap.getElem?_insert]
    by_cases h : x = n
    · subst h; simp
    · have : ¬ n = x := fun h' => h h'.symm
      simp [h, this]

/-- the driver's fault-injecting callback is a refinement of its fault-free hash callback: the C15 theorems apply to
    every `w<n>@<k>` / `w<n>!<nodes>` request -/
theorem cb_refines (failAt : Option Nat) (failNodes : List Nat) :
    Refines (cb failAt failNodes) (fun n args => .ok (hcb n args)) := by
  intro k n args r h
  unfold cb at h
  cases failAt with
  | none =>
    simp only [] at h
    split at h
    · cases h
    · exact h
  | some j =>
    simp only [] at h
    split at h
    · cases h
    · split at h
      · cases h
      · exact h

end PySMT.WalkerDriver
