import PySMT.Proofs.C08Agree3
import PySMT.Proofs.C08AgreeBV3
import PySMT.Proofs.C08AgreeSA
/-!
# C08/C09 agreement: all theory symbols of the fragment in one statement (`apply_agree`)
-/
namespace PySMT.Parser.Agree
open PySMT PySMT.Parser PySMT.Std PySMT.Sexp

/-- theory symbols of plain applications in the fragment -/
def fragOps : List String :=
  ["not", "and", "or", "=>", "xor", "=", "distinct", "ite",
   "+", "*", "-", "/", "<=", "<", ">=", ">", "to_real",
   "bvnot", "bvneg", "bv2nat", "bvcomp", "concat",
   "bvand", "bvor", "bvadd", "bvmul",
   "bvxor", "bvsub", "bvudiv", "bvurem", "bvshl", "bvlshr", "bvashr", "bvsdiv", "bvsrem",
   "bvnand", "bvnor", "bvxnor",
   "bvult", "bvule", "bvugt", "bvuge", "bvslt", "bvsle", "bvsgt", "bvsge",
   "str.++", "str.len", "str.at", "str.substr", "str.indexof", "str.replace", "str.prefixof", "str.suffixof", "str.contains",
   "select", "store"]

/-- operators of the fragment that take exactly two arguments there (the standard chains or left-associates some of them;
pySMT's constructors are binary) -/
def binaryOnly : List String :=
  ["=>", "xor", "=", "distinct", "/", "<=", "<", ">=", ">",
   "bvxor", "bvsub", "bvudiv", "bvurem", "bvshl", "bvlshr", "bvashr", "bvsdiv", "bvsrem"]

def arityOK (f : String) (n : Nat) : Bool :=
  if binaryOnly.contains f then n == 2
  else if f == "-" then n == 1 || n == 2
  else true

/-- the function the parser's table binds to a token -/
def opFn (f : String) : Option Fn := (tableLookup f).bind fnOfEntry

theorem opFn_of {f : String} {e : Gen.ParserOps.Entry} {fn : Fn} (h : tableLookup f = some e)
    (h2 : fnOfEntry e = some fn) : opFn f = some fn := by
  simp [opFn, h, h2]

theorem two_of_arity {f : String} {as : List TT} (hb : binaryOnly.contains f = true) (h : arityOK f as.length = true) :
    ∃ a b, as = [a, b] := by
  simp only [arityOK, hb, if_true, beq_iff_eq] at h
  match as, h with
  | [a, b], _ => exact ⟨a, b, rfl⟩

set_option maxHeartbeats 1000000 in
theorem apply_agree (f : String) (hf : f ∈ fragOps) (as : List TT) (har : arityOK f as.length = true)
    (hminus : f = "-" → ∀ a, as = [a] → (isNumConst a.1).isSome = true)
    (u : Term) (τ : Ty) (hargs : ∀ a ∈ as, TOK (mkNorm a.1) a.2) (hstd : applyTheory f as = .ok (u, τ)) :
    ∃ fn, opFn f = some fn ∧ Agrees fn as u τ := by
  simp only [fragOps, List.mem_cons, List.mem_nil_iff, or_false] at hf
  rcases hf with rfl | rfl | rfl | rfl | rfl | rfl | rfl | rfl | rfl | rfl | rfl | rfl | rfl | rfl | rfl | rfl | rfl
    | rfl | rfl | rfl | rfl | rfl | rfl | rfl | rfl | rfl | rfl | rfl | rfl | rfl | rfl | rfl | rfl | rfl | rfl
    | rfl | rfl | rfl | rfl | rfl | rfl | rfl | rfl | rfl | rfl | rfl | rfl | rfl | rfl | rfl | rfl | rfl | rfl | rfl | rfl
    | rfl | rfl
  · exact ⟨.mgr "Not", opFn_of (e := .mgr "Not") (by decide) rfl, ag_not as u τ hargs hstd⟩
  · exact ⟨.mgr "And", opFn_of (e := .mgr "And") (by decide) rfl, ag_and as u τ hargs hstd⟩
  · exact ⟨.mgr "Or", opFn_of (e := .mgr "Or") (by decide) rfl, ag_or as u τ hargs hstd⟩
  · obtain ⟨a, b, rfl⟩ := two_of_arity (by decide) har
    exact ⟨.mgr "Implies", opFn_of (e := .mgr "Implies") (by decide) rfl, ag_implies a b u τ (hargs a (by simp)) (hargs b (by simp)) hstd⟩
  · obtain ⟨a, b, rfl⟩ := two_of_arity (by decide) har
    exact ⟨.mgr "Xor", opFn_of (e := .mgr "Xor") (by decide) rfl, ag_xor a b u τ (hargs a (by simp)) (hargs b (by simp)) hstd⟩
  · obtain ⟨a, b, rfl⟩ := two_of_arity (by decide) har
    exact ⟨.special "_equals_or_iff", opFn_of (e := .special "_equals_or_iff") (by decide) rfl, ag_eq a b u τ (hargs a (by simp)) (hargs b (by simp)) hstd⟩
  · obtain ⟨a, b, rfl⟩ := two_of_arity (by decide) har
    exact ⟨.fixReal "AllDifferent", opFn_of (e := .fixReal "AllDifferent") (by decide) rfl, ag_distinct a b u τ (hargs a (by simp)) (hargs b (by simp)) hstd⟩
  · exact ⟨.fixReal "Ite", opFn_of (e := .fixReal "Ite") (by decide) rfl, ag_ite as u τ hargs hstd⟩
  · exact ⟨.fixReal "Plus", opFn_of (e := .fixReal "Plus") (by decide) rfl, ag_plus as u τ hargs hstd⟩
  · exact ⟨.fixReal "Times", opFn_of (e := .fixReal "Times") (by decide) rfl, ag_times as u τ hargs hstd⟩
  · -- "-"
    have hl : as.length = 1 ∨ as.length = 2 := by
      simpa [arityOK, binaryOnly] using har
    rcases hl with hl | hl
    · match as, hl with
      | [a], _ =>
        exact ⟨.special "_minus_or_uminus", opFn_of (e := .special "_minus_or_uminus") (by decide) rfl, ag_minus1 a u τ (hminus rfl a rfl) hstd⟩
    · match as, hl with
      | [a, b], _ =>
        exact ⟨.special "_minus_or_uminus", opFn_of (e := .special "_minus_or_uminus") (by decide) rfl, ag_minus2 a b u τ (hargs a (by simp)) (hargs b (by simp)) hstd⟩
  · obtain ⟨a, b, rfl⟩ := two_of_arity (by decide) har
    exact ⟨.special "_division", opFn_of (e := .special "_division") (by decide) rfl, ag_div a b u τ (hargs a (by simp)) (hargs b (by simp)) hstd⟩
  · obtain ⟨a, b, rfl⟩ := two_of_arity (by decide) har
    exact ⟨.fixReal "LE", opFn_of (e := .fixReal "LE") (by decide) rfl, ag_le a b u τ (hargs a (by simp)) (hargs b (by simp)) hstd⟩
  · obtain ⟨a, b, rfl⟩ := two_of_arity (by decide) har
    exact ⟨.fixReal "LT", opFn_of (e := .fixReal "LT") (by decide) rfl, ag_lt a b u τ (hargs a (by simp)) (hargs b (by simp)) hstd⟩
  · obtain ⟨a, b, rfl⟩ := two_of_arity (by decide) har
    exact ⟨.fixReal "GE", opFn_of (e := .fixReal "GE") (by decide) rfl, ag_ge a b u τ (hargs a (by simp)) (hargs b (by simp)) hstd⟩
  · obtain ⟨a, b, rfl⟩ := two_of_arity (by decide) har
    exact ⟨.fixReal "GT", opFn_of (e := .fixReal "GT") (by decide) rfl, ag_gt a b u τ (hargs a (by simp)) (hargs b (by simp)) hstd⟩
  · exact ⟨.mgr "ToReal", opFn_of (e := .mgr "ToReal") (by decide) rfl, ag_toreal as u τ hargs hstd⟩
  · exact ⟨.mgr "BVNot", opFn_of (e := .mgr "BVNot") (by decide) rfl, ag_bvnot as u τ hargs hstd⟩
  · exact ⟨.mgr "BVNeg", opFn_of (e := .mgr "BVNeg") (by decide) rfl, ag_bvneg as u τ hargs hstd⟩
  · exact ⟨.mgr "BVToNatural", opFn_of (e := .mgr "BVToNatural") (by decide) rfl, ag_bv2nat as u τ hargs hstd⟩
  · exact ⟨.mgr "BVComp", opFn_of (e := .mgr "BVComp") (by decide) rfl, ag_bvcomp as u τ hargs hstd⟩
  · exact ⟨.mgr "BVConcat", opFn_of (e := .mgr "BVConcat") (by decide) rfl, ag_concat_nary as u τ hargs hstd⟩
  · exact ⟨.mgr "BVAnd", opFn_of (e := .mgr "BVAnd") (by decide) rfl, ag_bvnary "bvand" "BVAnd" (by decide) as u τ hargs hstd⟩
  · exact ⟨.mgr "BVOr", opFn_of (e := .mgr "BVOr") (by decide) rfl, ag_bvnary "bvor" "BVOr" (by decide) as u τ hargs hstd⟩
  · exact ⟨.mgr "BVAdd", opFn_of (e := .mgr "BVAdd") (by decide) rfl, ag_bvnary "bvadd" "BVAdd" (by decide) as u τ hargs hstd⟩
  · exact ⟨.mgr "BVMul", opFn_of (e := .mgr "BVMul") (by decide) rfl, ag_bvnary "bvmul" "BVMul" (by decide) as u τ hargs hstd⟩
  · obtain ⟨a, b, rfl⟩ := two_of_arity (by decide) har
    exact ⟨.mgr "BVXor", opFn_of (e := .mgr "BVXor") (by decide) rfl, ag_bvbin "bvxor" "BVXor" (by decide) a b u τ (hargs a (by simp)) (hargs b (by simp)) hstd⟩
  · obtain ⟨a, b, rfl⟩ := two_of_arity (by decide) har
    exact ⟨.mgr "BVSub", opFn_of (e := .mgr "BVSub") (by decide) rfl, ag_bvbin "bvsub" "BVSub" (by decide) a b u τ (hargs a (by simp)) (hargs b (by simp)) hstd⟩
  · obtain ⟨a, b, rfl⟩ := two_of_arity (by decide) har
    exact ⟨.mgr "BVUDiv", opFn_of (e := .mgr "BVUDiv") (by decide) rfl, ag_bvbin "bvudiv" "BVUDiv" (by decide) a b u τ (hargs a (by simp)) (hargs b (by simp)) hstd⟩
  · obtain ⟨a, b, rfl⟩ := two_of_arity (by decide) har
    exact ⟨.mgr "BVURem", opFn_of (e := .mgr "BVURem") (by decide) rfl, ag_bvbin "bvurem" "BVURem" (by decide) a b u τ (hargs a (by simp)) (hargs b (by simp)) hstd⟩
  · obtain ⟨a, b, rfl⟩ := two_of_arity (by decide) har
    exact ⟨.mgr "BVLShl", opFn_of (e := .mgr "BVLShl") (by decide) rfl, ag_bvbin "bvshl" "BVLShl" (by decide) a b u τ (hargs a (by simp)) (hargs b (by simp)) hstd⟩
  · obtain ⟨a, b, rfl⟩ := two_of_arity (by decide) har
    exact ⟨.mgr "BVLShr", opFn_of (e := .mgr "BVLShr") (by decide) rfl, ag_bvbin "bvlshr" "BVLShr" (by decide) a b u τ (hargs a (by simp)) (hargs b (by simp)) hstd⟩
  · obtain ⟨a, b, rfl⟩ := two_of_arity (by decide) har
    exact ⟨.mgr "BVAShr", opFn_of (e := .mgr "BVAShr") (by decide) rfl, ag_bvbin "bvashr" "BVAShr" (by decide) a b u τ (hargs a (by simp)) (hargs b (by simp)) hstd⟩
  · obtain ⟨a, b, rfl⟩ := two_of_arity (by decide) har
    exact ⟨.mgr "BVSDiv", opFn_of (e := .mgr "BVSDiv") (by decide) rfl, ag_bvbin "bvsdiv" "BVSDiv" (by decide) a b u τ (hargs a (by simp)) (hargs b (by simp)) hstd⟩
  · obtain ⟨a, b, rfl⟩ := two_of_arity (by decide) har
    exact ⟨.mgr "BVSRem", opFn_of (e := .mgr "BVSRem") (by decide) rfl, ag_bvbin "bvsrem" "BVSRem" (by decide) a b u τ (hargs a (by simp)) (hargs b (by simp)) hstd⟩
  · exact ⟨.mgr "BVNand", opFn_of (e := .mgr "BVNand") (by decide) rfl, ag_bvnotbin "bvnand" "BVNand" (by decide) as u τ hargs hstd⟩
  · exact ⟨.mgr "BVNor", opFn_of (e := .mgr "BVNor") (by decide) rfl, ag_bvnotbin "bvnor" "BVNor" (by decide) as u τ hargs hstd⟩
  · exact ⟨.mgr "BVXnor", opFn_of (e := .mgr "BVXnor") (by decide) rfl, ag_bvnotbin "bvxnor" "BVXnor" (by decide) as u τ hargs hstd⟩
  · exact ⟨.mgr "BVULT", opFn_of (e := .mgr "BVULT") (by decide) rfl, ag_bvrel "bvult" "BVULT" (by decide) as u τ hargs hstd⟩
  · exact ⟨.mgr "BVULE", opFn_of (e := .mgr "BVULE") (by decide) rfl, ag_bvrel "bvule" "BVULE" (by decide) as u τ hargs hstd⟩
  · exact ⟨.mgr "BVUGT", opFn_of (e := .mgr "BVUGT") (by decide) rfl, ag_bvrel "bvugt" "BVUGT" (by decide) as u τ hargs hstd⟩
  · exact ⟨.mgr "BVUGE", opFn_of (e := .mgr "BVUGE") (by decide) rfl, ag_bvrel "bvuge" "BVUGE" (by decide) as u τ hargs hstd⟩
  · exact ⟨.mgr "BVSLT", opFn_of (e := .mgr "BVSLT") (by decide) rfl, ag_bvrel "bvslt" "BVSLT" (by decide) as u τ hargs hstd⟩
  · exact ⟨.mgr "BVSLE", opFn_of (e := .mgr "BVSLE") (by decide) rfl, ag_bvrel "bvsle" "BVSLE" (by decide) as u τ hargs hstd⟩
  · exact ⟨.mgr "BVSGT", opFn_of (e := .mgr "BVSGT") (by decide) rfl, ag_bvrel "bvsgt" "BVSGT" (by decide) as u τ hargs hstd⟩
  · exact ⟨.mgr "BVSGE", opFn_of (e := .mgr "BVSGE") (by decide) rfl, ag_bvrel "bvsge" "BVSGE" (by decide) as u τ hargs hstd⟩
  · exact ⟨.mgr "StrConcat", opFn_of (e := .mgr "StrConcat") (by decide) rfl, ag_strconcat as u τ hargs hstd⟩
  · exact ⟨.mgr "StrLength", opFn_of (e := .mgr "StrLength") (by decide) rfl, ag_str "str.len" "StrLength" (by decide) as u τ hargs hstd⟩
  · exact ⟨.mgr "StrCharAt", opFn_of (e := .mgr "StrCharAt") (by decide) rfl, ag_str "str.at" "StrCharAt" (by decide) as u τ hargs hstd⟩
  · exact ⟨.mgr "StrSubstr", opFn_of (e := .mgr "StrSubstr") (by decide) rfl, ag_str "str.substr" "StrSubstr" (by decide) as u τ hargs hstd⟩
  · exact ⟨.mgr "StrIndexOf", opFn_of (e := .mgr "StrIndexOf") (by decide) rfl, ag_str "str.indexof" "StrIndexOf" (by decide) as u τ hargs hstd⟩
  · exact ⟨.mgr "StrReplace", opFn_of (e := .mgr "StrReplace") (by decide) rfl, ag_str "str.replace" "StrReplace" (by decide) as u τ hargs hstd⟩
  · exact ⟨.mgr "StrPrefixOf", opFn_of (e := .mgr "StrPrefixOf") (by decide) rfl, ag_str "str.prefixof" "StrPrefixOf" (by decide) as u τ hargs hstd⟩
  · exact ⟨.mgr "StrSuffixOf", opFn_of (e := .mgr "StrSuffixOf") (by decide) rfl, ag_str "str.suffixof" "StrSuffixOf" (by decide) as u τ hargs hstd⟩
  · exact ⟨.mgr "StrContains", opFn_of (e := .mgr "StrContains") (by decide) rfl, ag_str "str.contains" "StrContains" (by decide) as u τ hargs hstd⟩
  · exact ⟨.mgr "Select", opFn_of (e := .mgr "Select") (by decide) rfl, ag_select as u τ hargs hstd⟩
  · exact ⟨.mgr "Store", opFn_of (e := .mgr "Store") (by decide) rfl, ag_store as u τ hargs hstd⟩

/-- facts about the tokens: each is its own symbol name and its own pySMT token, a theory symbol, and none of the words
the readers treat specially -/
def opTokFacts (f : String) : Bool :=
  symName? f == some f && pyTok f == f && theorySymbols.contains f && f != "let" && f != "forall" && f != "exists"
    && f != "!" && f != "_" && f != "as" && f != "match" && f != "par" && (opFn f).isSome
    && (match tableLookup f with | some (.handler _) => false | some _ => true | none => false)

theorem fragOps_facts : ∀ f ∈ fragOps, opTokFacts f = true := by decide +kernel

end PySMT.Parser.Agree
