import PySMT.Proofs.C11Cnf
import PySMT.Impl.Rewritings.Ackermann
/-!
# C11 — Ackermannization (`Ackermann.ack`)

* `ack_noApp`       : the result contains no function application.
* `ack_complete`    : `I ⊨ t` ⇒ `I` extended by `c_app ↦ eval I app` satisfies `ack t`.
* `ack_sound`       : `J ⊨ ack t` ⇒ for the functions read off the fresh constants
                      (`recover`), `J[fn := recover] ⊨ t`.
* `eval_eq_symm`, `eval_iff_symm` : the symmetric comparison K uses.
-/
namespace PySMT.Ackermann
open PySMT.CNF

/-! ## unfolding -/

theorem sub_function (E : Env) (args : List Term) (p : Payload) :
    sub E (.node .function args p) = Term.sym (E.key (.node .function args p)) := by
  rw [sub.eq_def]

theorem sub_plain (E : Env) (op : Op) (args : List Term) (p : Payload) (h : op ≠ .function) :
    sub E (.node op args p) = .node op (args.map (sub E)) p := by
  rw [sub.eq_def]
  cases op <;> first | rfl | exact absurd rfl h

theorem apps_node (op : Op) (args : List Term) (p : Payload) :
    apps (.node op args p) =
      (args.map apps).flatten ++ (if op == .function then [.node op args p] else []) := by
  rw [apps.eq_def]

theorem apps_self (args : List Term) (p : Payload) :
    Term.node .function args p ∈ apps (.node .function args p) := by
  rw [apps_node]; simp

theorem apps_child {op : Op} {args : List Term} {p : Payload} {a x : Term} (ha : a ∈ args)
    (hx : x ∈ apps a) : x ∈ apps (.node op args p) := by
  rw [apps_node]
  refine List.mem_append_left _ ?_
  simp only [List.mem_flatten, List.mem_map]
  exact ⟨apps a, ⟨a, ha, rfl⟩, hx⟩

theorem apps_op : (t : Term) → ∀ x ∈ apps t, x.op = .function
  | .node op args p => by
    intro x hx
    rw [apps_node] at hx
    rcases List.mem_append.mp hx with h | h
    · simp only [List.mem_flatten, List.mem_map] at h
      obtain ⟨_, ⟨a, ha, rfl⟩, hxa⟩ := h
      exact apps_op a x hxa
    · split at h
      · next hop =>
        simp only [List.mem_cons, List.mem_nil_iff, or_false] at h
        subst h
        simpa [Term.op] using hop
      · cases h

theorem apps_subterms : (t : Term) → ∀ x ∈ apps t, x ∈ t.subterms
  | .node op args p => by
    intro x hx
    rw [apps_node] at hx
    rcases List.mem_append.mp hx with h | h
    · simp only [List.mem_flatten, List.mem_map] at h
      obtain ⟨_, ⟨a, ha, rfl⟩, hxa⟩ := h
      exact subterms_child ha (apps_subterms a x hxa)
    · split at h
      · simp only [List.mem_cons, List.mem_nil_iff, or_false] at h
        subst h
        exact subterms_self _
      · cases h

theorem subterms_cases {op : Op} {args : List Term} {p : Payload} {h : Term}
    (hh : h ∈ (Term.node op args p).subterms) : h = .node op args p ∨ ∃ a ∈ args, h ∈ a.subterms := by
  simp only [Term.subterms, List.mem_cons, List.mem_flatten, List.mem_map] at hh
  rcases hh with rfl | ⟨_, ⟨a, ha, rfl⟩, hha⟩
  · exact Or.inl rfl
  · exact Or.inr ⟨a, ha, hha⟩

theorem subterms_trans' : (t : Term) → ∀ (a h : Term), a ∈ t.subterms → h ∈ a.subterms → h ∈ t.subterms
  | .node op args p => by
    intro a h ha hh
    rcases subterms_cases ha with rfl | ⟨b, hb, hab⟩
    · exact hh
    · exact subterms_child hb (subterms_trans' b a h hab hh)

theorem subterms_trans (t : Term) {a h : Term} (ha : a ∈ t.subterms) (hh : h ∈ a.subterms) : h ∈ t.subterms :=
  subterms_trans' t a h ha hh

theorem apps_of_subterm' : (t : Term) → ∀ (h x : Term), h ∈ t.subterms → x ∈ apps h → x ∈ apps t
  | .node op args p => by
    intro h x hh hx
    rcases subterms_cases hh with rfl | ⟨b, hb, hhb⟩
    · exact hx
    · exact apps_child hb (apps_of_subterm' b h x hhb hx)

theorem apps_of_subterm (t : Term) {h x : Term} (hh : h ∈ t.subterms) (hx : x ∈ apps h) : x ∈ apps t :=
  apps_of_subterm' t h x hh hx

theorem qf_subterm {t h : Term} (hq : t.isQF = true) (hh : h ∈ t.subterms) : h.op.isQuantifier = false := by
  simp only [Term.isQF, List.all_eq_true, Bool.not_eq_true'] at hq
  exact hq h hh

theorem wt_subterm : (t : Term) → t.wt = true → ∀ h ∈ t.subterms, h.wt = true
  | .node op args p => by
    intro hwt h hh
    rcases subterms_cases hh with rfl | ⟨b, hb, hhb⟩
    · exact hwt
    · exact wt_subterm b (Term.wt_child hwt b hb) h hhb

/-- in a quantifier-free well-typed term the free symbols of a sub-term are free in the term -/
theorem fv_subterm : (t : Term) → t.wt = true → t.isQF = true → ∀ h ∈ t.subterms, ∀ s ∈ h.fv, s ∈ t.fv
  | .node op args p => by
    intro hwt hq h hh s hs
    rcases subterms_cases hh with rfl | ⟨b, hb, hhb⟩
    · exact hs
    · have hbq : b.isQF = true := by
        simp only [Term.isQF, List.all_eq_true] at hq ⊢
        exact fun x hx => hq x (subterms_child hb hx)
      have := fv_subterm b (Term.wt_child hwt b hb) hbq h hhb s hs
      refine fv_child hb this ?_ (qf_subterm hq (subterms_self _))
      rintro rfl
      have := Term.wt_symbol_args hwt
      subst this
      cases hb

/-- a well-typed application node carries its function symbol and has as many arguments as the
symbol has parameters -/
theorem wt_function {args : List Term} {p : Payload} (h : (Term.node .function args p).wt = true) :
    ∃ f, p = .sym f ∧ args.length = f.params.length ∧ args.map Term.typeOf = f.params.map some ∧
      (Term.node .function args p).typeOf = some f.ret := by
  have h2 := Term.wt_typeOf h
  rw [typeOfNode_function_eq] at h2
  split at h2
  · next f =>
    refine ⟨f, rfl, ?_⟩
    split at h2
    · next hc =>
      refine ⟨by simpa using hc.1, hc.2, ?_⟩
      rw [typeOf_node, typeOfNode_function_eq]
      simp [hc]
    · simp at h2
  · simp at h2

theorem typeOf_sym (s : Sym) (h : s.params = []) : (Term.sym s).typeOf = some s.ret := by
  simp only [Term.sym, typeOf_node, List.map_nil, typeOfNode_symbol_eq, h, List.isEmpty_nil, if_true]

/-- the fresh constant of an application has the sort of the application -/
def KeyTyped (E : Env) (t : Term) : Prop := ∀ a ∈ apps t, (E.key a).params = [] ∧ (E.key a).ret = retTy a

theorem typeOf_sub (E : Env) : (w : Term) → w.wt = true →
    (∀ a ∈ apps w, (E.key a).params = [] ∧ (E.key a).ret = retTy a) → (sub E w).typeOf = w.typeOf
  | .node op args p => by
    intro hwt hk
    have ih : ∀ a ∈ args, (sub E a).typeOf = a.typeOf := fun a ha =>
      typeOf_sub E a (Term.wt_child hwt a ha) (fun x hx => hk x (apps_child ha hx))
    by_cases hfun : op = .function
    · subst hfun
      obtain ⟨f, rfl, _, _, hty⟩ := wt_function hwt
      have := hk _ (apps_self args (.sym f))
      rw [sub_function, typeOf_sym _ this.1, this.2, hty]
      rfl
    · rw [sub_plain E op args p hfun, typeOf_node, typeOf_node, List.map_map]
      congr 1
      apply List.map_congr_left
      intro a ha
      exact ih a ha

/-! ## semantics of `=` / `iff` / `eqOrIff` -/

theorem tv_eq (I : Interp) (a b : Term) : tv I (Term.mkEq a b) = decide (eval I a = eval I b) := by
  simp only [tv, Term.mkEq, eval_plain I .equals [a, b] .none (by simp) (by simp) rfl, List.map_cons,
    List.map_nil, evalOp, isTrue_b]

theorem tv_mkIff (I : Interp) (a b : Term) : tv I (Term.mkIff a b) = (tv I a == tv I b) := tv_iff_node I a b .none

theorem tv_eqOrIff_of_eq (I : Interp) (a b : Term) (h : eval I a = eval I b) : tv I (eqOrIff a b) = true := by
  unfold eqOrIff
  split
  · rw [tv_mkIff]; simp [tv, h]
  · rw [tv_eq]; simp [h]

/-- K compares `=` and `iff` up to the order of their two arguments -/
theorem eval_eq_symm (I : Interp) (a b : Term) (p : Payload) :
    eval I (.node .equals [a, b] p) = eval I (.node .equals [b, a] p) := by
  simp only [eval_plain I .equals _ p (by simp) (by simp) rfl, List.map_cons, List.map_nil, evalOp]
  congr 1
  exact decide_eq_decide.mpr eq_comm

theorem eval_iff_symm (I : Interp) (a b : Term) (p : Payload) :
    eval I (.node .iff [a, b] p) = eval I (.node .iff [b, a] p) := by
  simp only [eval_plain I .iff _ p (by simp) (by simp) rfl, List.map_cons, List.map_nil, evalOp]
  congr 1
  exact Bool.beq_comm

/-! ## shape -/

theorem sub_noApp (E : Env) : (t : Term) → ∀ h ∈ (sub E t).subterms, h.op ≠ .function
  | .node op args p => by
    intro h hh
    by_cases hop : op = .function
    · subst hop
      rw [sub_function] at hh
      simp only [Term.sym, Term.subterms, List.map_nil, List.flatten_nil, List.mem_cons,
        List.mem_nil_iff, or_false] at hh
      subst hh
      simp [Term.op]
    · rw [sub_plain E op args p hop] at hh
      rcases subterms_cases hh with rfl | ⟨b, hb, hhb⟩
      · simpa [Term.op] using hop
      · obtain ⟨a, ha, rfl⟩ := List.mem_map.mp hb
        exact sub_noApp E a h hhb

def NoApp (t : Term) : Prop := ∀ h ∈ t.subterms, h.op ≠ .function

theorem noApp_iff (t : Term) : noApp t = true ↔ NoApp t := by
  simp only [noApp, List.all_eq_true, bne_iff_ne, NoApp]

theorem noApp_node {op : Op} {args : List Term} {p : Payload} (hop : op ≠ .function)
    (h : ∀ a ∈ args, NoApp a) : NoApp (.node op args p) := by
  intro x hx
  rcases subterms_cases hx with rfl | ⟨b, hb, hxb⟩
  · simpa [Term.op] using hop
  · exact h b hb x hxb

theorem noApp_sym (s : Sym) : NoApp (Term.sym s) := noApp_node (by simp) (by simp)

theorem noApp_mkAndN (l : List Term) (h : ∀ a ∈ l, NoApp a) : NoApp (mkAndN l) := by
  unfold mkAndN
  split
  · exact noApp_node (by simp) (by simp)
  · exact h _ (by simp)
  · exact noApp_node (by simp) h

theorem noApp_eqOrIff (a b : Term) (ha : NoApp a) (hb : NoApp b) : NoApp (eqOrIff a b) := by
  unfold eqOrIff
  split
  · exact noApp_node (by simp) (by simpa using ⟨ha, hb⟩)
  · exact noApp_node (by simp) (by simpa using ⟨ha, hb⟩)

theorem mem_zipWith {α β γ} {f : α → β → γ} : ∀ {l₁ : List α} {l₂ : List β} {z : γ},
    z ∈ List.zipWith f l₁ l₂ → ∃ x ∈ l₁, ∃ y ∈ l₂, z = f x y
  | [], _, z, h => by simp at h
  | _ :: _, [], z, h => by simp at h
  | x :: xs, y :: ys, z, h => by
    simp only [List.zipWith_cons_cons, List.mem_cons] at h
    rcases h with rfl | h
    · exact ⟨x, by simp, y, by simp, rfl⟩
    · obtain ⟨x', hx', y', hy', e⟩ := mem_zipWith h
      exact ⟨x', by simp [hx'], y', by simp [hy'], e⟩

theorem implication_noApp (E : Env) (a b : Term) : NoApp (implication E a b) := by
  unfold implication
  refine noApp_node (by simp) ?_
  intro x hx
  simp only [List.mem_cons, List.mem_nil_iff, or_false] at hx
  rcases hx with rfl | rfl
  · apply noApp_mkAndN
    intro c hc
    rw [mem_dedup] at hc
    obtain ⟨x, _, y, _, rfl⟩ := mem_zipWith hc
    exact noApp_eqOrIff _ _ (sub_noApp E x) (sub_noApp E y)
  · exact noApp_eqOrIff _ _ (noApp_sym _) (noApp_sym _)

theorem mem_implications {E : Env} {t imp : Term} (h : imp ∈ implications E t) :
    ∃ a b, (a, b) ∈ pairs (appsD t) ∧ sameFn a b = true ∧ imp = implication E a b := by
  unfold implications at h
  rw [mem_dedup] at h
  obtain ⟨⟨a, b⟩, hab, rfl⟩ := List.mem_map.mp h
  obtain ⟨hp, hs⟩ := List.mem_filter.mp hab
  exact ⟨a, b, hp, hs, rfl⟩

theorem ack_noApp (E : Env) (t : Term) : NoApp (ack E t) := by
  unfold ack
  simp only
  split
  · exact sub_noApp E t
  · refine noApp_node (by simp) ?_
    intro x hx
    simp only [List.mem_cons, List.mem_nil_iff, or_false] at hx
    rcases hx with rfl | rfl
    · apply noApp_mkAndN
      intro imp himp
      obtain ⟨a, b, _, _, rfl⟩ := mem_implications himp
      exact implication_noApp E a b
    · exact sub_noApp E t

/-! ## truth value of `ack` -/

theorem tv_ack (E : Env) (I : Interp) (t : Term) :
    tv I (ack E t) = true ↔ (∀ imp ∈ implications E t, tv I imp = true) ∧ tv I (sub E t) = true := by
  unfold ack
  simp only
  split
  · next h =>
    simp only [List.isEmpty_iff] at h
    simp [h]
  · simp only [Term.mkAnd, tv_and, List.all_cons, List.all_nil, Bool.and_true, Bool.and_eq_true, tv_mkAndN,
      List.all_eq_true]

theorem mem_pairs {α} : ∀ {l : List α} {x y : α}, (x, y) ∈ pairs l → x ∈ l ∧ y ∈ l
  | [], _, _, h => by simp [pairs] at h
  | z :: zs, x, y, h => by
    simp only [pairs, List.mem_append, List.mem_map, Prod.mk.injEq] at h
    rcases h with ⟨w, hw, rfl, rfl⟩ | h
    · exact ⟨by simp, by simp [hw]⟩
    · have := mem_pairs h
      exact ⟨by simp [this.1], by simp [this.2]⟩

theorem pairs_total {α} : ∀ {l : List α} {x y : α}, x ∈ l → y ∈ l → x ≠ y → (x, y) ∈ pairs l ∨ (y, x) ∈ pairs l
  | [], _, _, h, _, _ => by cases h
  | z :: zs, x, y, hx, hy, hne => by
    simp only [pairs, List.mem_append, List.mem_map, Prod.mk.injEq]
    rcases List.mem_cons.mp hx with ex | hx'
    · rcases List.mem_cons.mp hy with ey | hy'
      · exact absurd (ex.trans ey.symm) hne
      · exact Or.inl (Or.inl ⟨y, hy', ex.symm, rfl⟩)
    · rcases List.mem_cons.mp hy with ey | hy'
      · exact Or.inr (Or.inl ⟨x, hx', ey.symm, rfl⟩)
      · rcases pairs_total hx' hy' hne with h | h
        · exact Or.inl (Or.inr h)
        · exact Or.inr (Or.inr h)

theorem zip_map_eq {α β} (f : α → β) : ∀ {l₁ l₂ : List α}, l₁.map f = l₂.map f →
    ∀ {γ} (g : α → α → γ) (z : γ), z ∈ List.zipWith g l₁ l₂ → ∃ x y, f x = f y ∧ z = g x y
  | [], _, _, _, _, _, h => by simp at h
  | _ :: _, [], he, _, _, _, _ => by simp at he
  | x :: xs, y :: ys, he, _, g, z, h => by
    simp only [List.map_cons, List.cons.injEq] at he
    simp only [List.zipWith_cons_cons, List.mem_cons] at h
    rcases h with rfl | h
    · exact ⟨x, y, he.1, rfl⟩
    · exact zip_map_eq f he.2 g z h

theorem map_eq_of_zip {α β} (f : α → β) : ∀ {l₁ l₂ : List α}, l₁.length = l₂.length →
    (∀ x y, (x, y) ∈ l₁.zip l₂ → f x = f y) → l₁.map f = l₂.map f
  | [], [], _, _ => rfl
  | [], _ :: _, h, _ => by simp at h
  | _ :: _, [], h, _ => by simp at h
  | x :: xs, y :: ys, hl, h => by
    simp only [List.map_cons, List.cons.injEq]
    refine ⟨h x y (by simp), map_eq_of_zip f (by simpa using hl) (fun a b hab => h a b ?_)⟩
    simp only [List.zip_cons_cons, List.mem_cons]
    exact Or.inr hab

theorem zip_map_eq' {α β} (f : α → β) : ∀ {l₁ l₂ : List α}, l₁.map f = l₂.map f →
    ∀ {x y : α}, (x, y) ∈ l₁.zip l₂ → f x = f y
  | [], _, _, _, _, h => by simp at h
  | _ :: _, [], _, _, _, h => by simp at h
  | a :: as, b :: bs, he, x, y, h => by
    simp only [List.map_cons, List.cons.injEq] at he
    simp only [List.zip_cons_cons, List.mem_cons, Prod.mk.injEq] at h
    rcases h with ⟨rfl, rfl⟩ | h
    · exact he.1
    · exact zip_map_eq' f he.2 h

theorem mem_zipWith_of_zip {α γ} (g : α → α → γ) : ∀ {l₁ l₂ : List α} {x y : α}, (x, y) ∈ l₁.zip l₂ →
    g x y ∈ List.zipWith g l₁ l₂
  | [], _, _, _, h => by simp at h
  | _ :: _, [], _, _, h => by simp at h
  | a :: as, b :: bs, x, y, h => by
    simp only [List.zip_cons_cons, List.mem_cons, Prod.mk.injEq] at h
    simp only [List.zipWith_cons_cons, List.mem_cons]
    rcases h with ⟨rfl, rfl⟩ | h
    · exact Or.inl rfl
    · exact Or.inr (mem_zipWith_of_zip g h)

/-! ## completeness -/

/-- `I` extended on the fresh constants: `u` maps a constant back to its application -/
def extA (u : Sym → Option Term) (I : Interp) : Interp :=
  { I with sym := fun s => match u s with | some a => eval I a | none => I.sym s }

theorem sub_complete (E : Env) (u : Sym → Option Term) (I : Interp) :
    (w : Term) → (∀ h ∈ w.subterms, h.op.isQuantifier = false) →
      (∀ a ∈ apps w, u (E.key a) = some a) → (∀ h ∈ w.subterms, ∀ s ∈ h.fv, u s = none) →
      eval (extA u I) (sub E w) = eval I w
  | .node op args p => by
    intro hq hk hf
    have ih : ∀ a ∈ args, eval (extA u I) (sub E a) = eval I a := fun a ha =>
      sub_complete E u I a (fun h hh => hq h (subterms_child ha hh)) (fun x hx => hk x (apps_child ha hx))
        (fun h hh => hf h (subterms_child ha hh))
    by_cases hfun : op = .function
    · subst hfun
      rw [sub_function]
      simp only [Term.sym, eval_symbol, extA, hk _ (apps_self args p)]
    · rw [sub_plain E op args p hfun]
      by_cases hsym : op = .symbol
      · subst hsym
        rw [eval_node, eval_node, evalNode_symbol, evalNode_symbol]
        cases p <;> try rfl
        next s =>
          have := hf _ (subterms_self _) s (by rw [fv_symbol]; exact List.mem_cons_self)
          simp only [extA, this]
      · have hq' := hq _ (subterms_self _)
        simp only [Term.op] at hq'
        rw [eval_plain _ op _ p hsym hfun hq', eval_plain _ op _ p hsym hfun hq',
          evalOp_congr (extA u I) I rfl rfl, List.map_map]
        congr 1
        apply List.map_congr_left
        intro a ha
        exact ih a ha

/-- hypotheses of the completeness direction, stated on the input term -/
structure CompleteHyp (E : Env) (u : Sym → Option Term) (I : Interp) (t : Term) : Prop where
  wt    : t.wt = true
  qf    : t.isQF = true
  key   : ∀ a ∈ apps t, u (E.key a) = some a
  fresh : ∀ s ∈ t.fv, u s = none
  keyTy : KeyTyped E t
  /-- a Boolean-sorted sub-term has a Boolean value (sort preservation of `eval`) -/
  bool  : ∀ x ∈ t.subterms, x.typeOf = some .bool → ∃ b, eval I x = .b b

theorem sub_complete_sub {E : Env} {u : Sym → Option Term} {I : Interp} {t : Term} (H : CompleteHyp E u I t)
    {w : Term} (hw : w ∈ t.subterms) : eval (extA u I) (sub E w) = eval I w :=
  sub_complete E u I w (fun _ hh => qf_subterm H.qf (subterms_trans t hw hh))
    (fun _ ha => H.key _ (apps_of_subterm t hw ha))
    (fun _ hh s hs => H.fresh s (fv_subterm t H.wt H.qf _ (subterms_trans t hw hh) s hs))

theorem args_subterms {op : Op} {args : List Term} {p : Payload} {x : Term} (hx : x ∈ args) :
    x ∈ (Term.node op args p).subterms := subterms_child hx (subterms_self x)

theorem tv_eqOrIff_complete {E : Env} {u : Sym → Option Term} {I : Interp} {x y : Term}
    (hx : eval (extA u I) (sub E x) = eval I x) (hy : eval (extA u I) (sub E y) = eval I y)
    (hbx : (sub E x).typeOf = some .bool → ∃ b, eval I x = .b b)
    (hby : (sub E x).typeOf = some .bool → ∃ b, eval I y = .b b)
    (h : tv (extA u I) (eqOrIff (sub E x) (sub E y)) = true) : eval I x = eval I y := by
  unfold eqOrIff at h
  split at h
  · next hb =>
    have hb' : (sub E x).typeOf = some .bool := by simpa using hb
    obtain ⟨b1, e1⟩ := hbx hb'
    obtain ⟨b2, e2⟩ := hby hb'
    rw [tv_mkIff, tv, tv, hx, hy, e1, e2] at h
    rw [e1, e2]
    simpa using h
  · rw [tv_eq, hx, hy] at h
    simpa using h

theorem implication_complete {E : Env} {u : Sym → Option Term} {I : Interp} {t : Term} (H : CompleteHyp E u I t)
    {a b : Term} (ha : a ∈ apps t) (hb : b ∈ apps t) (hs : sameFn a b = true) :
    tv (extA u I) (implication E a b) = true := by
  have hat := apps_subterms t a ha
  have hbt := apps_subterms t b hb
  have hopa := apps_op t a ha
  have hopb := apps_op t b hb
  cases a with
  | node opa as pa =>
  cases b with
  | node opb bs pb =>
  simp only [Term.op] at hopa hopb
  subst hopa hopb
  obtain ⟨f, rfl, hla, hta, _⟩ := wt_function (wt_subterm t H.wt _ hat)
  obtain ⟨g, rfl, hlb, htb, _⟩ := wt_function (wt_subterm t H.wt _ hbt)
  have hfg : f = g := by simpa [sameFn, Term.payload] using hs
  subst hfg
  unfold implication
  rw [Term.mkImplies, tv_implies]
  cases hleft : tv (extA u I) (mkAndN (dedup (List.zipWith (fun x y => eqOrIff (sub E x) (sub E y))
      (Term.node .function as (.sym f)).args (Term.node .function bs (.sym f)).args)))
  · rfl
  · simp only [Bool.not_true, Bool.false_or]
    rw [tv_mkAndN, List.all_eq_true] at hleft
    simp only [Term.args] at hleft
    have hargs : as.map (eval I) = bs.map (eval I) := by
      apply map_eq_of_zip _ (hla.trans hlb.symm)
      intro x y hxy
      have hx : x ∈ as := (List.of_mem_zip hxy).1
      have hy : y ∈ bs := (List.of_mem_zip hxy).2
      have := hleft _ ((mem_dedup _ _).mpr (mem_zipWith_of_zip (fun x y => eqOrIff (sub E x) (sub E y)) hxy))
      have hxt := subterms_trans t hat (args_subterms hx)
      have hyt := subterms_trans t hbt (args_subterms hy)
      have hsx : (sub E x).typeOf = x.typeOf :=
        typeOf_sub E x (wt_subterm t H.wt x hxt) (fun c hc => H.keyTy c (apps_of_subterm t hxt hc))
      have hxy' : x.typeOf = y.typeOf := zip_map_eq' Term.typeOf (hta.trans htb.symm) hxy
      exact tv_eqOrIff_complete (sub_complete_sub H hxt) (sub_complete_sub H hyt)
        (fun hb => H.bool x hxt (hsx ▸ hb)) (fun hb => H.bool y hyt (hxy' ▸ hsx ▸ hb)) this
    apply tv_eqOrIff_of_eq
    simp only [Term.sym, eval_symbol, extA, H.key _ ha, H.key _ hb]
    rw [eval_function, eval_function, hargs]

theorem ack_complete_core (E : Env) (u : Sym → Option Term) (I : Interp) (t : Term) (H : CompleteHyp E u I t)
    (hI : tv I t = true) : tv (extA u I) (ack E t) = true := by
  rw [tv_ack]
  refine ⟨?_, ?_⟩
  · intro imp himp
    obtain ⟨a, b, hp, hs, rfl⟩ := mem_implications himp
    have hab := mem_pairs hp
    have ha : a ∈ apps t := (mem_dedup _ _).mp hab.1
    have hb : b ∈ apps t := (mem_dedup _ _).mp hab.2
    exact implication_complete H ha hb hs
  · rw [tv, sub_complete_sub H (subterms_self t)]
    exact hI

/-! ## soundness -/

/-- the functions read off the fresh constants: `f(v̄)` is the value of the constant of an application
`f(ā)` of the input whose rewritten arguments evaluate to `v̄`; elsewhere `f` is as in `J` -/
def recover (E : Env) (t : Term) (J : Interp) (f : Sym) (vs : List Val) : Val :=
  match (appsD t).find? (fun a => a.payload == .sym f && a.args.map (fun x => eval J (sub E x)) == vs) with
  | some a => J.sym (E.key a)
  | none => J.fn f vs

def withFns (J : Interp) (F : Sym → List Val → Val) : Interp := { J with fn := F }

structure SoundHyp (E : Env) (J : Interp) (t : Term) : Prop where
  wt      : t.wt = true
  qf      : t.isQF = true
  keyTy   : KeyTyped E t
  /-- the constants of Boolean-valued applications (predicates) have Boolean values -/
  boolKey : ∀ a ∈ apps t, (E.key a).ret = .bool → ∃ b, J.sym (E.key a) = .b b
  holds   : tv J (ack E t) = true

theorem retTy_function (as : List Term) (f : Sym) : retTy (.node .function as (.sym f)) = f.ret := rfl

theorem implication_sound {E : Env} {J : Interp} {t : Term} (H : SoundHyp E J t) {a b : Term}
    (ha : a ∈ apps t) (hb : b ∈ apps t) (hs : sameFn a b = true)
    (hargs : a.args.map (fun x => eval J (sub E x)) = b.args.map (fun x => eval J (sub E x)))
    (himp : tv J (implication E a b) = true) : J.sym (E.key a) = J.sym (E.key b) := by
  have hopa := apps_op t a ha
  have hopb := apps_op t b hb
  cases a with
  | node opa as pa =>
  cases b with
  | node opb bs pb =>
  simp only [Term.op] at hopa hopb
  subst hopa hopb
  obtain ⟨f, rfl, _, _, _⟩ := wt_function (wt_subterm t H.wt _ (apps_subterms t _ ha))
  obtain ⟨g, rfl, _, _, _⟩ := wt_function (wt_subterm t H.wt _ (apps_subterms t _ hb))
  have hfg : f = g := by simpa [sameFn, Term.payload] using hs
  subst hfg
  unfold implication at himp
  rw [Term.mkImplies, tv_implies] at himp
  have hleft : tv J (mkAndN (dedup (List.zipWith (fun x y => eqOrIff (sub E x) (sub E y))
      (Term.node .function as (.sym f)).args (Term.node .function bs (.sym f)).args))) = true := by
    rw [tv_mkAndN, List.all_eq_true]
    intro z hz
    rw [mem_dedup] at hz
    simp only [Term.args] at hz hargs
    obtain ⟨x, y, hxy, rfl⟩ := zip_map_eq (fun x => eval J (sub E x)) hargs _ z hz
    exact tv_eqOrIff_of_eq J _ _ hxy
  rw [hleft] at himp
  simp only [Bool.not_true, Bool.false_or] at himp
  have hka := H.keyTy _ ha
  have hkb := H.keyTy _ hb
  rw [retTy_function] at hka hkb
  unfold eqOrIff at himp
  split at himp
  · next hty =>
    rw [typeOf_sym _ hka.1] at hty
    have hra : (E.key (Term.node .function as (.sym f))).ret = .bool := by simpa using hty
    have hrb : (E.key (Term.node .function bs (.sym f))).ret = .bool := by rw [hkb.2, ← hka.2, hra]
    obtain ⟨b1, e1⟩ := H.boolKey _ ha hra
    obtain ⟨b2, e2⟩ := H.boolKey _ hb hrb
    rw [tv_mkIff, tv_sym, tv_sym, e1, e2] at himp
    rw [e1, e2]
    simpa using himp
  · rw [tv_eq] at himp
    simpa [Term.sym, eval_symbol] using himp

theorem sub_sound {E : Env} {J : Interp} {t : Term} (H : SoundHyp E J t) :
    (w : Term) → w ∈ t.subterms → eval (withFns J (recover E t J)) w = eval J (sub E w)
  | .node op args p => by
    intro hw
    have ih : ∀ a ∈ args, eval (withFns J (recover E t J)) a = eval J (sub E a) := fun a ha =>
      sub_sound H a (subterms_trans t hw (args_subterms ha))
    by_cases hfun : op = .function
    · subst hfun
      obtain ⟨f, rfl, _, _, _⟩ := wt_function (wt_subterm t H.wt _ hw)
      have hwa : Term.node .function args (.sym f) ∈ apps t := apps_of_subterm t hw (apps_self _ _)
      have hwd : Term.node .function args (.sym f) ∈ appsD t := (mem_dedup _ _).mpr hwa
      rw [eval_function, sub_function]
      have hmap : args.map (eval (withFns J (recover E t J))) = args.map (fun x => eval J (sub E x)) :=
        List.map_congr_left ih
      rw [hmap]
      simp only [withFns, recover]
      cases hfind : (appsD t).find? (fun a => a.payload == .sym f &&
          a.args.map (fun x => eval J (sub E x)) == args.map (fun x => eval J (sub E x))) with
      | none =>
        have := List.find?_eq_none.mp hfind _ hwd
        simp [Term.payload, Term.args] at this
      | some a' =>
        have hp := List.find?_some hfind
        have ha'd := List.mem_of_find?_eq_some hfind
        have ha' : a' ∈ apps t := (mem_dedup _ _).mp ha'd
        simp only [Bool.and_eq_true, beq_iff_eq] at hp
        simp only [Term.sym, eval_symbol]
        by_cases hne : a' = Term.node .function args (.sym f)
        · rw [hne]
        · have hsame : sameFn a' (Term.node .function args (.sym f)) = true := by
            unfold sameFn; rw [hp.1]; simp [Term.payload]
          have hmem : ∀ x y : Term, (x, y) ∈ pairs (appsD t) → sameFn x y = true →
              implication E x y ∈ implications E t := by
            intro x y hxy hs
            unfold implications
            rw [mem_dedup]
            exact List.mem_map.mpr ⟨(x, y), List.mem_filter.mpr ⟨hxy, hs⟩, rfl⟩
          have himps := ((tv_ack E J t).mp H.holds).1
          rcases pairs_total ha'd hwd hne with hpr | hpr
          · exact implication_sound H ha' hwa hsame hp.2 (himps _ (hmem _ _ hpr hsame))
          · have hsame' : sameFn (Term.node .function args (.sym f)) a' = true := by
              unfold sameFn; rw [hp.1]; simp [Term.payload]
            exact (implication_sound H hwa ha' hsame' hp.2.symm (himps _ (hmem _ _ hpr hsame'))).symm
    · rw [sub_plain E op args p hfun]
      by_cases hsym : op = .symbol
      · subst hsym
        rw [eval_node, eval_node, evalNode_symbol, evalNode_symbol]
        rfl
      · have hq' := qf_subterm H.qf hw
        simp only [Term.op] at hq'
        rw [eval_plain _ op _ p hsym hfun hq', eval_plain _ op _ p hsym hfun hq',
          evalOp_congr (withFns J (recover E t J)) J rfl rfl, List.map_map]
        congr 1
        apply List.map_congr_left
        intro a ha
        exact ih a ha

theorem ack_sound_core (E : Env) (J : Interp) (t : Term) (H : SoundHyp E J t) :
    tv (withFns J (recover E t J)) t = true := by
  rw [tv, sub_sound H t (subterms_self t)]
  exact ((tv_ack E J t).mp H.holds).2

end PySMT.Ackermann
