import PySMT.Impl.Simp.Build
import PySMT.Proofs.SimpBasic
import PySMT.Proofs.SimpSorts
/-!
# Type, well-formedness, value, proviso and free symbols of constants and of the
normalising constructors of `Impl/Simp/Build.lean` (Boolean / core / arithmetic part)
-/
namespace PySMT
open PySMT.Build

/-! ## small general facts -/

theorem allAre_iff {ts : List (Option Ty)} {t : Ty} : allAre ts t = true ↔ ∀ x ∈ ts, x = some t := by
  simp [allAre]

theorem allAre_map {args : List Term} {t : Ty} :
    allAre (args.map Term.typeOf) t = true ↔ ∀ a ∈ args, a.typeOf = some t := by
  rw [allAre_iff]
  simp only [List.mem_map, forall_exists_index, and_imp, forall_apply_eq_imp_iff₂]

@[simp] theorem Val.isTrue_b (b : Bool) : (Val.b b).isTrue = b := by cases b <;> rfl

theorem ite_allAre_iff {args : List Term} {t r τ : Ty} :
    (if allAre (args.map Term.typeOf) t then some r else none) = some τ ↔
      τ = r ∧ ∀ a ∈ args, a.typeOf = some t := by
  split
  · next h =>
    rw [allAre_map] at h
    constructor
    · intro e; exact ⟨(Option.some.inj e).symm, h⟩
    · rintro ⟨rfl, _⟩; rfl
  · next h =>
    rw [allAre_map] at h
    constructor
    · intro e; cases e
    · rintro ⟨_, h'⟩; exact absurd h' h

theorem eval_bool {t : Term} {I : Interp} (hwf : t.wf = true) (hty : t.typeOf = some .bool) (hI : I.WF) :
    eval I t = .b (eval I t).isTrue := by
  obtain ⟨b, hb⟩ := Val.hasSort_bool (eval_hasSort t hwf _ hty I hI)
  rw [hb]; cases b <;> rfl

theorem eval_int {t : Term} {I : Interp} (hwf : t.wf = true) (hty : t.typeOf = some .int) (hI : I.WF) :
    ∃ n, eval I t = .i n := Val.hasSort_int (eval_hasSort t hwf _ hty I hI)

theorem eval_real {t : Term} {I : Interp} (hwf : t.wf = true) (hty : t.typeOf = some .real) (hI : I.WF) :
    ∃ q, eval I t = .r q := Val.hasSort_real (eval_hasSort t hwf _ hty I hI)

/-! ## constants -/

@[simp] theorem typeOf_bool (b : Bool) : (Term.bool b).typeOf = some .bool := by
  rw [Term.bool, typeOf_node]; rfl
@[simp] theorem wf_bool (b : Bool) : (Term.bool b).wf = true := by
  rw [Term.bool, Term.wf_node]; exact ⟨by simp, rfl, rfl⟩
@[simp] theorem eval_boolc (I : Interp) (b : Bool) : eval I (Term.bool b) = .b b := by
  simp [Term.bool, eval_node, evalNode, evalOp]
@[simp] theorem div0_bool (I : Interp) (b : Bool) : div0 I (Term.bool b) = false := by
  simp [Term.bool, div0_node, div0Node]
@[simp] theorem fv_bool (b : Bool) : (Term.bool b).fv = [] := by
  simp [Term.bool, fv_node]
theorem tt_eq : Term.tt = Term.bool true := rfl
theorem ff_eq : Term.ff = Term.bool false := rfl

@[simp] theorem typeOf_int (n : Int) : (Term.int n).typeOf = some .int := by
  rw [Term.int, typeOf_node]; rfl
@[simp] theorem wf_int (n : Int) : (Term.int n).wf = true := by
  rw [Term.int, Term.wf_node]; exact ⟨by simp, rfl, rfl⟩
@[simp] theorem eval_intc (I : Interp) (n : Int) : eval I (Term.int n) = .i n := by
  simp [Term.int, eval_node, evalNode, evalOp]
@[simp] theorem div0_int (I : Interp) (n : Int) : div0 I (Term.int n) = false := by
  simp [Term.int, div0_node, div0Node]
@[simp] theorem fv_int (n : Int) : (Term.int n).fv = [] := by
  simp [Term.int, fv_node]

@[simp] theorem typeOf_real (q : Rat) : (Term.real q).typeOf = some .real := by
  rw [Term.real, typeOf_node]; rfl
@[simp] theorem wf_real (q : Rat) : (Term.real q).wf = true := by
  rw [Term.real, Term.wf_node]; exact ⟨by simp, rfl, rfl⟩
@[simp] theorem eval_realc (I : Interp) (q : Rat) : eval I (Term.real q) = .r q := by
  simp [Term.real, eval_node, evalNode, evalOp]
@[simp] theorem div0_real (I : Interp) (q : Rat) : div0 I (Term.real q) = false := by
  simp [Term.real, div0_node, div0Node]
@[simp] theorem fv_real (q : Rat) : (Term.real q).fv = [] := by
  simp [Term.real, fv_node]

/-! ## recognisers -/

theorem isBoolConst_some {t : Term} {b : Bool} (h : isBoolConst t = some b) : t = Term.bool b := by
  unfold isBoolConst at h
  split at h
  · simp at h; subst h; rfl
  · simp at h

theorem isIntConst_some {t : Term} {n : Int} (h : isIntConst t = some n) : t = Term.int n := by
  unfold isIntConst at h
  split at h
  · simp at h; subst h; rfl
  · simp at h

theorem isRealConst_some {t : Term} {q : Rat} (h : isRealConst t = some q) : t = Term.real q := by
  unfold isRealConst at h
  split at h
  · simp at h; subst h; rfl
  · simp at h

theorem isTrue_iff {t : Term} : Build.isTrue t = true ↔ t = Term.bool true := by
  constructor
  · intro h; exact isBoolConst_some (by simpa [Build.isTrue] using h)
  · rintro rfl; rfl

theorem isFalse_iff {t : Term} : Build.isFalse t = true ↔ t = Term.bool false := by
  constructor
  · intro h; exact isBoolConst_some (by simpa [Build.isFalse] using h)
  · rintro rfl; rfl

/-! ## Boolean nodes -/

theorem typeOf_and_iff {args : List Term} {p : Payload} {τ : Ty} :
    (Term.node .and args p).typeOf = some τ ↔ τ = .bool ∧ ∀ a ∈ args, a.typeOf = some .bool := by
  rw [typeOf_node]; exact ite_allAre_iff

theorem typeOf_or_iff {args : List Term} {p : Payload} {τ : Ty} :
    (Term.node .or args p).typeOf = some τ ↔ τ = .bool ∧ ∀ a ∈ args, a.typeOf = some .bool := by
  rw [typeOf_node]; exact ite_allAre_iff

theorem typeOf_not_iff {args : List Term} {p : Payload} {τ : Ty} :
    (Term.node .not args p).typeOf = some τ ↔ τ = .bool ∧ ∀ a ∈ args, a.typeOf = some .bool := by
  rw [typeOf_node]; exact ite_allAre_iff

theorem typeOf_implies_iff {args : List Term} {p : Payload} {τ : Ty} :
    (Term.node .implies args p).typeOf = some τ ↔ τ = .bool ∧ ∀ a ∈ args, a.typeOf = some .bool := by
  rw [typeOf_node]; exact ite_allAre_iff

theorem typeOf_iff_iff {args : List Term} {p : Payload} {τ : Ty} :
    (Term.node .iff args p).typeOf = some τ ↔ τ = .bool ∧ ∀ a ∈ args, a.typeOf = some .bool := by
  rw [typeOf_node]; exact ite_allAre_iff

theorem eval_not (I : Interp) (a : Term) (p : Payload) :
    eval I (.node .not [a] p) = .b (!(eval I a).isTrue) := by
  rw [eval_plain I .not _ p (by simp) (by simp) rfl]; rfl

theorem eval_implies (I : Interp) (a b : Term) (p : Payload) :
    eval I (.node .implies [a, b] p) = .b (!(eval I a).isTrue || (eval I b).isTrue) := by
  rw [eval_plain I .implies _ p (by simp) (by simp) rfl]; rfl

theorem eval_iff (I : Interp) (a b : Term) (p : Payload) :
    eval I (.node .iff [a, b] p) = .b ((eval I a).isTrue == (eval I b).isTrue) := by
  rw [eval_plain I .iff _ p (by simp) (by simp) rfl]; rfl

theorem eval_ite (I : Interp) (c a b : Term) (p : Payload) :
    eval I (.node .ite [c, a, b] p) = if (eval I c).isTrue then eval I a else eval I b := by
  rw [eval_plain I .ite _ p (by simp) (by simp) rfl]; rfl

theorem eval_equals (I : Interp) (a b : Term) (p : Payload) :
    eval I (.node .equals [a, b] p) = .b (decide (eval I a = eval I b)) := by
  rw [eval_plain I .equals _ p (by simp) (by simp) rfl]; rfl

theorem eval_le (I : Interp) (a b : Term) (p : Payload) :
    eval I (.node .le [a, b] p) = .b (Sem.le (eval I a) (eval I b)) := by
  rw [eval_plain I .le _ p (by simp) (by simp) rfl]; rfl

theorem eval_lt (I : Interp) (a b : Term) (p : Payload) :
    eval I (.node .lt [a, b] p) = .b (Sem.lt (eval I a) (eval I b)) := by
  rw [eval_plain I .lt _ p (by simp) (by simp) rfl]; rfl

theorem eval_minus (I : Interp) (a b : Term) (p : Payload) :
    eval I (.node .minus [a, b] p) = Sem.sub (eval I a) (eval I b) := by
  rw [eval_plain I .minus _ p (by simp) (by simp) rfl]; rfl

theorem eval_div (I : Interp) (a b : Term) (p : Payload) :
    eval I (.node .div [a, b] p) = Sem.div I (eval I a) (eval I b) := by
  rw [eval_plain I .div _ p (by simp) (by simp) rfl]; rfl

theorem eval_plus (I : Interp) (args : List Term) (p : Payload) :
    eval I (.node .plus args p) = Sem.sum (args.map (eval I)) := by
  rw [eval_plain I .plus _ p (by simp) (by simp) rfl]; rfl

theorem eval_times (I : Interp) (args : List Term) (p : Payload) :
    eval I (.node .times args p) = Sem.prod (args.map (eval I)) := by
  rw [eval_plain I .times _ p (by simp) (by simp) rfl]; rfl

theorem eval_toReal (I : Interp) (a : Term) (p : Payload) :
    eval I (.node .toReal [a] p) = Sem.toReal (eval I a) := by
  rw [eval_plain I .toReal _ p (by simp) (by simp) rfl]; rfl

/-- free symbols of a node that is neither a leaf symbol, an application nor a quantifier -/
theorem mem_fv_plain {op : Op} {args : List Term} {p : Payload} (h1 : op ≠ .symbol) (h2 : op ≠ .function)
    (h3 : op.isQuantifier = false) {s : Sym} :
    s ∈ (Term.node op args p).fv ↔ ∃ a ∈ args, s ∈ a.fv := by
  rw [fv_node_plain op args p h1 h2 h3]
  simp only [List.mem_flatten, List.mem_map]
  constructor
  · rintro ⟨l, ⟨a, ha, rfl⟩, hs⟩; exact ⟨a, ha, hs⟩
  · rintro ⟨a, ha, hs⟩; exact ⟨a.fv, ⟨a, ha, rfl⟩, hs⟩

/-! ## `not_`, `and_`, `or_` -/

/-- a well-formed `not` node has exactly one Boolean argument -/
theorem wf_not_inv {args : List Term} {p : Payload} (h : (Term.node .not args p).wf = true) :
    ∃ a, args = [a] ∧ a.wf = true ∧ a.typeOf = some .bool := by
  have hs := wf_shape h
  simp only [Op.shapeOK, beq_iff_eq] at hs
  match args, hs with
  | [a], _ =>
    refine ⟨a, rfl, wf_args h a (by simp), ?_⟩
    obtain ⟨τ, hτ⟩ := wf_typeOf _ h
    exact (typeOf_not_iff.mp hτ).2 a (by simp)

theorem not_spec {t : Term} (hwf : t.wf = true) (hty : t.typeOf = some .bool) :
    (not_ t).typeOf = some .bool ∧ (not_ t).wf = true ∧
    (∀ I : Interp, I.WF → eval I (not_ t) = .b (!(eval I t).isTrue) ∧ div0 I (not_ t) = div0 I t) ∧
    (∀ s ∈ (not_ t).fv, s ∈ t.fv) := by
  by_cases hnot : ∃ args p, t = .node .not args p
  · obtain ⟨args, p, rfl⟩ := hnot
    obtain ⟨a, rfl, hawf, haty⟩ := wf_not_inv hwf
    refine ⟨haty, hawf, ?_, ?_⟩
    · intro I hI
      simp only [not_]
      rw [eval_not, div0_plain I .not _ p rfl (by simp)]
      refine ⟨?_, by simp⟩
      obtain ⟨b, hb⟩ := Val.hasSort_bool (eval_hasSort a hawf _ haty I hI)
      rw [hb]; cases b <;> rfl
    · intro s hs
      simp only [not_] at hs
      exact (mem_fv_plain (by simp) (by simp) rfl).mpr ⟨a, by simp, hs⟩
  · have hdef : not_ t = .node .not [t] .none := by
      unfold not_
      split
      · next a rest p => exact absurd ⟨_, _, rfl⟩ hnot
      · rfl
    rw [hdef]
    have hty' : (Term.node .not [t] .none).typeOf = some .bool :=
      typeOf_not_iff.mpr ⟨rfl, by simpa using hty⟩
    refine ⟨hty', wf_mk' (by simpa using hwf) rfl hty', ?_, ?_⟩
    · intro I _
      rw [eval_not, div0_plain I .not _ _ rfl (by simp)]
      simp
    · intro s hs
      obtain ⟨a, ha, hs⟩ := (mem_fv_plain (by simp) (by simp) rfl).mp hs
      simp only [List.mem_cons, List.not_mem_nil, or_false] at ha
      rw [ha] at hs; exact hs

theorem and_spec {l : List Term} (hwf : ∀ a ∈ l, a.wf = true) (hty : ∀ a ∈ l, a.typeOf = some .bool) :
    (and_ l).typeOf = some .bool ∧ (and_ l).wf = true ∧
    (∀ I : Interp, I.WF → eval I (and_ l) = .b (l.all fun a => (eval I a).isTrue) ∧
      div0 I (and_ l) = l.any (fun a => div0 I a)) ∧
    (∀ s ∈ (and_ l).fv, ∃ a ∈ l, s ∈ a.fv) := by
  match l, hwf, hty with
  | [], _, _ => simp [and_, tt_eq]
  | [a], hwf, hty =>
    refine ⟨hty a (by simp), hwf a (by simp), ?_, ?_⟩
    · intro I hI
      simp only [and_, List.all_cons, List.all_nil, Bool.and_true, List.any_cons, List.any_nil, Bool.or_false]
      exact ⟨eval_bool (hwf a (by simp)) (hty a (by simp)) hI, trivial⟩
    · intro s hs; exact ⟨a, by simp, hs⟩
  | a :: b :: r, hwf, hty =>
    have hty' : (Term.node .and (a :: b :: r) .none).typeOf = some .bool := typeOf_and_iff.mpr ⟨rfl, hty⟩
    refine ⟨hty', wf_mk' hwf rfl hty', ?_, ?_⟩
    · intro I _
      simp only [and_]
      rw [eval_and, div0_plain I .and _ _ rfl (by simp)]
      exact ⟨rfl, rfl⟩
    · intro s hs
      exact (mem_fv_plain (by simp) (by simp) rfl).mp hs

theorem or_spec {l : List Term} (hwf : ∀ a ∈ l, a.wf = true) (hty : ∀ a ∈ l, a.typeOf = some .bool) :
    (or_ l).typeOf = some .bool ∧ (or_ l).wf = true ∧
    (∀ I : Interp, I.WF → eval I (or_ l) = .b (l.any fun a => (eval I a).isTrue) ∧
      div0 I (or_ l) = l.any (fun a => div0 I a)) ∧
    (∀ s ∈ (or_ l).fv, ∃ a ∈ l, s ∈ a.fv) := by
  match l, hwf, hty with
  | [], _, _ => simp [or_, ff_eq]
  | [a], hwf, hty =>
    refine ⟨hty a (by simp), hwf a (by simp), ?_, ?_⟩
    · intro I hI
      simp only [or_, List.any_cons, List.any_nil, Bool.or_false]
      exact ⟨eval_bool (hwf a (by simp)) (hty a (by simp)) hI, trivial⟩
    · intro s hs; exact ⟨a, by simp, hs⟩
  | a :: b :: r, hwf, hty =>
    have hty' : (Term.node .or (a :: b :: r) .none).typeOf = some .bool := typeOf_or_iff.mpr ⟨rfl, hty⟩
    refine ⟨hty', wf_mk' hwf rfl hty', ?_, ?_⟩
    · intro I _
      simp only [or_]
      rw [eval_or, div0_plain I .or _ _ rfl (by simp)]
      exact ⟨rfl, rfl⟩
    · intro s hs
      exact (mem_fv_plain (by simp) (by simp) rfl).mp hs

end PySMT

/-! ## `Res` : the three components of `RuleOK` for one result -/
namespace PySMT
open PySMT.Simp

/-- `r` is a correct simplification result for the node `t` of type `τ` -/
structure Res (t : Term) (τ : Ty) (r : Term) : Prop where
  type : r.typeOf = some τ
  wf : r.wf = true
  sound : ∀ I : Interp, I.WF → div0 I t = false → eval I r = eval I t ∧ div0 I r = false
  /-- without the proviso, when the division-by-zero functions map 0 to 0 -/
  total : ∀ I : Interp, I.WF → I.Tot → eval I r = eval I t
  fv : ∀ s ∈ r.fv, s ∈ t.fv

/-- what a rule may assume about the interpretation when it proves the value equation: no division
by zero is evaluated in the node, or the division-by-zero functions map 0 to 0 -/
abbrev Hyp (I : Interp) (t : Term) : Prop := div0 I t = false ∨ I.Tot

/-- `RuleOK` from `Res` for every applicable instance -/
theorem RuleOK.of_res {op : Op} {e : Entry}
    (h : ∀ (p : Payload) (args : List Term) (τ : Ty), (Term.node op args p).wf = true →
      (Term.node op args p).typeOf = some τ → e.guard p (args.map Term.typeOf) = true →
      Res (.node op args p) τ (e.rule p args)) : RuleOK op e where
  type := fun p args τ h1 h2 h3 => ⟨(h p args τ h1 h2 h3).type, (h p args τ h1 h2 h3).wf⟩
  sound := fun p args τ h1 h2 h3 => (h p args τ h1 h2 h3).sound
  total := fun p args τ h1 h2 h3 => (h p args τ h1 h2 h3).total
  fv := fun p args τ h1 h2 h3 => (h p args τ h1 h2 h3).fv

/-- a result from a value equation that holds under `Hyp` and a separate proof that the proviso is
preserved -/
theorem Res.of_hyp {t r : Term} {τ : Ty} (hty : r.typeOf = some τ) (hwf : r.wf = true)
    (he : ∀ I : Interp, I.WF → Hyp I t → eval I r = eval I t)
    (hd : ∀ I : Interp, I.WF → div0 I t = false → div0 I r = false)
    (hfv : ∀ s ∈ r.fv, s ∈ t.fv) : Res t τ r :=
  ⟨hty, hwf, fun I hI h => ⟨he I hI (Or.inl h), hd I hI h⟩, fun I hI h => he I hI (Or.inr h), hfv⟩

/-- the node itself -/
theorem Res.self {t : Term} {τ : Ty} (hwf : t.wf = true) (hty : t.typeOf = some τ) : Res t τ t :=
  ⟨hty, hwf, fun _ _ hd => ⟨rfl, hd⟩, fun _ _ _ => rfl, fun _ hs => hs⟩

/-- a Boolean constant -/
theorem Res.bool {t : Term} (b : Bool) (h : ∀ I : Interp, I.WF → Hyp I t → eval I t = .b b) :
    Res t .bool (Term.bool b) :=
  Res.of_hyp (typeOf_bool b) (wf_bool b) (fun I hI hh => by rw [eval_boolc, h I hI hh])
    (fun I _ _ => div0_bool I b) (by simp)

theorem Res.int {t : Term} (n : Int) (h : ∀ I : Interp, I.WF → Hyp I t → eval I t = .i n) :
    Res t .int (Term.int n) :=
  Res.of_hyp (typeOf_int n) (wf_int n) (fun I hI hh => by rw [eval_intc, h I hI hh])
    (fun I _ _ => div0_int I n) (by simp)

theorem Res.real {t : Term} (q : Rat) (h : ∀ I : Interp, I.WF → Hyp I t → eval I t = .r q) :
    Res t .real (Term.real q) :=
  Res.of_hyp (typeOf_real q) (wf_real q) (fun I hI hh => by rw [eval_realc, h I hI hh])
    (fun I _ _ => div0_real I q) (by simp)

/-- an argument of a (non-binding) node -/
theorem Res.arg {op : Op} {args : List Term} {p : Payload} {τ : Ty} {a : Term}
    (h1 : op ≠ .symbol) (h2 : op ≠ .function) (h3 : op.isQuantifier = false)
    (ha : a ∈ args) (hwf : a.wf = true) (hty : a.typeOf = some τ)
    (h : ∀ I : Interp, I.WF → Hyp I (.node op args p) → eval I a = eval I (.node op args p)) :
    Res (.node op args p) τ a :=
  Res.of_hyp hty hwf h (fun I _ hd => div0_args_false I op args p h3 hd a ha)
    (fun _ hs => (mem_fv_plain h1 h2 h3).mpr ⟨a, ha, hs⟩)

/-- the negation (built by `Not`) of a Boolean argument of a (non-binding) node -/
theorem Res.not_arg {op : Op} {args : List Term} {p : Payload} {a : Term}
    (h1 : op ≠ .symbol) (h2 : op ≠ .function) (h3 : op.isQuantifier = false)
    (ha : a ∈ args) (hwf : a.wf = true) (hty : a.typeOf = some .bool)
    (h : ∀ I : Interp, I.WF → Hyp I (.node op args p) →
      eval I (.node op args p) = .b (!(eval I a).isTrue)) :
    Res (.node op args p) .bool (Build.not_ a) := by
  obtain ⟨t1, t2, t3, t4⟩ := not_spec hwf hty
  refine Res.of_hyp t1 t2 (fun I hI hh => ?_) (fun I hI hd => ?_)
    (fun s hs => (mem_fv_plain h1 h2 h3).mpr ⟨a, ha, t4 s hs⟩)
  · rw [(t3 I hI).1, h I hI hh]
  · rw [(t3 I hI).2]; exact div0_args_false I op args p h3 hd a ha

end PySMT

namespace PySMT

/-- the proviso of a non-binding node does not depend on its payload -/
theorem div0_payload (I : Interp) (op : Op) (args : List Term) (p p' : Payload) (hq : op.isQuantifier = false) :
    div0 I (.node op args p') = div0 I (.node op args p) := by
  by_cases hd : op = .div
  · subst hd
    match args with
    | [a, b] => rw [div0_div, div0_div]
    | [] => rw [div0_node, div0_node]; simp [div0Node]
    | [_] => rw [div0_node, div0_node]; simp [div0Node]
    | _ :: _ :: _ :: _ => rw [div0_node, div0_node]; simp [div0Node]
  · rw [div0_plain I op args p hq hd, div0_plain I op args p' hq hd]

/-- the node rebuilt by a constructor with another payload (the constructors of payload-free
operators store `None`) -/
theorem Res.rebuild {op : Op} {args : List Term} {p p' : Payload} {τ : Ty}
    (h1 : op ≠ .symbol) (h2 : op ≠ .function) (h3 : op.isQuantifier = false)
    (hwf : (Term.node op args p).wf = true)
    (hty' : (Term.node op args p').typeOf = some τ) (hshape : op.shapeOK p' args.length = true)
    (hev : ∀ I : Interp, evalOp I op p' (args.map (eval I)) = evalOp I op p (args.map (eval I))) :
    Res (.node op args p) τ (.node op args p') := by
  refine Res.of_hyp hty' (wf_mk' (wf_args hwf) hshape hty') (fun I _ _ => ?_) (fun I _ hd => ?_) (fun s hs => ?_)
  · rw [eval_plain I op args p' h1 h2 h3, eval_plain I op args p h1 h2 h3, hev I]
  · rw [div0_payload I op args p p' h3]; exact hd
  · rw [fv_node_plain op args p' h1 h2 h3] at hs
    rw [fv_node_plain op args p h1 h2 h3]
    exact hs

end PySMT
