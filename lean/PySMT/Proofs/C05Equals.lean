import PySMT.Proofs.C05Id
/-!
# C05 — replacement of equals by equals (the semantic half for arbitrary sub-term keys)

If every key of a term-keyed map has, under the interpretations in question, the value of its
replacement, then substituting does not change the value of the term — for both strategies, with no
`NoCapture` / `MSSafe` proviso (the hypothesis is about the values of keys and replacements under the
interpretations that arise below the binders of the term).
-/
namespace PySMT.Subst
open PySMT.Build PySMT.SubstSpec

/-- the variables bound somewhere in the term -/
def bvars : Term → List Sym
  | .node op args p =>
    (match op.isQuantifier, p with | true, .qvars vs => vs | _, _ => []) ++ (args.map bvars).flatten

/-- the keys of the array values of the term -/
def arrKeys : Term → List Term
  | .node op args _ =>
    (if op = .arrayValue then (pairsOf args.tail).map Prod.fst else []) ++ (args.map arrKeys).flatten

theorem bvars_child {op args p} {a : Term} (ha : a ∈ args) : ∀ x ∈ bvars a, x ∈ bvars (.node op args p) := by
  intro x hx
  rw [bvars.eq_def]
  simp only [List.mem_append, List.mem_flatten, List.mem_map]
  exact .inr ⟨bvars a, ⟨a, ha, rfl⟩, hx⟩

theorem bvars_here {op : Op} {args : List Term} {vs : List Sym} (hq : op.isQuantifier = true) :
    ∀ x ∈ vs, x ∈ bvars (.node op args (.qvars vs)) := by
  intro x hx
  rw [bvars.eq_def]
  simp only [hq, List.mem_append]
  exact .inl hx

theorem arrKeys_child {op args p} {a : Term} (ha : a ∈ args) : ∀ k ∈ arrKeys a, k ∈ arrKeys (.node op args p) := by
  intro k hk
  rw [arrKeys.eq_def]
  simp only [List.mem_append, List.mem_flatten, List.mem_map]
  exact .inr ⟨arrKeys a, ⟨a, ha, rfl⟩, hk⟩

theorem arrKeys_here {args : List Term} {p : Payload} :
    ∀ kv ∈ pairsOf args.tail, kv.1 ∈ arrKeys (.node .arrayValue args p) := by
  intro kv hkv
  rw [arrKeys.eq_def]
  simp only [if_true, List.mem_append]
  exact .inl (List.mem_map_of_mem hkv)

theorem mem_bodyMap {σ : TMap} {op : Op} {p : Payload} {kv : Term × Term} (h : kv ∈ bodyMap σ op p) : kv ∈ σ := by
  unfold bodyMap at h
  split at h
  · exact (List.mem_filter.mp h).1
  · exact h

/-- pointwise equal bodies on the interpretations of a class closed under binding the variables -/
theorem quant_congr_P (P : Interp → Prop) (B : Sym → Prop)
    (hPbind : ∀ J x v, P J → B x → v ∈ J.dom x.ret → P (J.bind x v))
    (all : Bool) (k k' : Interp → Bool) (hk : ∀ J : Interp, P J → k J = k' J) :
    ∀ (vs : List Sym), (∀ x ∈ vs, B x) → ∀ (I : Interp), P I → I.quant all vs k = I.quant all vs k'
  | [], _, I, hI => hk I hI
  | x :: xs, hB, I, hI => by
    have step : ∀ v ∈ I.dom x.ret, (I.bind x v).quant all xs k = (I.bind x v).quant all xs k' :=
      fun v hv => quant_congr_P P B hPbind all k k' hk xs (fun y hy => hB y (List.mem_cons_of_mem _ hy)) _
        (hPbind I x v hI (hB x (by simp)) hv)
    simp only [Interp.quant]
    rw [list_all_congr step, list_any_congr step]

/-- a constant that is not a key is left alone -/
theorem substG_constT (ms : Bool) (h : FnHandler) (σ : TMap) : (k : Term) → k.op.isConstant = true → k.wf = true →
    (∀ kv ∈ σ, kv.1 ≠ k) → substG ms h σ k = k
  | .node op args p, hc, hwf, hne => by
    obtain ⟨_, hshape, _⟩ := Term.wf_node.mp hwf
    have hargs : args = [] := by
      cases op <;> simp [Term.op, Op.isConstant] at hc <;> cases args <;>
        first | rfl | (cases p <;> simp [Op.shapeOK] at hshape)
    subst hargs
    have hfun : op ≠ .function := by intro e; subst e; simp [Term.op, Op.isConstant] at hc
    have hsp : special op = false := by
      cases op <;> simp [Term.op, Op.isConstant] at hc <;> rfl
    have hb : build h op p [] = .node op [] p := by
      unfold build; split
      · next heq _ => exact absurd rfl hfun
      · exact rebuild_generic op p [] hsp
    rw [substG]
    simp only [List.map_nil, hb, lookup_none_of_ne σ _ hne]
    cases ms <;> rfl

/-- rebuilding an array value whose keys are pairwise distinct constants, from new children among
which the keys are unchanged, keeps its meaning -/
theorem mkArray_sem_gen (S : Term → Term) (I : Interp) (hI : I.WF) {args : List Term} {p : Payload}
    (hwf : (Term.node .arrayValue args p).wf = true) (hn : normalNode .arrayValue p args = true)
    (hck : ConstKeys (.node .arrayValue args p) = true)
    (hkeep : ∀ kv ∈ pairsOf args.tail, S kv.1 = kv.1) :
    eval I (mkArray p (args.map S)) = evalOp I .arrayValue p ((args.map S).map (eval I)) := by
  have hwt := Term.wf_wt _ hwf
  obtain ⟨hchwf, _, _⟩ := Term.wf_node.mp hwf
  obtain ⟨idx, e, d, rest, rfl, rfl, hd, hc, _⟩ := Simp.ArrayRules.typeOf_arrayValue_inv (wt_typeOf_some _ hwt)
  obtain ⟨hp, hflat⟩ := Simp.ArrayRules.chk_pairs idx e rest hc
  have hconst := ConstKeys_here hck
  simp only [List.tail_cons] at hconst hkeep
  cases hps : pairsOf rest with
  | nil =>
    have hr : rest = [] := by rw [hflat, ← pairsOf_eq_pairs, hps]; rfl
    subst hr
    have e1 : mkArray (.ty idx) ([d].map S) = .node .arrayValue [S d] (.ty idx) := by
      simp [mkArray, pairsOf, pyDict, unpairs]
    rw [e1, eval_plain I .arrayValue _ _ (by decide) (by decide) rfl]
    rfl
  | cons kv0 tl =>
    have hkv0 : kv0 ∈ pairsOf rest := by rw [hps]; simp
    have hidx : idx.scalar = true :=
      const_scalar kv0.1 (hconst kv0 hkv0) idx (hp kv0 (by rw [← pairsOf_eq_pairs]; exact hkv0)).1
    have hkeys : ((pairsOf (rest.map S)).map Prod.fst) = (pairsOf rest).map Prod.fst := by
      rw [pairsOf_map, List.map_map]
      exact List.map_congr_left (fun kv hkv => hkeep kv hkv)
    rw [List.map_cons]
    apply eval_mkArray I hI hidx
    · intro kv' hkv'
      rw [pairsOf_map] at hkv'
      obtain ⟨kv, hkv, rfl⟩ := List.mem_map.mp hkv'
      simp only [hkeep kv hkv]
      have hm := mem_pairsOf hkv
      exact ⟨⟨hchwf _ (List.mem_cons_of_mem _ hm.1), hconst kv hkv⟩,
        (hp kv (by rw [← pairsOf_eq_pairs]; exact hkv)).1⟩
    · rw [hkeys]; exact normal_array_nodup hn

/-- **Replacement of equals by equals**, general form: `P` is the class of interpretations under
which the keys have the values of their replacements; it is closed under binding the variables in `B`,
which contain the bound variables of the term. -/
theorem substG_equals (ms : Bool) (P : Interp → Prop) (B : Sym → Prop)
    (hPwf : ∀ J, P J → J.WF) (hPbind : ∀ J x v, P J → B x → v ∈ J.dom x.ret → P (J.bind x v)) :
    (t : Term) → ∀ σ : TMap, WfMap σ → t.wf = true → normal t = true → ConstKeys t = true →
      (∀ x ∈ bvars t, B x) → (∀ k ∈ arrKeys t, ∀ kv ∈ σ, kv.1 ≠ k) →
      (∀ J, P J → ∀ kv ∈ σ, eval J kv.1 = eval J kv.2) →
      ∀ J, P J → eval J (substG ms noInterp σ t) = eval J t
  | .node op args p, σ, hσ, hwf, hn, ha, hB, hak, heq, J, hJ => by
    have hwt := Term.wf_wt _ hwf
    obtain ⟨hchwf, hshape, htyS⟩ := Term.wf_node.mp hwf
    have hσc : WfMap (bodyMap σ op p) := hσ.bodyMap op p
    have ih : ∀ a ∈ args, ∀ K : Interp, P K →
        eval K (substG ms noInterp (bodyMap σ op p) a) = eval K a :=
      fun a hm K hK => substG_equals ms P B hPwf hPbind a _ hσc (hchwf a hm) (normal_child hn a hm)
        (ConstKeys_child ha a hm) (fun x hx => hB x (bvars_child hm x hx))
        (fun k hk kv hkv => hak k (arrKeys_child hm k hk) kv (mem_bodyMap hkv))
        (fun K' hK' kv hkv => heq K' hK' kv (mem_bodyMap hkv)) K hK
    have iht : ∀ a ∈ args, (substG ms noInterp (bodyMap σ op p) a).wt = true ∧
        (substG ms noInterp (bodyMap σ op p) a).typeOf = a.typeOf :=
      fun a hm => substG_type ms noInterp_typed a _ hσc.tyMap (Term.wt_child hwt a hm) (normal_child hn a hm)
    have ihw : ∀ a ∈ args, (substG ms noInterp (bodyMap σ op p) a).wf = true :=
      fun a hm => substG_wf ms noInterp_typed noInterp_wf a _ hσc (hchwf a hm) (normal_child hn a hm)
    have hs : SameTypes args (args.map (substG ms noInterp (bodyMap σ op p))) := by
      constructor
      · intro a' ha'
        obtain ⟨a, hm, rfl⟩ := List.mem_map.mp ha'
        exact (iht a hm).1
      · rw [List.map_map]
        exact List.map_congr_left (fun a hm => (iht a hm).2)
    have hwf' : ∀ a' ∈ args.map (substG ms noInterp (bodyMap σ op p)), a'.wf = true := by
      intro a' ha'
      obtain ⟨a, hm, rfl⟩ := List.mem_map.mp ha'
      exact ihw a hm
    have hmapI : ∀ K : Interp, P K → (args.map (substG ms noInterp (bodyMap σ op p))).map (eval K) =
        args.map (eval K) := by
      intro K hK
      rw [List.map_map]
      exact List.map_congr_left (fun a hm => ih a hm K hK)
    have hbuild : build noInterp op p (args.map (substG ms noInterp (bodyMap σ op p))) =
        rebuild op p (args.map (substG ms noInterp (bodyMap σ op p))) := by
      unfold build noInterp; split <;> rfl
    -- the rebuilt node has the value of the node
    have hA : eval J (build noInterp op p (args.map (substG ms noInterp (bodyMap σ op p)))) =
        eval J (.node op args p) := by
      rw [hbuild]
      have hsh := rebuild_shape hwt (normal_here hn) hs
      by_cases hsym : op = .symbol
      · subst hsym
        have hargs : args = [] := Term.wt_symbol_args hwt
        subst hargs
        rw [List.map_nil, rebuild_generic _ _ _ rfl]
      by_cases hfun : op = .function
      · subst hfun
        obtain ⟨f, rfl⟩ := typeOfNode_function_payload htyS
        rw [rebuild_generic _ _ _ rfl, eval_function, eval_function, hmapI J hJ]
      by_cases hq : op.isQuantifier = true
      · obtain ⟨vs, rfl⟩ := shapeOK_quant hq hshape
        obtain ⟨b, rfl⟩ := Term.wt_quant_args hwt hq
        have hnode : rebuild op (.qvars vs) ([b].map (substG ms noInterp (bodyMap σ op (.qvars vs)))) =
            .node op [substG ms noInterp (bodyMap σ op (.qvars vs)) b] (.qvars vs) := by
          generalize rebuild op (.qvars vs) ([b].map (substG ms noInterp (bodyMap σ op (.qvars vs)))) = r at hsh
          cases hsh with
          | node => rfl
          | notNot _ _ ho _ => subst ho; cases hq
          | toRealConst _ ho _ => subst ho; cases hq
          | divConst _ _ ho _ _ => subst ho; cases hq
          | array ho => subst ho; cases hq
        rw [hnode]
        have hquant : ∀ all : Bool,
            J.quant all vs (fun K => (eval K (substG ms noInterp (bodyMap σ op (.qvars vs)) b)).isTrue) =
            J.quant all vs (fun K => (eval K b).isTrue) := fun all =>
          quant_congr_P P B hPbind all _ _ (fun K hK => by rw [ih b (by simp) K hK]) vs
            (fun x hx => hB x (bvars_here hq x hx)) J hJ
        cases op <;> simp [Op.isQuantifier] at hq
        · rw [eval_forall, eval_forall, hquant true]
        · rw [eval_exists, eval_exists, hquant false]
      · have hq' : op.isQuantifier = false := by simpa using hq
        have hnot : ∀ b pl, args.map (substG ms noInterp (bodyMap σ op p)) = [.node .not [b] pl] →
            ∃ bb, eval J b = .b bb := by
          intro b pl he
          have hm : Term.node .not [b] pl ∈ args.map (substG ms noInterp (bodyMap σ op p)) := by rw [he]; simp
          have hwfn := hwf' _ hm
          have hbwf : b.wf = true := (Term.wf_node.mp hwfn).1 b (by simp)
          have hbwt := Term.wf_wt _ hbwf
          have h2 := wt_tyNode (Term.wf_wt _ hwfn)
          simp only [C05T.tyNode, List.map_cons, List.map_nil] at h2
          have hbty : b.typeOf = some .bool := by
            apply typeOf_of_tyOf hbwt
            exact allAre_cons_some (x := tyOf b) (rest := []) (t := .bool) (by split at h2 <;> simp_all)
          exact eval_bool_of_wf hbwf hbty (hPwf J hJ)
        have harr : op = .arrayValue → eval J (mkArray p (args.map (substG ms noInterp (bodyMap σ op p)))) =
            evalOp J .arrayValue p ((args.map (substG ms noInterp (bodyMap σ op p))).map (eval J)) := by
          intro ho; subst ho
          apply mkArray_sem_gen _ J (hPwf J hJ) hwf (normal_here hn) ha
          intro kv hkv
          have hkm := mem_pairsOf hkv
          have hkarg : kv.1 ∈ args := by
            cases args with
            | nil => simp [pairsOf] at hkv
            | cons d rest => exact List.mem_cons_of_mem _ hkm.1
          exact substG_constT ms noInterp _ kv.1 (ConstKeys_here ha kv hkv) (hchwf _ hkarg)
            (fun q hq => hak _ (arrKeys_here kv hkv) q (mem_bodyMap hq))
        rw [eval_shape hsym hfun hq' hsh hnot harr, hmapI J hJ, eval_plain _ op args p hsym hfun hq']
    rw [substG]
    cases ms
    · simp only [Bool.false_eq_true, if_false]
      cases hl : lookup σ (.node op args p) with
      | none => exact hA
      | some v => exact (heq J hJ _ (lookup_mem hl)).symm
    · simp only [if_true]
      cases hl : lookup σ (build noInterp op p (args.map (substG true noInterp (bodyMap σ op p)))) with
      | none => exact hA
      | some v =>
        simp only
        rw [← heq J hJ _ (lookup_mem hl)]
        exact hA

end PySMT.Subst
