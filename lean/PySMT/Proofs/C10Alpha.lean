import PySMT.Proofs.C10PrenexSem
import PySMT.Proofs.C10Shannon
/-!
# C10 — renaming the variables of one quantifier block to fresh symbols

* `quantV_all` / `quantV_any` : a block of binders as quantification over assignments (hence
  independent of the order and of repetitions of the variables);
* `Supp S K` : the predicate `K` depends only on the values of the symbols `S`;
* `theta ρ J` : the interpretation in which every renamed symbol `v` reads the value of its new
  name `ρ v`; `truth J (m[ρ]) = truth (theta ρ J) m`;
* `alpha_block` : `Q (keep ++ new). K ∘ theta ρ  =  Q vs. K` when the new names are fresh.
-/
namespace PySMT.Rewritings

/-! ## a block of binders quantifies over assignments -/

def updV (I : Interp) (f : Sym → Val) (vs : List Sym) : Interp :=
  { I with sym := fun s => if vs.contains s then f s else I.sym s }

/-- the assignment takes its values in the quantification domains -/
def DomOK (I : Interp) (f : Sym → Val) (vs : List Sym) : Prop := ∀ s ∈ vs, f s ∈ I.dom s.ret

theorem updV_nil (I : Interp) (f : Sym → Val) : updV I f [] = I := rfl

theorem updV_bind_self (I : Interp) (f : Sym → Val) (v : Sym) (vs : List Sym) :
    updV (I.bind v (f v)) f vs = updV I f (v :: vs) := by
  simp only [updV, Interp.bind]
  congr 1
  funext s
  simp only [List.contains_cons, List.contains_eq_mem, Bool.or_eq_true, beq_iff_eq, decide_eq_true_eq]
  by_cases h1 : s ∈ vs <;> by_cases h2 : s = v <;> simp [h1, h2] <;> (try subst h2) <;> simp_all

theorem updV_bind_other (I : Interp) (f : Sym → Val) (x : Val) (v : Sym) (vs : List Sym) :
    updV (I.bind v x) f vs = updV I (fun s => if vs.contains s then f s else x) (v :: vs) := by
  simp only [updV, Interp.bind]
  congr 1
  funext s
  simp only [List.contains_cons, List.contains_eq_mem, Bool.or_eq_true, beq_iff_eq, decide_eq_true_eq]
  by_cases h1 : s ∈ vs <;> by_cases h2 : s = v <;> simp [h1, h2] <;> (try subst h2) <;> simp_all

theorem updV_wf {I : Interp} (hI : I.WF) {f : Sym → Val} {vs : List Sym} (hf : DomOK I f vs) : (updV I f vs).WF := by
  refine ⟨fun s => ?_, hI.fn, hI.dom_ne, hI.dom_sort⟩
  simp only [updV]
  split
  · next h => exact hI.dom_sort _ _ (hf s (by simpa using h))
  · exact hI.sym s

theorem quantV_all (k : Interp → Bool) : ∀ (vs : List Sym) (I : Interp),
    (I.quant true vs k = true ↔ ∀ f : Sym → Val, DomOK I f vs → k (updV I f vs) = true)
  | [], I => by simp [Interp.quant, updV_nil, DomOK]
  | v :: vs, I => by
    simp only [Interp.quant, if_true, List.all_eq_true]
    constructor
    · intro h f hf
      have h1 := (quantV_all k vs (I.bind v (f v))).mp (h (f v) (hf v (by simp))) f
        (fun s hs => hf s (by simp [hs]))
      rwa [updV_bind_self] at h1
    · intro h x hx
      rw [quantV_all k vs]
      intro f hf
      rw [updV_bind_other]
      apply h
      intro s hs
      simp only
      split
      · next hc => exact hf s (by simpa using hc)
      · next hc =>
        simp only [List.mem_cons] at hs
        rcases hs with rfl | hs
        · exact hx
        · exact absurd (by simpa using hs) hc

theorem quantV_any (k : Interp → Bool) : ∀ (vs : List Sym) (I : Interp),
    (I.quant false vs k = true ↔ ∃ f : Sym → Val, DomOK I f vs ∧ k (updV I f vs) = true)
  | [], I => by simp [Interp.quant, updV_nil, DomOK]
  | v :: vs, I => by
    simp only [Interp.quant, Bool.false_eq_true, if_false, List.any_eq_true]
    constructor
    · rintro ⟨x, hx, h⟩
      obtain ⟨f, hf, hk⟩ := (quantV_any k vs (I.bind v x)).mp h
      rw [updV_bind_other] at hk
      refine ⟨_, ?_, hk⟩
      intro s hs
      simp only
      split
      · next hc => exact hf s (by simpa using hc)
      · next hc =>
        simp only [List.mem_cons] at hs
        rcases hs with rfl | hs
        · exact hx
        · exact absurd (by simpa using hs) hc
    · rintro ⟨f, hf, hk⟩
      refine ⟨f v, hf v (by simp), ?_⟩
      rw [quantV_any k vs]
      exact ⟨f, fun s hs => hf s (by simp [hs]), by rw [updV_bind_self]; exact hk⟩

/-! ## support of a predicate -/

/-- on well-formed interpretations `K` depends only on the values of the symbols in `S` (and on the
functions, domains and division-by-zero choices) -/
def Supp (S : List Sym) (K : Interp → Bool) : Prop :=
  ∀ J J' : Interp, J.WF → J'.WF → (∀ s ∈ S, J.sym s = J'.sym s) → J.fn = J'.fn → J.dom = J'.dom →
    J.div0r = J'.div0r → J.div0i = J'.div0i → K J = K J'

theorem Supp.mono {S S' : List Sym} {K : Interp → Bool} (h : Supp S K) (hs : ∀ s ∈ S, s ∈ S') : Supp S' K :=
  fun J J' hJ hJ' hsym => h J J' hJ hJ' (fun s hm => hsym s (hs s hm))

theorem Supp.congr {S : List Sym} {K K' : Interp → Bool} (h : Supp S K') (he : ∀ J : Interp, J.WF → K J = K' J) :
    Supp S K :=
  fun J J' hJ hJ' hsym hfn hd hr hi => by rw [he J hJ, he J' hJ']; exact h J J' hJ hJ' hsym hfn hd hr hi

theorem supp_truth (t : Term) : Supp t.fv (fun J => truth J t) := by
  intro J J' _ _ hsym hfn hd hr hi
  simp only [truth]
  congr 1
  exact coincidence_gen t J J' ⟨hsym, fun s _ => by rw [hfn], hd, hr, hi⟩

theorem supp_quant (all : Bool) {S : List Sym} {K : Interp → Bool} (h : Supp S K) (vs : List Sym) :
    Supp (S.filter (fun s => !vs.contains s)) (fun J => J.quant all vs K) := by
  have key : ∀ (ws : List Sym) (J J' : Interp), J.WF → J'.WF → (∀ s ∈ S, s ∉ ws → J.sym s = J'.sym s) →
      J.fn = J'.fn → J.dom = J'.dom → J.div0r = J'.div0r → J.div0i = J'.div0i →
      J.quant all ws K = J'.quant all ws K := by
    intro ws
    induction ws with
    | nil => intro J J' hJ hJ' hs hfn hd hr hi; exact h J J' hJ hJ' (fun s hm => hs s hm (by simp)) hfn hd hr hi
    | cons w ws ih =>
      intro J J' hJ hJ' hs hfn hd hr hi
      have step : ∀ x ∈ J.dom w.ret, (J.bind w x).quant all ws K = (J'.bind w x).quant all ws K := by
        intro x hx
        have hx' : x ∈ J'.dom w.ret := by rw [← hd]; exact hx
        apply ih _ _ (hJ.bind w x (hJ.dom_sort _ x hx)) (hJ'.bind w x (hJ'.dom_sort _ x hx')) _ hfn hd hr hi
        intro s hm hnw
        by_cases hsw : s = w
        · simp [Interp.bind, hsw]
        · simp only [Interp.bind, hsw, if_false]
          exact hs s hm (by simp [hsw, hnw])
      simp only [Interp.quant]
      rw [list_all_congr step, list_any_congr step, hd]
  intro J J' hJ hJ' hsym hfn hd hr hi
  exact key vs J J' hJ hJ' (fun s hm hn => hsym s (List.mem_filter.mpr ⟨hm, by simpa using hn⟩)) hfn hd hr hi

theorem indep_of_supp {S V : List Sym} {K : Interp → Bool} (h : Supp S K) (hd : ∀ s ∈ V, s ∉ S) : Indep V K := by
  intro J s v hJ hm hv
  apply h _ _ (hJ.bind s v hv) hJ _ rfl rfl rfl rfl
  intro x hx
  have : x ≠ s := fun e => hd s hm (e ▸ hx)
  simp [Interp.bind, this]

/-! ## the semantic side of a renaming -/

/-- value of the renamed symbol -/
def renLookup (ρ : List (Sym × Sym)) (s : Sym) : Option Sym := (ρ.find? (fun p => p.1 == s)).map (·.2)

/-- every renamed symbol `v` reads the value of its new name -/
def theta (ρ : List (Sym × Sym)) (J : Interp) : Interp :=
  { J with sym := fun s => match renLookup ρ s with | some w => J.sym w | none => J.sym s }

/-- the substitution map of a renaming -/
def tmap (ρ : List (Sym × Sym)) : List (Term × Term) := ρ.map (fun vw => (Term.sym vw.1, Term.sym vw.2))

theorem lookupT_tmap (ρ : List (Sym × Sym)) (s : Sym) :
    lookupT (tmap ρ) (Term.sym s) = (renLookup ρ s).map Term.sym := by
  induction ρ with
  | nil => rfl
  | cons p ρ ih =>
    unfold lookupT renLookup tmap at *
    simp only [List.map_cons, List.find?_cons, sym_beq]
    cases hb : (p.1 == s)
    · exact ih
    · rfl

theorem updT_tmap (ρ : List (Sym × Sym)) (J : Interp) : updT J (tmap ρ) = theta ρ J := by
  simp only [updT, theta]
  congr 1
  funext s
  rw [lookupT_tmap]
  cases renLookup ρ s with
  | none => rfl
  | some w => simp only [Option.map_some]; exact eval_symbol J w []

/-- a renaming between non-function symbols of equal sort -/
def RenOK (ρ : List (Sym × Sym)) : Prop := ∀ p ∈ ρ, p.1.params = [] ∧ p.2.params = [] ∧ p.2.ret = p.1.ret

theorem renLookup_mem {ρ : List (Sym × Sym)} {s w : Sym} (h : renLookup ρ s = some w) : (s, w) ∈ ρ := by
  unfold renLookup at h
  cases hf : ρ.find? (fun p => p.1 == s) with
  | none => rw [hf] at h; cases h
  | some p =>
    rw [hf] at h
    simp only [Option.map_some, Option.some.injEq] at h
    have h1 := List.find?_some hf
    have h2 := List.mem_of_find?_eq_some hf
    simp only [beq_iff_eq] at h1
    cases p with
    | mk a b => simp only at h1 h; subst h1; subst h; exact h2

theorem renLookup_none {ρ : List (Sym × Sym)} {s : Sym} (h : renLookup ρ s = none) : ∀ p ∈ ρ, p.1 ≠ s := by
  unfold renLookup at h
  cases hf : ρ.find? (fun p => p.1 == s) with
  | some p => rw [hf] at h; cases h
  | none =>
    intro p hp e
    have := List.find?_eq_none.mp hf p hp
    simp [e] at this

theorem renLookup_some_of_mem {ρ : List (Sym × Sym)} {s : Sym} (h : ∃ p ∈ ρ, p.1 = s) : ∃ w, renLookup ρ s = some w := by
  cases hr : renLookup ρ s with
  | some w => exact ⟨w, rfl⟩
  | none =>
    obtain ⟨p, hp, e⟩ := h
    exact absurd e (renLookup_none hr p hp)

theorem wf_sym {w : Sym} (hp : w.params = []) : (Term.sym w).wf = true := by
  have h := typeOf_sym hp
  rw [Term.sym, typeOf_node] at h
  exact Term.wf_node.mpr ⟨by simp, rfl, by rw [h]; rfl⟩

theorem subOK_tmap {ρ : List (Sym × Sym)} (h : RenOK ρ) : SubOK (tmap ρ) := by
  intro kv hkv
  obtain ⟨p, hp, rfl⟩ := List.mem_map.mp hkv
  obtain ⟨h1, h2, h3⟩ := h p hp
  exact ⟨p.1, rfl, h1, wf_sym h2, by rw [typeOf_sym h2, h3]⟩

theorem theta_wf {ρ : List (Sym × Sym)} (h : RenOK ρ) {J : Interp} (hJ : J.WF) : (theta ρ J).WF := by
  rw [← updT_tmap]; exact updT_wf hJ (subOK_tmap h)

theorem theta_dom (ρ : List (Sym × Sym)) (J : Interp) : (theta ρ J).dom = J.dom := rfl

/-- renaming in a quantifier-free Boolean matrix -/
theorem rename_spec {ρ : List (Sym × Sym)} (h : RenOK ρ) {m : Term} (hm : WB m) (hqf : m.isQF = true) :
    WB (substT (tmap ρ) m) ∧ (substT (tmap ρ) m).isQF = true ∧
    ∀ J : Interp, J.WF → truth J (substT (tmap ρ) m) = truth (theta ρ J) m := by
  have hs := substT_spec (subOK_tmap h) m hm.1 hqf
  refine ⟨⟨hs.1.1, by rw [hs.1.2]; exact hm.2⟩, hs.2.1 (fun kv hkv => ?_), fun J hJ => ?_⟩
  · obtain ⟨p, _, rfl⟩ := List.mem_map.mp hkv
    exact isQF_sym _
  · simp only [truth]
    rw [hs.2.2 J hJ, updT_tmap]

/-- the support after a renaming: the renamed symbols are replaced by their new names -/
theorem supp_theta {S : List Sym} {K : Interp → Bool} (hK : Supp S K) {ρ : List (Sym × Sym)} (hρ : RenOK ρ) :
    Supp (S.filter (fun s => (renLookup ρ s).isNone) ++ ρ.map (·.2)) (fun J => K (theta ρ J)) := by
  intro J J' hJ hJ' hsym hfn hd hr hi
  apply hK _ _ (theta_wf hρ hJ) (theta_wf hρ hJ') _ hfn hd hr hi
  intro s hs
  simp only [theta]
  cases hl : renLookup ρ s with
  | some w =>
    exact hsym w (List.mem_append_right _ (List.mem_map.mpr ⟨(s, w), renLookup_mem hl, rfl⟩))
  | none =>
    exact hsym s (List.mem_append_left _ (List.mem_filter.mpr ⟨hs, by simp [hl]⟩))

/-! ## renaming one block -/

def invLookup (ρ : List (Sym × Sym)) (s : Sym) : Option Sym := (ρ.find? (fun p => p.2 == s)).map (·.1)

theorem invLookup_mem {ρ : List (Sym × Sym)} {s v : Sym} (h : invLookup ρ s = some v) : (v, s) ∈ ρ := by
  unfold invLookup at h
  cases hf : ρ.find? (fun p => p.2 == s) with
  | none => rw [hf] at h; cases h
  | some p =>
    rw [hf] at h
    simp only [Option.map_some, Option.some.injEq] at h
    have h1 := List.find?_some hf
    have h2 := List.mem_of_find?_eq_some hf
    simp only [beq_iff_eq] at h1
    cases p with
    | mk a b => simp only at h1 h; subst h1; subst h; exact h2

theorem invLookup_none {ρ : List (Sym × Sym)} {s : Sym} (h : invLookup ρ s = none) : ∀ p ∈ ρ, p.2 ≠ s := by
  unfold invLookup at h
  cases hf : ρ.find? (fun p => p.2 == s) with
  | some p => rw [hf] at h; cases h
  | none =>
    intro p hp e
    have := List.find?_eq_none.mp hf p hp
    simp [e] at this

theorem snd_inj_of_nodup : ∀ {ρ : List (Sym × Sym)}, (ρ.map (·.2)).Nodup → ∀ p ∈ ρ, ∀ p' ∈ ρ, p.2 = p'.2 → p = p'
  | [], _, p, hp, _, _, _ => by cases hp
  | q :: ρ, hnd, p, hp, p', hp', e => by
    simp only [List.map_cons, List.nodup_cons, List.mem_map, not_exists, not_and] at hnd
    simp only [List.mem_cons] at hp hp'
    rcases hp with rfl | hp <;> rcases hp' with rfl | hp'
    · rfl
    · exact absurd e.symm (hnd.1 p' hp')
    · exact absurd e (hnd.1 p hp)
    · exact snd_inj_of_nodup hnd.2 p hp p' hp' e

/-- the data of the renaming of one block `vs`: the variables selected by `c` get the new names `ρ` -/
structure BlockRen (vs : List Sym) (c : Sym → Bool) (ρ : List (Sym × Sym)) (S : List Sym) : Prop where
  keys : ρ.map (·.1) = vs.filter c
  ok : RenOK ρ
  nd : (ρ.map (·.2)).Nodup
  freshVs : ∀ w ∈ ρ.map (·.2), w ∉ vs
  freshS : ∀ w ∈ ρ.map (·.2), w ∉ S

/-- the block after the renaming -/
def newBlock (vs : List Sym) (c : Sym → Bool) (ρ : List (Sym × Sym)) : List Sym :=
  vs.filter (fun v => !c v) ++ ρ.map (·.2)

section
variable {vs : List Sym} {c : Sym → Bool} {ρ : List (Sym × Sym)} {S : List Sym} (h : BlockRen vs c ρ S)
include h

theorem BlockRen.key_iff (s : Sym) : (∃ w, renLookup ρ s = some w) ↔ s ∈ vs ∧ c s = true := by
  constructor
  · rintro ⟨w, hw⟩
    have : s ∈ ρ.map (·.1) := List.mem_map.mpr ⟨(s, w), renLookup_mem hw, rfl⟩
    rw [h.keys] at this
    exact List.mem_filter.mp this
  · intro hs
    have : s ∈ ρ.map (·.1) := by rw [h.keys]; exact List.mem_filter.mpr hs
    obtain ⟨p, hp, e⟩ := List.mem_map.mp this
    exact renLookup_some_of_mem ⟨p, hp, e⟩

theorem BlockRen.mem_new_of_none {s : Sym} (hl : renLookup ρ s = none) (hs : s ∈ vs) : s ∈ newBlock vs c ρ := by
  apply List.mem_append_left
  refine List.mem_filter.mpr ⟨hs, ?_⟩
  cases hc : c s with
  | false => rfl
  | true =>
    obtain ⟨w, hw⟩ := (h.key_iff s).mpr ⟨hs, hc⟩
    rw [hl] at hw; cases hw

theorem BlockRen.mem_vs_of_new {s : Sym} (hs : s ∈ newBlock vs c ρ) (hS : s ∈ S) : s ∈ vs := by
  rcases List.mem_append.mp hs with h1 | h1
  · exact (List.mem_filter.mp h1).1
  · exact absurd hS (h.freshS s h1)

theorem BlockRen.agree (I : Interp) (f f' : Sym → Val)
    (hkey : ∀ s w, renLookup ρ s = some w → f s = f' w)
    (hkeep : ∀ s, renLookup ρ s = none → s ∈ vs → f s = f' s) :
    ∀ s ∈ S, (theta ρ (updV I f' (newBlock vs c ρ))).sym s = (updV I f vs).sym s := by
  intro s hS
  simp only [theta, updV]
  cases hl : renLookup ρ s with
  | some w =>
    have hw : w ∈ newBlock vs c ρ := List.mem_append_right _ (List.mem_map.mpr ⟨(s, w), renLookup_mem hl, rfl⟩)
    have hsv : s ∈ vs := ((h.key_iff s).mp ⟨w, hl⟩).1
    simp only [List.contains_eq_mem, hw, hsv, decide_true, if_true]
    exact (hkey s w hl).symm
  | none =>
    simp only
    by_cases hsv : s ∈ vs
    · have := h.mem_new_of_none hl hsv
      simp only [List.contains_eq_mem, this, hsv, decide_true, if_true]
      exact (hkeep s hl hsv).symm
    · have : s ∉ newBlock vs c ρ := fun hn => hsv (h.mem_vs_of_new hn hS)
      simp [List.contains_eq_mem, this, hsv]

/-- **alpha-renaming of one block** -/
theorem alpha_block {K : Interp → Bool} (hK : Supp S K) (all : Bool) (I : Interp) (hI : I.WF) :
    I.quant all (newBlock vs c ρ) (fun J => K (theta ρ J)) = I.quant all vs K := by
  -- from an assignment of the new block to one of the old block, and back
  let down : (Sym → Val) → (Sym → Val) := fun f' s => match renLookup ρ s with | some w => f' w | none => f' s
  let up : (Sym → Val) → (Sym → Val) := fun f s => match invLookup ρ s with | some v => f v | none => f s
  have down_dom : ∀ f', DomOK I f' (newBlock vs c ρ) → DomOK I (down f') vs := by
    intro f' hf s hs
    simp only [down]
    cases hl : renLookup ρ s with
    | some w =>
      have hm := renLookup_mem hl
      have hw : w ∈ newBlock vs c ρ := List.mem_append_right _ (List.mem_map.mpr ⟨(s, w), hm, rfl⟩)
      have := (h.ok _ hm).2.2
      simp only at this
      rw [← this]; exact hf w hw
    | none => exact hf s (h.mem_new_of_none hl hs)
  have up_dom : ∀ f, DomOK I f vs → DomOK I (up f) (newBlock vs c ρ) := by
    intro f hf s hs
    simp only [up]
    cases hl : invLookup ρ s with
    | some v =>
      have hm := invLookup_mem hl
      have hv : v ∈ vs := by
        have : v ∈ ρ.map (·.1) := List.mem_map.mpr ⟨(v, s), hm, rfl⟩
        rw [h.keys] at this; exact (List.mem_filter.mp this).1
      have := (h.ok _ hm).2.2
      simp only at this
      rw [this]; exact hf v hv
    | none =>
      rcases List.mem_append.mp hs with h1 | h1
      · exact hf s (List.mem_filter.mp h1).1
      · obtain ⟨p, hp, e⟩ := List.mem_map.mp h1
        exact absurd e (invLookup_none hl p hp)
  have down_agree : ∀ f', ∀ s ∈ S, (theta ρ (updV I f' (newBlock vs c ρ))).sym s = (updV I (down f') vs).sym s := by
    intro f'
    apply h.agree I (down f') f'
    · intro s w hl; simp only [down, hl]
    · intro s hl _; simp only [down, hl]
  have up_agree : ∀ f, ∀ s ∈ S, (theta ρ (updV I (up f) (newBlock vs c ρ))).sym s = (updV I f vs).sym s := by
    intro f
    apply h.agree I f (up f)
    · intro s w hl
      simp only [up]
      cases hi : invLookup ρ w with
      | some v =>
        have := snd_inj_of_nodup h.nd _ (invLookup_mem hi) _ (renLookup_mem hl) rfl
        simp only [Prod.mk.injEq] at this
        rw [this.1]
      | none => exact absurd rfl (invLookup_none hi _ (renLookup_mem hl))
    · intro s _ hs
      simp only [up]
      cases hi : invLookup ρ s with
      | some v =>
        have hm := invLookup_mem hi
        exact absurd hs (h.freshVs s (List.mem_map.mpr ⟨(v, s), hm, rfl⟩))
      | none => rfl
  have eqK : ∀ f f', DomOK I f vs → DomOK I f' (newBlock vs c ρ) →
      (∀ s ∈ S, (theta ρ (updV I f' (newBlock vs c ρ))).sym s = (updV I f vs).sym s) →
      K (theta ρ (updV I f' (newBlock vs c ρ))) = K (updV I f vs) :=
    fun f f' hf hf' hag => hK _ _ (theta_wf h.ok (updV_wf hI hf')) (updV_wf hI hf) hag rfl rfl rfl rfl
  rw [Bool.eq_iff_iff]
  cases all
  · rw [quantV_any, quantV_any]
    constructor
    · rintro ⟨f', hf', hk⟩
      exact ⟨down f', down_dom f' hf', by rw [← eqK _ f' (down_dom f' hf') hf' (down_agree f')]; exact hk⟩
    · rintro ⟨f, hf, hk⟩
      exact ⟨up f, up_dom f hf, by rw [eqK f _ hf (up_dom f hf) (up_agree f)]; exact hk⟩
  · rw [quantV_all, quantV_all]
    constructor
    · intro H f hf
      rw [← eqK f _ hf (up_dom f hf) (up_agree f)]
      exact H _ (up_dom f hf)
    · intro H f' hf'
      rw [eqK _ f' (down_dom f' hf') hf' (down_agree f')]
      exact H _ (down_dom f' hf')

end

end PySMT.Rewritings
