import PySMT.Proofs.C04Recon
/-!
# C04 — `get_type`, `bv_width`, `is_constant` of a node depend only on its tree
(so the copy of a node has the same type / width / constness as the original)
-/
namespace PySMT.Manager

theorem all₂_of_map_eq {src tgt : Mgr} :
    ∀ {l l' : List Nid}, l'.map tgt.struct = l.map src.struct → (∀ a ∈ l, 0 < a ∧ a < src.nextId) →
      (∀ b ∈ l', 0 < b ∧ b < tgt.nextId) → All₂ (Copy src tgt) l l'
  | [], [], _, _, _ => .nil
  | [], _ :: _, h, _, _ => by simp at h
  | _ :: _, [], h, _, _ => by simp at h
  | a :: t, b :: t', h, hu, hv => by
    simp only [List.map_cons, List.cons.injEq] at h
    have ha := hu a (by simp)
    have hb := hv b (by simp)
    exact .cons ⟨ha.1, ha.2, hb.1, hb.2, h.1⟩
      (all₂_of_map_eq h.2 (fun x hx => hu x (List.mem_cons_of_mem _ hx)) (fun x hx => hv x (List.mem_cons_of_mem _ hx)))

theorem all₂_split {α β : Type} {R : α → β → Prop} : ∀ {l1 l2 : List α} {l1' l2' : List β},
    All₂ R (l1 ++ l2) (l1' ++ l2') → l1.length = l1'.length → All₂ R l1 l1' ∧ All₂ R l2 l2'
  | [], _, [], _, h, _ => ⟨.nil, h⟩
  | [], _, _ :: _, _, _, hl => by simp at hl
  | _ :: _, _, [], _, _, hl => by simp at hl
  | a :: t, l2, b :: t', l2', h, hl => by
    cases h with
    | cons hab ht =>
      have := all₂_split ht (by simpa using hl)
      exact ⟨.cons hab this.1, this.2⟩

/-- What a faithful copy looks like one level down. -/
theorem copy_view {src tgt : Mgr} (hsrc : Inv src) (ht : Inv tgt) {a b : Nid} {ca cb : Content}
    (ha : (ca, a) ∈ src.formulae) (hb : (cb, b) ∈ tgt.formulae) (h : Copy src tgt a b) :
    cb.nodeType = ca.nodeType ∧ cb.payload.erase = ca.payload.erase ∧
    All₂ (Copy src tgt) ca.args cb.args ∧ All₂ (Copy src tgt) ca.payload.ids cb.payload.ids := by
  have heq := h.eq
  rw [struct_eq hsrc ha, struct_eq ht hb] at heq
  simp only [Term.node.injEq] at heq
  obtain ⟨hshape, hkids⟩ := heq
  have hv : ∀ x ∈ cb.ids, 0 < x ∧ x < tgt.nextId := by
    intro x hx
    have := ht.closed cb b hb x hx
    exact ⟨this.1, Nat.lt_trans this.2 (ht.range _ _ hb).2⟩
  have hu : ∀ x ∈ ca.ids, 0 < x ∧ x < src.nextId := by
    intro x hx
    have := hsrc.closed ca a ha x hx
    exact ⟨this.1, Nat.lt_trans this.2 (hsrc.range _ _ ha).2⟩
  have hall := all₂_of_map_eq hkids hu hv
  simp only [Content.shape, Content.mk.injEq] at hshape
  have hlen : ca.args.length = cb.args.length := by
    have := congrArg List.length hshape.2.1
    simpa using this.symm
  have := all₂_split (l1 := ca.args) (l2 := ca.payload.ids) (l1' := cb.args) (l2' := cb.payload.ids) hall hlen
  exact ⟨hshape.1, hshape.2.2, this.1, this.2⟩

theorem content?_zero {s : Mgr} (hs : Inv s) : s.content? 0 = none := by
  cases h : s.content? 0 with
  | none => rfl
  | some c => exact absurd (hs.range _ _ (content?_mem h)).1 (Nat.lt_irrefl 0)

theorem all₂_headD {src tgt : Mgr} {l l' : List Nid} (h : All₂ (Copy src tgt) l l') :
    (l = [] ∧ l' = []) ∨ Copy src tgt (l.headD 0) (l'.headD 0) := by
  cases h with
  | nil => exact Or.inl ⟨rfl, rfl⟩
  | cons hab _ => exact Or.inr hab

theorem all₂_getD1 {src tgt : Mgr} {l l' : List Nid} (h : All₂ (Copy src tgt) l l') :
    (l.getD 1 0 = 0 ∧ l'.getD 1 0 = 0 ∧ l.length ≤ 1) ∨ Copy src tgt (l.getD 1 0) (l'.getD 1 0) := by
  cases h with
  | nil => exact Or.inl ⟨rfl, rfl, by simp⟩
  | cons _ t =>
    cases t with
    | nil => exact Or.inl ⟨rfl, rfl, by simp⟩
    | cons hab _ => exact Or.inr hab

theorem typeView_erase (nt : Nat) (pl : Payload) (t0 t1 fty : Unit → Option Ty) :
    typeView nt pl.erase t0 t1 fty = typeView nt pl t0 t1 fty := by
  cases pl <;> rfl

theorem bvView_erase (nt : Nat) (pl : Payload) (w1 : Unit → Option Nat) (t fty : Unit → Option Ty) :
    bvView nt pl.erase w1 t fty = bvView nt pl w1 t fty := by
  cases pl <;> rfl

/-- the function symbol of a copied FUNCTION node has the same type -/
theorem fnType_copy {src tgt : Mgr} (hsrc : Inv src) (ht : Inv tgt) {ca cb : Content}
    (herase : cb.payload.erase = ca.payload.erase)
    (hids : All₂ (Copy src tgt) ca.payload.ids cb.payload.ids) : fnType tgt cb = fnType src ca := by
  unfold fnType
  cases hpa : ca.payload <;> cases hpb : cb.payload <;>
    simp only [hpa, hpb, Payload.erase] at herase <;> try (first | rfl | cases herase)
  next f f' =>
    rw [hpa, hpb] at hids
    simp only [Payload.ids] at hids
    cases hids with
    | cons hcp _ =>
      obtain ⟨cf, hcf⟩ := hsrc.full f hcp.spos hcp.slt
      obtain ⟨cf', hcf'⟩ := ht.full f' hcp.pos hcp.lt
      have hv := copy_view hsrc ht hcf hcf' hcp
      simp only [content?_of_mem hsrc hcf, content?_of_mem ht hcf']
      obtain ⟨n1, a1, p1⟩ := cf
      obtain ⟨n2, a2, p2⟩ := cf'
      have he : p2.erase = p1.erase := hv.2.1
      cases p1 <;> cases p2 <;> simp only [Payload.erase] at he <;> try (first | rfl | cases he)
      rfl

theorem typeOfAux_zero {s : Mgr} (hs : Inv s) (f : Nat) : typeOfAux s f 0 = none := by
  cases f with
  | zero => rfl
  | succ f => simp [typeOfAux, content?_zero hs]

theorem bvWidthAux_zero {s : Mgr} (hs : Inv s) (f : Nat) : bvWidthAux s f 0 = none := by
  cases f with
  | zero => rfl
  | succ f => simp [bvWidthAux, content?_zero hs]

theorem headD_mem {l : List Nid} (h : l ≠ []) : l.headD 0 ∈ l := by
  cases l with
  | nil => exact absurd rfl h
  | cons a t => simp

theorem getD1_mem {l : List Nid} (h : 1 < l.length) : l.getD 1 0 ∈ l := by
  match l, h with
  | _ :: b :: _, _ => simp

/-- **The type of a copy is the type of the original.** -/
theorem typeOfAux_copy {src tgt : Mgr} (hsrc : Inv src) (ht : Inv tgt) :
    ∀ (n : Nat) (a b fa fb : Nat), a < n → a < fa → b < fb → Copy src tgt a b →
      typeOfAux tgt fb b = typeOfAux src fa a := by
  intro n
  induction n with
  | zero => intro a b fa fb h; omega
  | succ n ih =>
    intro a b fa fb hn hfa hfb hcp
    obtain ⟨fa, rfl⟩ : ∃ f', fa = f' + 1 := ⟨fa - 1, by omega⟩
    obtain ⟨fb, rfl⟩ : ∃ f', fb = f' + 1 := ⟨fb - 1, by omega⟩
    obtain ⟨ca, hca⟩ := hsrc.full a hcp.spos hcp.slt
    obtain ⟨cb, hcb⟩ := ht.full b hcp.pos hcp.lt
    obtain ⟨hnt, herase, hargs, hpids⟩ := copy_view hsrc ht hca hcb hcp
    simp only [typeOfAux, content?_of_mem hsrc hca, content?_of_mem ht hcb]
    rw [hnt, ← typeView_erase _ cb.payload, herase, typeView_erase, fnType_copy hsrc ht herase hpids]
    have h0 : typeOfAux tgt fb (cb.args.headD 0) = typeOfAux src fa (ca.args.headD 0) := by
      rcases all₂_headD hargs with ⟨h1, h2⟩ | hc0
      · rw [h1, h2]; simp [typeOfAux_zero hsrc, typeOfAux_zero ht]
      · have hne : ca.args ≠ [] := by
          intro h; have := hc0.spos; rw [h] at this; simp at this
        have hne' : cb.args ≠ [] := by
          intro h; have := hc0.pos; rw [h] at this; simp at this
        have l1 := (hsrc.closed ca a hca _ (by simp [Content.ids]; exact Or.inl (headD_mem hne))).2
        have l2 := (ht.closed cb b hcb _ (by simp [Content.ids]; exact Or.inl (headD_mem hne'))).2
        exact ih _ _ fa fb (by omega) (by omega) (by omega) hc0
    have h1 : typeOfAux tgt fb (cb.args.getD 1 0) = typeOfAux src fa (ca.args.getD 1 0) := by
      rcases all₂_getD1 hargs with ⟨e1, e2, _⟩ | hc1
      · rw [e1, e2]; simp [typeOfAux_zero hsrc, typeOfAux_zero ht]
      · have hl : 1 < ca.args.length := by
          match hca' : ca.args, hargs with
          | [], _ => simp [hca'] at hc1; exact absurd hc1.spos (by simp)
          | [_], _ => simp [hca'] at hc1; exact absurd hc1.spos (by simp)
          | _ :: _ :: _, _ => simp
        have hl' : 1 < cb.args.length := by rw [← All₂.length_eq hargs]; exact hl
        have l1 := (hsrc.closed ca a hca _ (by simp [Content.ids]; exact Or.inl (getD1_mem hl))).2
        have l2 := (ht.closed cb b hcb _ (by simp [Content.ids]; exact Or.inl (getD1_mem hl'))).2
        exact ih _ _ fa fb (by omega) (by omega) (by omega) hc1
    rw [h0, h1]

theorem typeOf_copy {src tgt : Mgr} (hsrc : Inv src) (ht : Inv tgt) {a b : Nid} (h : Copy src tgt a b) :
    tgt.typeOf b = src.typeOf a :=
  typeOfAux_copy hsrc ht (a + 1) a b (a + 1) (b + 1) (by omega) (by omega) (by omega) h

/-- **The bit-width of a copy is the bit-width of the original.** -/
theorem bvWidthAux_copy {src tgt : Mgr} (hsrc : Inv src) (ht : Inv tgt) :
    ∀ (n : Nat) (a b fa fb : Nat), a < n → a < fa → b < fb → Copy src tgt a b →
      bvWidthAux tgt fb b = bvWidthAux src fa a := by
  intro n
  induction n with
  | zero => intro a b fa fb h; omega
  | succ n ih =>
    intro a b fa fb hn hfa hfb hcp
    obtain ⟨fa, rfl⟩ : ∃ f', fa = f' + 1 := ⟨fa - 1, by omega⟩
    obtain ⟨fb, rfl⟩ : ∃ f', fb = f' + 1 := ⟨fb - 1, by omega⟩
    obtain ⟨ca, hca⟩ := hsrc.full a hcp.spos hcp.slt
    obtain ⟨cb, hcb⟩ := ht.full b hcp.pos hcp.lt
    obtain ⟨hnt, herase, hargs, hpids⟩ := copy_view hsrc ht hca hcb hcp
    simp only [bvWidthAux, content?_of_mem hsrc hca, content?_of_mem ht hcb]
    rw [hnt, ← bvView_erase _ cb.payload, herase, bvView_erase, fnType_copy hsrc ht herase hpids]
    have h0 : tgt.typeOf (cb.args.headD 0) = src.typeOf (ca.args.headD 0) := by
      rcases all₂_headD hargs with ⟨h1, h2⟩ | hc0
      · rw [h1, h2]; simp [Mgr.typeOf, typeOfAux_zero hsrc, typeOfAux_zero ht]
      · exact typeOf_copy hsrc ht hc0
    have h1 : bvWidthAux tgt fb (cb.args.getD 1 0) = bvWidthAux src fa (ca.args.getD 1 0) := by
      rcases all₂_getD1 hargs with ⟨e1, e2, _⟩ | hc1
      · rw [e1, e2]; simp [bvWidthAux_zero hsrc, bvWidthAux_zero ht]
      · have hl : 1 < ca.args.length := by
          match hca' : ca.args, hargs with
          | [], _ => simp [hca'] at hc1; exact absurd hc1.spos (by simp)
          | [_], _ => simp [hca'] at hc1; exact absurd hc1.spos (by simp)
          | _ :: _ :: _, _ => simp
        have hl' : 1 < cb.args.length := by rw [← All₂.length_eq hargs]; exact hl
        have l1 := (hsrc.closed ca a hca _ (by simp [Content.ids]; exact Or.inl (getD1_mem hl))).2
        have l2 := (ht.closed cb b hcb _ (by simp [Content.ids]; exact Or.inl (getD1_mem hl'))).2
        exact ih _ _ fa fb (by omega) (by omega) (by omega) hc1
    rw [h0, h1]

theorem bvWidth_copy {src tgt : Mgr} (hsrc : Inv src) (ht : Inv tgt) {a b : Nid} (h : Copy src tgt a b) :
    tgt.bvWidth b = src.bvWidth a :=
  bvWidthAux_copy hsrc ht (a + 1) a b (a + 1) (b + 1) (by omega) (by omega) (by omega) h

theorem all₂_all {α β : Type} {R : α → β → Prop} {f : α → Bool} {f' : β → Bool} :
    ∀ {l : List α} {l' : List β}, All₂ R l l' → (∀ x y, R x y → x ∈ l → y ∈ l' → f' y = f x) →
      l'.all f' = l.all f
  | _, _, .nil, _ => rfl
  | _, _, .cons hab t, h => by
    simp only [List.all_cons]
    rw [h _ _ hab (by simp) (by simp),
      all₂_all t (fun x y hxy hx hy => h x y hxy (List.mem_cons_of_mem _ hx) (List.mem_cons_of_mem _ hy))]

/-- **A copy is a constant exactly when the original is.** -/
theorem isConstantAux_copy {src tgt : Mgr} (hsrc : Inv src) (ht : Inv tgt) :
    ∀ (n : Nat) (a b fa fb : Nat), a < n → a < fa → b < fb → Copy src tgt a b →
      isConstantAux tgt fb b = isConstantAux src fa a := by
  intro n
  induction n with
  | zero => intro a b fa fb h; omega
  | succ n ih =>
    intro a b fa fb hn hfa hfb hcp
    obtain ⟨fa, rfl⟩ : ∃ f', fa = f' + 1 := ⟨fa - 1, by omega⟩
    obtain ⟨fb, rfl⟩ : ∃ f', fb = f' + 1 := ⟨fb - 1, by omega⟩
    obtain ⟨ca, hca⟩ := hsrc.full a hcp.spos hcp.slt
    obtain ⟨cb, hcb⟩ := ht.full b hcp.pos hcp.lt
    obtain ⟨hnt, _, hargs, _⟩ := copy_view hsrc ht hca hcb hcp
    simp only [isConstantAux, content?_of_mem hsrc hca, content?_of_mem ht hcb, hnt]
    have : cb.args.all (isConstantAux tgt fb) = ca.args.all (isConstantAux src fa) := by
      apply all₂_all hargs
      intro x y hxy hx hy
      have l1 := (hsrc.closed ca a hca x (by simp [Content.ids]; exact Or.inl hx)).2
      have l2 := (ht.closed cb b hcb y (by simp [Content.ids]; exact Or.inl hy)).2
      exact ih x y fa fb (by omega) (by omega) (by omega) hxy
    rw [this]

theorem isConstant_copy {src tgt : Mgr} (hsrc : Inv src) (ht : Inv tgt) {a b : Nid} (h : Copy src tgt a b) :
    tgt.isConstant b = src.isConstant a :=
  isConstantAux_copy hsrc ht (a + 1) a b (a + 1) (b + 1) (by omega) (by omega) (by omega) h

/-! ## bit-vector operators: the callback recomputes the width payload from the rebuilt children -/

/-- like `recSpec_create`, the callback may consult the target state -/
theorem recSpec_create' {src : Mgr} (hsrc : Inv src) (addr : Nid → Nat) (same : Bool) {nt : Nat} {args : List Nid} {pl : Payload}
    {i : Nid} (hpl : pl.ids = [])
    (hrec : ∀ (tgt : Mgr) (g : Nid → Nid), Inv tgt → (∀ a ∈ args, Copy src tgt a (g a)) →
      (reconstruct src addr ⟨nt, args, pl⟩ (args.map g)).run tgt = (create ⟨nt, args.map g, pl⟩).run tgt) :
    RecSpec src addr same ⟨nt, args, pl⟩ i := by
  intro hc tgt g ht _ hg r tgt' hrun
  rw [show (Content.mk nt args pl).args = args from rfl, hrec tgt g ht hg] at hrun
  have hsm := shape_map nt args pl g hpl
  exact create_copy hsrc ht hc hsm.1 g hsm.2
    (fun a ha => hg a (by simpa [Content.ids, hpl] using ha)) hrun

theorem bvw_run {s : Mgr} {i : Nid} {w : Nat} (h : s.bvWidth i = some w) {β : Type} (f : Nat → Prog β) :
    ((bvw i).bind f).run s = (f w).run s := by
  simp [bvw, Prog.bind, Prog.run, h]

theorem Prog.bind_pure {α : Type} (p : Prog α) : p.bind (fun a => Prog.pure a) = p := by
  induction p with
  | pure a => rfl
  | fail e => rfl
  | read k ih => simp only [Prog.bind]; congr 1; funext s; exact ih s
  | prim q k ih => simp only [Prog.bind]; congr 1; funext i; exact ih i

def bvUnNTs : List Nat := [NT.BV_NOT, NT.BV_NEG]

def bvBinNTs : List Nat :=
  [NT.BV_AND, NT.BV_OR, NT.BV_ADD, NT.BV_MUL, NT.BV_XOR, NT.BV_SUB, NT.BV_UDIV, NT.BV_UREM, NT.BV_SDIV,
   NT.BV_SREM, NT.BV_LSHL, NT.BV_LSHR, NT.BV_ASHR]

theorem reconstruct_bvUn {nt : Nat} (h : nt ∈ bvUnNTs) (src : Mgr) (addr : Nid → Nat) (x : Nid) (pl : Payload)
    (y : Nid) : reconstruct src addr ⟨nt, [x], pl⟩ [y] = mkBVUn nt y := by
  simp only [bvUnNTs, List.mem_cons, List.not_mem_nil, or_false] at h
  rcases h with rfl | rfl <;> simp +decide [reconstruct]

theorem reconstruct_bvBin {nt : Nat} (h : nt ∈ bvBinNTs) (src : Mgr) (addr : Nid → Nat) (a b : Nid) (pl : Payload)
    (x y : Nid) : reconstruct src addr ⟨nt, [a, b], pl⟩ [x, y] = mkBVBin nt x y := by
  simp only [bvBinNTs, List.mem_cons, List.not_mem_nil, or_false] at h
  rcases h with rfl | rfl | rfl | rfl | rfl | rfl | rfl | rfl | rfl | rfl | rfl | rfl | rfl <;>
    simp +decide [reconstruct, mkBVNary, bvFold, mkBVShift, mkBVBin, bind, pure, Prog.bind_pure]

theorem recSpec_bvUn {src : Mgr} (hsrc : Inv src) (addr : Nid → Nat) (same : Bool) {nt : Nat} (h : nt ∈ bvUnNTs) (x : Nid)
    {w : Nat} (hw : src.bvWidth x = some w) (i : Nid) : RecSpec src addr same ⟨nt, [x], .nums [(w : Int)]⟩ i :=
  recSpec_create' hsrc addr same rfl (fun tgt g ht hg => by
    have hcp := hg x (by simp)
    have hw' : tgt.bvWidth (g x) = some w := by rw [bvWidth_copy hsrc ht hcp]; exact hw
    rw [show [x].map g = [g x] from rfl, reconstruct_bvUn h]
    show ((bvw (g x)).bind _).run tgt = _
    rw [bvw_run hw'])

theorem recSpec_bvBin {src : Mgr} (hsrc : Inv src) (addr : Nid → Nat) (same : Bool) {nt : Nat} (h : nt ∈ bvBinNTs) (x y : Nid)
    {w : Nat} (hw : src.bvWidth x = some w) (i : Nid) : RecSpec src addr same ⟨nt, [x, y], .nums [(w : Int)]⟩ i :=
  recSpec_create' hsrc addr same rfl (fun tgt g ht hg => by
    have hcp := hg x (by simp)
    have hw' : tgt.bvWidth (g x) = some w := by rw [bvWidth_copy hsrc ht hcp]; exact hw
    rw [show [x, y].map g = [g x, g y] from rfl, reconstruct_bvBin h]
    show ((bvw (g x)).bind _).run tgt = _
    rw [bvw_run hw'])

theorem recSpec_bvConcat {src : Mgr} (hsrc : Inv src) (addr : Nid → Nat) (same : Bool) (x y : Nid) {wl wr : Nat}
    (hl : src.bvWidth x = some wl) (hr : src.bvWidth y = some wr) (i : Nid) :
    RecSpec src addr same ⟨NT.BV_CONCAT, [x, y], .nums [((wl + wr : Nat) : Int)]⟩ i :=
  recSpec_create' hsrc addr same rfl (fun tgt g ht hg => by
    have hl' : tgt.bvWidth (g x) = some wl := by rw [bvWidth_copy hsrc ht (hg x (by simp))]; exact hl
    have hr' : tgt.bvWidth (g y) = some wr := by rw [bvWidth_copy hsrc ht (hg y (by simp))]; exact hr
    have : reconstruct src addr ⟨NT.BV_CONCAT, [x, y], .nums [((wl + wr : Nat) : Int)]⟩ ([x, y].map g) =
        mkBVConcat2 (g x) (g y) := by
      simp +decide [reconstruct, mkBVConcat, concatFold, bind, pure, Prog.bind_pure]
    rw [this]
    show ((bvw (g x)).bind _).run tgt = _
    rw [bvw_run hl']
    show ((bvw (g y)).bind _).run tgt = _
    rw [bvw_run hr']
    rfl)

theorem recSpec_bvExtract {src : Mgr} (hsrc : Inv src) (addr : Nid → Nat) (same : Bool) (x : Nid) {w : Nat} {st en : Int}
    (hw : src.bvWidth x = some w) (h1 : en ≥ st) (h2 : st ≥ 0) (h3 : en - st + 1 ≤ (w : Int)) (i : Nid) :
    RecSpec src addr same ⟨NT.BV_EXTRACT, [x], .nums [en - st + 1, st, en]⟩ i :=
  recSpec_create' hsrc addr same rfl (fun tgt g ht hg => by
    have hw' : tgt.bvWidth (g x) = some w := by rw [bvWidth_copy hsrc ht (hg x (by simp))]; exact hw
    have : reconstruct src addr ⟨NT.BV_EXTRACT, [x], .nums [en - st + 1, st, en]⟩ ([x].map g) =
        mkBVExtract (g x) st (some en) := by
      simp +decide [reconstruct, numAt]
    rw [this]
    show ((bvw (g x)).bind _).run tgt = _
    rw [bvw_run hw']
    simp [h1, h2, h3])

theorem recSpec_bvRot {src : Mgr} (hsrc : Inv src) (addr : Nid → Nat) (same : Bool) {nt : Nat}
    (h : nt = NT.BV_ROL ∨ nt = NT.BV_ROR) (x : Nid) {w : Nat} (steps : Int)
    (hw : src.bvWidth x = some w) (i : Nid) : RecSpec src addr same ⟨nt, [x], .nums [(w : Int), steps]⟩ i :=
  recSpec_create' hsrc addr same rfl (fun tgt g ht hg => by
    have hw' : tgt.bvWidth (g x) = some w := by rw [bvWidth_copy hsrc ht (hg x (by simp))]; exact hw
    have : reconstruct src addr ⟨nt, [x], .nums [(w : Int), steps]⟩ ([x].map g) = mkBVRot nt (g x) steps := by
      rcases h with rfl | rfl <;> simp +decide [reconstruct, numAt]
    rw [this]
    show ((bvw (g x)).bind _).run tgt = _
    rw [bvw_run hw']
    rfl)

theorem recSpec_bvExt {src : Mgr} (hsrc : Inv src) (addr : Nid → Nat) (same : Bool) {nt : Nat}
    (h : nt = NT.BV_ZEXT ∨ nt = NT.BV_SEXT) (x : Nid) {w : Nat} (inc : Int)
    (hw : src.bvWidth x = some w) (i : Nid) : RecSpec src addr same ⟨nt, [x], .nums [(w : Int) + inc, inc]⟩ i :=
  recSpec_create' hsrc addr same rfl (fun tgt g ht hg => by
    have hw' : tgt.bvWidth (g x) = some w := by rw [bvWidth_copy hsrc ht (hg x (by simp))]; exact hw
    have : reconstruct src addr ⟨nt, [x], .nums [(w : Int) + inc, inc]⟩ ([x].map g) = mkBVExt nt (g x) inc := by
      rcases h with rfl | rfl <;> simp +decide [reconstruct, numAt]
    rw [this]
    show ((bvw (g x)).bind _).run tgt = _
    rw [bvw_run hw']
    rfl)

/-! ## `ToReal`, `Div`, `Pow`: the callback inspects type / constness of the rebuilt children -/

theorem read_run {s : Mgr} {β γ : Type} (k : Mgr → Prog β) (f : β → Prog γ) :
    ((Prog.read k).bind f).run s = ((k s).bind f).run s := by
  simp [Prog.bind, Prog.run]

theorem recSpec_toReal {src : Mgr} (hsrc : Inv src) (addr : Nid → Nat) (same : Bool) (x : Nid)
    (hty : src.typeOf x = some .int) (hnc : ∀ cx, (cx, x) ∈ src.formulae → cx.nodeType ≠ NT.INT_CONSTANT) (i : Nid) :
    RecSpec src addr same ⟨NT.TOREAL, [x], .none⟩ i :=
  recSpec_create' hsrc addr same rfl (fun tgt g ht hg => by
    have hcp := hg x (by simp)
    have hty' : tgt.typeOf (g x) = some .int := by rw [typeOf_copy hsrc ht hcp]; exact hty
    obtain ⟨cx, hcx⟩ := hsrc.full x hcp.spos hcp.slt
    obtain ⟨cy, hcy⟩ := ht.full (g x) hcp.pos hcp.lt
    have hnt : cy.nodeType ≠ NT.INT_CONSTANT := by
      rw [(copy_view hsrc ht hcx hcy hcp).1]; exact hnc cx hcx
    have : reconstruct src addr ⟨NT.TOREAL, [x], .none⟩ ([x].map g) = mkToReal (g x) := by
      simp +decide [reconstruct]
    rw [this]
    simp only [mkToReal, typeOfP, bind]
    rw [read_run]
    simp only [hty']
    simp only [Prog.bind]
    rw [if_neg (by decide), if_pos trivial, getC_run (content?_of_mem ht hcy)]
    simp [hnt])

theorem erase_beq {p q : Payload} (h : p.erase = q.erase) (r : Payload) (hr : r.ids = [])
    (hv : ∀ l, r ≠ .vars l) : (p == r) = (q == r) := by
  rw [Bool.eq_iff_iff]
  cases p <;> cases q <;> simp only [Payload.erase] at h <;>
    first
    | (cases h; exact Iff.rfl)
    | (cases r <;> simp_all [Payload.ids])

theorem recSpec_div {src : Mgr} (hsrc : Inv src) (addr : Nid → Nat) (same : Bool) (x y : Nid)
    (hy : ∀ cy, (cy, y) ∈ src.formulae →
      cy.nodeType ≠ NT.REAL_CONSTANT ∨ cy.payload = .rat 0) (i : Nid) :
    RecSpec src addr same ⟨NT.DIV, [x, y], .none⟩ i :=
  recSpec_create' hsrc addr same rfl (fun tgt g ht hg => by
    have hcp := hg y (by simp)
    obtain ⟨cy, hcy⟩ := hsrc.full y hcp.spos hcp.slt
    obtain ⟨cz, hcz⟩ := ht.full (g y) hcp.pos hcp.lt
    have hv := copy_view hsrc ht hcy hcz hcp
    have : reconstruct src addr ⟨NT.DIV, [x, y], .none⟩ ([x, y].map g) = mkDiv (g x) (g y) := by
      simp +decide [reconstruct]
    rw [this]
    show ((getC (g y)).bind _).run tgt = _
    rw [getC_run (content?_of_mem ht hcz), hv.1]
    have e1 := erase_beq hv.2.1 (.rat 0) rfl (by intro l h; cases h)
    have e2 := erase_beq hv.2.1 (.int 0) rfl (by intro l h; cases h)
    rw [e1, e2]
    rcases hy cy hcy with h | h
    · simp [h]
    · by_cases hn : cy.nodeType = NT.REAL_CONSTANT <;> simp [h, hn])

theorem recSpec_pow {src : Mgr} (hsrc : Inv src) (addr : Nid → Nat) (same : Bool) (b e : Nid)
    (he : src.isConstant e = true) (hb : src.isConstant b = false) (i : Nid) :
    RecSpec src addr same ⟨NT.POW, [b, e], .none⟩ i :=
  recSpec_create' hsrc addr same rfl (fun tgt g ht hg => by
    have he' : tgt.isConstant (g e) = true := by rw [isConstant_copy hsrc ht (hg e (by simp))]; exact he
    have hb' : tgt.isConstant (g b) = false := by rw [isConstant_copy hsrc ht (hg b (by simp))]; exact hb
    have : reconstruct src addr ⟨NT.POW, [b, e], .none⟩ ([b, e].map g) = mkPow (g b) (g e) := by
      simp +decide [reconstruct]
    rw [this]
    simp only [mkPow, isConstP, bind]
    rw [read_run]
    simp only [Prog.bind, he']
    simp only [Bool.not_true, Bool.false_eq_true, if_false]
    simp [Prog.run, hb'])

/-! ## array values, for the rebuild inside the same manager -/

theorem insertByAddr_head {addr : Nid → Nat} {kv : Nid × Nid} : ∀ {t : List (Nid × Nid)},
    (∀ x ∈ t, addr kv.1 < addr x.1) → insertByAddr addr kv t = kv :: t
  | [], _ => rfl
  | h :: t, hlt => by
    simp only [insertByAddr]
    rw [if_pos (Nat.le_of_lt (hlt h (by simp)))]

/-- sorting an already sorted list of assignments changes nothing -/
theorem sortByAddr_sorted {addr : Nid → Nat} : ∀ {ps : List (Nid × Nid)}, SortedBy addr ps → sortByAddr addr ps = ps
  | [], _ => rfl
  | h :: t, hs => by
    have hs' := List.pairwise_cons.mp hs
    simp only [sortByAddr]
    rw [sortByAddr_sorted hs'.2, insertByAddr_head hs'.1]

theorem arrayAssignments_id {addr : Nid → Nat} {d : Nid} {ps : List (Nid × Nid)} (hs : SortedBy addr ps)
    (hd : ∀ kv ∈ ps, kv.2 ≠ d) : arrayAssignments addr d ps = ps := by
  unfold arrayAssignments
  rw [sortByAddr_sorted hs, List.filter_eq_self]
  intro kv hkv
  simpa using hd kv hkv

/-- `create_node` on a content that already exists leaves the state unchanged and returns the
    existing node — or raises, when the type checker rejects it (Python re-checks on this path) -/
theorem createNode_existing {s : Mgr} (hs : Inv s) {c : Content} {i : Nid} (h : (c, i) ∈ s.formulae) :
    (createNode c s).2 = s ∧ ∀ j, (createNode c s).1 = .ok j → j = i := by
  have hu : createNodeU c s = (.ok i, s) := by
    unfold createNodeU
    have hv : c.ids.all s.validId = true := by
      rw [List.all_eq_true]
      intro j hj
      have := hs.closed c i h j hj
      exact validId_iff.mpr ⟨this.1, Nat.lt_trans this.2 (hs.range _ _ h).2⟩
    rw [if_pos hv]
    cases ha : assoc c s.formulae with
    | none => exact absurd h (assoc_none ha i)
    | some j => rw [hs.tfun c i j h (assoc_some ha)]
  refine ⟨by rw [createNode_state, hu], fun j hj => ?_⟩
  have := ((createNode_ok_iff c s j).mp hj).1
  rw [hu] at this
  cases this; rfl

/-- a node of `src` is its own faithful copy in any extension of `src` -/
theorem copy_self {src tgt : Mgr} (hsrc : Inv src) (ht : Inv tgt) (he : Ext src tgt) {a : Nid}
    (a0 : 0 < a) (a1 : a < src.nextId) : Copy src tgt a a :=
  ⟨a0, a1, a0, Nat.lt_of_lt_of_le a1 he.next, struct_stable hsrc ht he (a + 1) a (by omega) a0 a1⟩

/-- in an extension of `src`, the only faithful copy of a node is the node itself -/
theorem copy_eq_self {src tgt : Mgr} (hsrc : Inv src) (ht : Inv tgt) (he : Ext src tgt) {a b : Nid}
    (h : Copy src tgt a b) : b = a := by
  have hs := copy_self hsrc ht he h.spos h.slt
  exact (struct_eq_iff ht h.pos h.lt hs.pos hs.lt).mp (by rw [h.eq, hs.eq])

theorem arrayCheck_none {s : Mgr} {it : Ty} {d : Nid} : ∀ {l : List (Nid × Nid)},
    (∀ kv ∈ l, s.isConstant kv.1 = true) → (∀ kv ∈ l, kv.2 ≠ d) → arrayCheck s it d l = none
  | [], _, _ => rfl
  | (k, v) :: t, hc, hd => by
    have h1 := hc (k, v) (by simp)
    have h2 := hd (k, v) (by simp)
    simp only at h1 h2
    simp only [arrayCheck, h1, Bool.not_true, Bool.false_eq_true, if_false, h2, false_and]
    exact arrayCheck_none (fun x hx => hc x (List.mem_cons_of_mem _ hx)) (fun x hx => hd x (List.mem_cons_of_mem _ hx))

theorem mem_flattenPairs_key : ∀ {ps : List (Nid × Nid)} {kv : Nid × Nid}, kv ∈ ps → kv.1 ∈ flattenPairs ps
  | (k, v) :: t, kv, h => by
    simp only [flattenPairs, List.mem_cons]
    rcases List.mem_cons.mp h with rfl | h'
    · left; rfl
    · right; right; exact mem_flattenPairs_key h'

theorem recSpec_array_same {src : Mgr} (hsrc : Inv src) (addr : Nid → Nat) (it : Ty) (d : Nid)
    (ps : List (Nid × Nid)) (hsort : SortedBy addr ps) (hnd : ∀ kv ∈ ps, kv.2 ≠ d)
    (hconst : ∀ kv ∈ ps, src.isConstant kv.1 = true) (i : Nid) :
    RecSpec src addr true ⟨NT.ARRAY_VALUE, d :: flattenPairs ps, .ty it⟩ i := by
  intro hc tgt g ht hsame hg r tgt' hrun
  have he := hsame rfl
  have hgid : (d :: flattenPairs ps).map g = d :: flattenPairs ps := by
    conv => rhs; rw [← List.map_id (d :: flattenPairs ps)]
    apply List.map_congr_left
    intro a ha
    exact copy_eq_self hsrc ht he (hg a ha)
  have hrec : reconstruct src addr ⟨NT.ARRAY_VALUE, d :: flattenPairs ps, .ty it⟩ (d :: flattenPairs ps) =
      .prim (.internTy it) fun _ => mkArray addr it d ps := by
    simp +decide [reconstruct, pairsOf_flattenPairs]
  rw [show (Content.mk NT.ARRAY_VALUE (d :: flattenPairs ps) (.ty it)).args = d :: flattenPairs ps from rfl,
    hgid, hrec] at hrun
  simp only [Prog.run, Prim.exec] at hrun
  have h1 := internTyPrim_spec it tgt ht
  have hi0 := (hsrc.range _ _ hc)
  cases hi : internTyPrim it tgt with
  | mk r1 t1 =>
    rw [hi] at hrun h1
    have hf1 : t1.nextId = tgt.nextId := by
      unfold internTyPrim at hi
      split at hi <;> (cases hi; rfl)
    cases r1 with
    | error e =>
      simp only [Prod.mk.injEq] at hrun
      obtain ⟨rfl, rfl⟩ := hrun
      exact ⟨h1.inv, h1.ext, fun b hb1 hb2 => by omega, by simp⟩
    | ok u =>
      simp only at hrun
      have he1 : Ext src t1 := he.trans h1.ext
      have hall : ∀ kv ∈ ps, t1.isConstant kv.1 = true := by
        intro kv hkv
        have hmem : kv.1 ∈ (Content.mk NT.ARRAY_VALUE (d :: flattenPairs ps) (.ty it)).ids := by
          simp only [Content.ids, Payload.ids, List.append_nil, List.mem_cons]
          exact Or.inr (mem_flattenPairs_key hkv)
        have hcl := hsrc.closed _ _ hc _ hmem
        have hcs := copy_self hsrc h1.inv he1 hcl.1 (Nat.lt_trans hcl.2 hi0.2)
        rw [isConstant_copy hsrc h1.inv hcs]
        exact hconst kv hkv
      have hrun' : (create ⟨NT.ARRAY_VALUE, d :: flattenPairs ps, .ty it⟩).run t1 = (r, tgt') := by
        rw [← hrun]
        simp only [mkArray, Prog.run, sortByAddr_sorted hsort, arrayCheck_none hall hnd, arrayAssignments_id hsort hnd]
      rw [create_run] at hrun'
      have hex := createNode_existing h1.inv (he1.sub _ hc)
      rw [hrun'] at hex
      obtain ⟨hst, hres⟩ := hex
      simp only at hst
      subst hst
      refine ⟨h1.inv, h1.ext, fun b hb1 hb2 => by omega, fun j hj => ?_⟩
      rw [hres j hj]
      exact copy_self hsrc h1.inv he1 hi0.1 hi0.2

/-- Contents the public constructors produce — all 66 node types.  `same = true` (rebuild in
    the source manager itself, same address function) additionally admits array values. -/
inductive Normal (src : Mgr) (addr : Nid → Nat) (same : Bool) : Content → Prop
  | base {c : Content} (h : NormalC src c) : Normal src addr same c
  | bvUn {nt : Nat} (h : nt ∈ bvUnNTs) (x : Nid) {w : Nat} (hw : src.bvWidth x = some w) :
      Normal src addr same ⟨nt, [x], .nums [(w : Int)]⟩
  | bvBin {nt : Nat} (h : nt ∈ bvBinNTs) (x y : Nid) {w : Nat} (hw : src.bvWidth x = some w) :
      Normal src addr same ⟨nt, [x, y], .nums [(w : Int)]⟩
  | bvConcat (x y : Nid) {wl wr : Nat} (hl : src.bvWidth x = some wl) (hr : src.bvWidth y = some wr) :
      Normal src addr same ⟨NT.BV_CONCAT, [x, y], .nums [((wl + wr : Nat) : Int)]⟩
  | bvExtract (x : Nid) {w : Nat} {st en : Int} (hw : src.bvWidth x = some w) (h1 : en ≥ st) (h2 : st ≥ 0)
      (h3 : en - st + 1 ≤ (w : Int)) : Normal src addr same ⟨NT.BV_EXTRACT, [x], .nums [en - st + 1, st, en]⟩
  | bvRot {nt : Nat} (h : nt = NT.BV_ROL ∨ nt = NT.BV_ROR) (x : Nid) {w : Nat} (steps : Int)
      (hw : src.bvWidth x = some w) : Normal src addr same ⟨nt, [x], .nums [(w : Int), steps]⟩
  | bvExt {nt : Nat} (h : nt = NT.BV_ZEXT ∨ nt = NT.BV_SEXT) (x : Nid) {w : Nat} (inc : Int)
      (hw : src.bvWidth x = some w) : Normal src addr same ⟨nt, [x], .nums [(w : Int) + inc, inc]⟩
  | toReal (x : Nid) (hty : src.typeOf x = some .int)
      (hnc : ∀ cx, (cx, x) ∈ src.formulae → cx.nodeType ≠ NT.INT_CONSTANT) :
      Normal src addr same ⟨NT.TOREAL, [x], .none⟩
  | div (x y : Nid) (hy : ∀ cy, (cy, y) ∈ src.formulae → cy.nodeType ≠ NT.REAL_CONSTANT ∨ cy.payload = .rat 0) :
      Normal src addr same ⟨NT.DIV, [x, y], .none⟩
  | pow (b e : Nid) (he : src.isConstant e = true) (hb : src.isConstant b = false) :
      Normal src addr same ⟨NT.POW, [b, e], .none⟩
  | array (hsame : same = true) (it : Ty) (d : Nid) (ps : List (Nid × Nid)) (hsort : SortedBy addr ps)
      (hnd : ∀ kv ∈ ps, kv.2 ≠ d) (hconst : ∀ kv ∈ ps, src.isConstant kv.1 = true) :
      Normal src addr same ⟨NT.ARRAY_VALUE, d :: flattenPairs ps, .ty it⟩

theorem recSpec_of_Normal {src : Mgr} (hsrc : Inv src) (addr : Nid → Nat) (same : Bool) {c : Content} (i : Nid)
    (h : Normal src addr same c) : RecSpec src addr same c i := by
  cases h with
  | base h => exact recSpec_of_normal hsrc addr same i h
  | bvUn h x hw => exact recSpec_bvUn hsrc addr same h x hw i
  | bvBin h x y hw => exact recSpec_bvBin hsrc addr same h x y hw i
  | bvConcat x y hl hr => exact recSpec_bvConcat hsrc addr same x y hl hr i
  | bvExtract x hw h1 h2 h3 => exact recSpec_bvExtract hsrc addr same x hw h1 h2 h3 i
  | bvRot h x steps hw => exact recSpec_bvRot hsrc addr same h x steps hw i
  | bvExt h x inc hw => exact recSpec_bvExt hsrc addr same h x inc hw i
  | toReal x hty hnc => exact recSpec_toReal hsrc addr same x hty hnc i
  | div x y hy => exact recSpec_div hsrc addr same x y hy i
  | pow b e he hb => exact recSpec_pow hsrc addr same b e he hb i
  | array hsame it d ps hsort hnd hconst =>
    subst hsame
    exact recSpec_array_same hsrc addr it d ps hsort hnd hconst i

end PySMT.Manager
