import PySMT.Proofs.C09ScriptRound
/-!
# C09: print → parse for the script of a formula, IN THE SAME ENVIRONMENT (any initial formula manager)

`script_print_parse_exact` / `script_print_parse_dag` run the printed script from `PEnv.init`, whose formula manager is
empty. In the real round trip (`SmtLibParser(env).get_script(...)`) `_reset()` clears the parser's cache but not the
environment's `FormulaManager` / `TypeManager`: the manager already holds every symbol of the formula (and possibly
others), the type manager already holds the declared sorts. Then `mkSymbol` finds the name and succeeds iff the stored
symbol is the declared one, and `declare-sort` finds the sort and succeeds iff the arity agrees.

This file generalises both script theorems to an arbitrary initial manager state `σ0`:
* `hσ : MgrLe σ0 ρ` — the manager knows only symbols of the name ↦ symbol assignment `ρ` (one name, one symbol; `ρ` also
  assigns the free symbols (`hρ`) and the bound variables (`parseOK`) of the formula),
* `hsorts` — a sort the type manager already knows under the name of a declared sort has the declared arity.

`pStM σ ia sorts funs` is `pSt ia sorts funs` with the manager `σ`; `sortIns` / `symIns` are the effect of one
`declare-sort` / `declare-fun` on the manager (nothing if the name is known), `mgrAfter σ0 t` the manager after all the
declarations of the script of `t`.
-/
namespace PySMT.Parser.Agree
open PySMT PySMT.Parser PySMT.Std PySMT.Sexp PySMT.Printer

/-! ## the state -/

/-- `pSt ia sorts funs` (the parser's cache after `set-logic` and the declarations) over the formula manager `σ` -/
def pStM (σ : MgrSt) (ia : Option Bool) (sorts : List (String × Nat)) (funs : List Sym) : PEnv :=
  { pSt ia sorts funs with mgr := σ }

theorem pStM_binds (σ : MgrSt) (ia : Option Bool) (sorts : List (String × Nat)) (funs : List Sym) :
    (pStM σ ia sorts funs).binds = (pSt ia sorts funs).binds := rfl

theorem pStM_intArith (σ : MgrSt) (ia : Option Bool) (sorts : List (String × Nat)) (funs : List Sym) :
    (pStM σ ia sorts funs).intArith = ia := rfl

theorem pStM_mgr (σ : MgrSt) (ia : Option Bool) (sorts : List (String × Nat)) (funs : List Sym) :
    (pStM σ ia sorts funs).mgr = σ := rfl

/-- `pSt` is `pStM` over the manager that holds exactly the declarations -/
theorem pSt_eq_pStM (ia : Option Bool) (sorts : List (String × Nat)) (funs : List Sym) :
    pSt ia sorts funs = pStM { symbols := funs.map (fun s => (s.name, s)), fresh := 0, sorts := sorts } ia sorts funs :=
  rfl

theorem pStM_init (σ0 : MgrSt) : pStM σ0 none [] [] = { PEnv.init with mgr := σ0 } := rfl

/-- `Corr` speaks about the cache and the arithmetic flag only, not about the formula manager -/
theorem corr_of_binds {env : SEnv} {sc : List Binding} {Γ1 Γ2 : PEnv} (hb : Γ1.binds = Γ2.binds)
    (hi : Γ1.intArith = Γ2.intArith) (h : Corr env sc Γ1) : Corr env sc Γ2 := by
  obtain ⟨b1, i1, m1⟩ := Γ1
  obtain ⟨b2, i2, m2⟩ := Γ2
  simp only at hb hi
  subst hb; subst hi
  exact ⟨h.scope, h.tt, h.ff, h.funs, h.funTok, h.nodefs, h.names, h.sorts, h.aliases, h.logic⟩

theorem corr_pStM (logic : String) (σ : MgrSt) (ia : Option Bool) (sorts : List (String × Nat)) (funs : List Sym)
    (henv : envOK { logic := logic, sorts := sorts, funs := funs } = true)
    (hia : ia.getD true = !(realsOnlyLogics.contains logic)) :
    Corr { logic := logic, sorts := sorts, funs := funs } [] (pStM σ ia sorts funs) :=
  corr_of_binds (Γ1 := pSt ia sorts funs) rfl rfl (corr_pSt logic ia sorts funs henv hia)

/-! ## one declaration's effect on the manager -/

/-- `type_manager.Type(name, arity)` for a name that may be known already -/
def sortIns (σ : MgrSt) (d : String × Nat) : MgrSt :=
  match σ.sorts.find? (fun e => e.1 == d.1) with
  | some _ => σ
  | none => { σ with sorts := d :: σ.sorts }

/-- `mgr.Symbol(name, type)` for a name that may be known already (with that type) -/
def symIns (σ : MgrSt) (s : Sym) : MgrSt :=
  match σ.symbols.find? (fun e => e.1 == s.name) with
  | some _ => σ
  | none => { σ with symbols := (s.name, s) :: σ.symbols }

/-- the manager after the declarations of the script of `t` -/
def mgrAfter (σ0 : MgrSt) (t : Term) : MgrSt := t.fv.eraseDups.foldl symIns ((sortDecls t).foldl sortIns σ0)

theorem sortIns_symbols (σ : MgrSt) (d : String × Nat) : (sortIns σ d).symbols = σ.symbols := by
  unfold sortIns; split <;> rfl

theorem sortIns_fresh (σ : MgrSt) (d : String × Nat) : (sortIns σ d).fresh = σ.fresh := by
  unfold sortIns; split <;> rfl

theorem symIns_sorts (σ : MgrSt) (s : Sym) : (symIns σ s).sorts = σ.sorts := by
  unfold symIns; split <;> rfl

theorem symIns_fresh (σ : MgrSt) (s : Sym) : (symIns σ s).fresh = σ.fresh := by
  unfold symIns; split <;> rfl

theorem sortIns_mem (σ : MgrSt) (d e : String × Nat) (h : e ∈ (sortIns σ d).sorts) : e ∈ σ.sorts ∨ e = d := by
  unfold sortIns at h
  split at h
  · exact Or.inl h
  · simp only [List.mem_cons] at h
    exact h.symm

theorem foldl_sortIns_symbols : ∀ (ds : List (String × Nat)) (σ : MgrSt), (ds.foldl sortIns σ).symbols = σ.symbols
  | [], _ => rfl
  | d :: ds, σ => by rw [List.foldl_cons, foldl_sortIns_symbols ds, sortIns_symbols]

theorem foldl_sortIns_fresh : ∀ (ds : List (String × Nat)) (σ : MgrSt), (ds.foldl sortIns σ).fresh = σ.fresh
  | [], _ => rfl
  | d :: ds, σ => by rw [List.foldl_cons, foldl_sortIns_fresh ds, sortIns_fresh]

theorem foldl_symIns_sorts : ∀ (fs : List Sym) (σ : MgrSt), (fs.foldl symIns σ).sorts = σ.sorts
  | [], _ => rfl
  | s :: fs, σ => by rw [List.foldl_cons, foldl_symIns_sorts fs, symIns_sorts]

theorem foldl_symIns_fresh : ∀ (fs : List Sym) (σ : MgrSt), (fs.foldl symIns σ).fresh = σ.fresh
  | [], _ => rfl
  | s :: fs, σ => by rw [List.foldl_cons, foldl_symIns_fresh fs, symIns_fresh]

/-- no fresh-name counter moves: the declarations create no fresh symbol -/
theorem mgrAfter_fresh (σ0 : MgrSt) (t : Term) : (mgrAfter σ0 t).fresh = σ0.fresh := by
  rw [mgrAfter, foldl_symIns_fresh, foldl_sortIns_fresh]

theorem mgrLe_sortIns {σ : MgrSt} {ρ : List (String × Sym)} (h : MgrLe σ ρ) (d : String × Nat) :
    MgrLe (sortIns σ d) ρ := by
  intro e he
  rw [sortIns_symbols] at he
  exact h e he

theorem mgrLe_foldl_sortIns {σ : MgrSt} {ρ : List (String × Sym)} (h : MgrLe σ ρ) (ds : List (String × Nat)) :
    MgrLe (ds.foldl sortIns σ) ρ := by
  intro e he
  rw [foldl_sortIns_symbols] at he
  exact h e he

theorem mgrLe_symIns {σ : MgrSt} {ρ : List (String × Sym)} (h : MgrLe σ ρ) (s : Sym) (hs : ρ.lookup s.name = some s) :
    MgrLe (symIns σ s) ρ := by
  intro e he
  unfold symIns at he
  split at he
  · exact h e he
  · simp only [List.mem_cons] at he
    rcases he with rfl | he
    · exact hs
    · exact h e he

/-- the symbol the manager holds under the name of a `ρ`-symbol is that symbol -/
theorem mkSymbol_mgrLe {σ : MgrSt} {ρ : List (String × Sym)} (h : MgrLe σ ρ) (s : Sym) (hs : ρ.lookup s.name = some s)
    (hemp : s.name.isEmpty = false) : mkSymbol σ s = .ok (s, symIns σ s) := by
  unfold mkSymbol symIns
  simp only [hemp, Bool.false_eq_true, if_false]
  cases hf : σ.symbols.find? (fun e => e.1 == s.name) with
  | none => rfl
  | some e =>
    obtain ⟨n, s'⟩ := e
    have hmem := List.mem_of_find?_eq_some hf
    have hn : n = s.name := by simpa using List.find?_some hf
    have := h _ hmem
    simp only [hn, hs, Option.some.injEq] at this
    simp only [this, if_true]

/-! ## the commands, one by one, over any manager -/

theorem cmd_setLogicM (σ0 : MgrSt) (logic : String) (hs : isSimpleSymbolChars logic.toList = true)
    (hr : isReserved logic = false) :
    cmd { PEnv.init with mgr := σ0 } (.list [.atom "set-logic", atomOfText logic]) =
      .ok (pStM σ0 ((logicEntry logic).map (·.2)) [] [], .setLogic ((logicEntry logic).map (·.1))) := by
  have ha : atomOfText logic = .atom logic := by
    simp [atomOfText, lexChars_simple _ hs, String.ofList_toList]
  have hp : pyTok logic = logic := pyTok_of_symName (symName?_simple logic hs hr)
  rw [ha, cmd_setLogic_eq]
  simp only [cmdSetLogic, toksOf, tokOf, hp, logicEntry]
  cases Gen.ParserOps.logics.find? (fun e => lower e.1 == lower logic) with
  | none => rfl
  | some e => rfl

/-- `declare-sort` of a sort the type manager may know already: accepted when the known arity is the declared one -/
theorem cmd_declareSortM (σ : MgrSt) (ia : Option Bool) (sorts : List (String × Nat)) (d : String × Nat)
    (hch : d.1.toList.all nameChar = true) (hr : isReserved d.1 = false)
    (hcompat : ∀ e ∈ σ.sorts, e.1 = d.1 → e.2 = d.2) :
    cmd (pStM σ ia sorts []) (declareSort d) = .ok (pStM (sortIns σ d) ia (d :: sorts) [], .declareSort d.1 d.2) := by
  obtain ⟨tok, htok, hsn⟩ := symTok d.1 hch hr
  have hnum := Lit.pyInt_numeral (natStr d.2) d.2 (numeral?_natStr d.2)
  have hneg : ¬ ((d.2 : Int) < 0) := by omega
  simp only [declareSort, sortAtom, htok, natAtom]
  rw [cmd_declareSort_eq]
  simp only [cmdDeclareSort, toksOf, tokOf, pyTok_of_symName hsn, hnum, hneg, if_false, pStM_mgr]
  unfold sortIns
  cases hf : σ.sorts.find? (fun e => e.1 == d.1) with
  | none =>
    simp only [pStM, pSt, Int.toNat_natCast, Int.natCast_eq_zero, List.map_cons, sortVal, List.map_nil,
      List.nil_append, List.cons_append]
  | some e =>
    obtain ⟨n, a'⟩ := e
    have hmem := List.mem_of_find?_eq_some hf
    have hn : n = d.1 := by simpa using List.find?_some hf
    have ha : a' = d.2 := hcompat _ hmem hn
    simp only [pStM, pSt, ha, Int.toNat_natCast, Int.natCast_eq_zero, List.map_cons, sortVal, List.map_nil,
      List.nil_append, List.cons_append, ne_eq, not_true_eq_false, if_false]

/-- `declare-fun` of a symbol the formula manager may know already -/
theorem cmd_declareFunM (logic : String) (ρ : List (String × Sym)) (σ : MgrSt) (ia : Option Bool)
    (sorts : List (String × Nat)) (funs : List Sym) (s : Sym)
    (hc : Corr { logic := logic, sorts := sorts, funs := funs } [] (pStM σ ia sorts funs))
    (hm : MgrLe σ ρ) (hρ : ρ.lookup s.name = some s)
    (hfine : nameFine s.name = true) (hne : pnameOK s.name = true)
    (hret : SortOK { logic := logic, sorts := sorts, funs := funs } s.ret = true)
    (hpar : ∀ t ∈ s.params, SortOK { logic := logic, sorts := sorts, funs := funs } t = true) :
    cmd (pStM σ ia sorts funs) (declareFun s)
      = .ok (pStM (symIns σ s) ia sorts (s :: funs), .declare "declare-fun" s) := by
  simp only [nameFine, Bool.and_eq_true, Bool.not_eq_true'] at hfine
  obtain ⟨⟨hch, hr⟩, _⟩ := hfine
  obtain ⟨tok, htok, hsn⟩ := symTok s.name hch hr
  have h1 := readTy_tySexp _ _ hc s.ret hret
  have h2 := readTyList_tySexp _ _ hc s.params hpar
  have hemp : s.name.isEmpty = false := by
    cases he : s.name.isEmpty with
    | false => rfl
    | true =>
      have : s.name = "" := by simpa using he
      rw [this] at hne
      revert hne; decide
  have hmk := mkSymbol_mgrLe hm s hρ hemp
  simp only [declareFun, htok]
  rw [cmd_declareFun_eq]
  simp only [cmdDeclareFun, h1, h2, pyTok_of_symName hsn, pStM_mgr, hmk]
  rfl

/-! ## the declarations -/

theorem run_declareSortsM (ia : Option Bool) : ∀ (ds : List (String × Nat)) (σ : MgrSt) (sorts : List (String × Nat)),
    (∀ d ∈ ds, d.1.toList.all nameChar = true ∧ isReserved d.1 = false) →
    allDistinct (ds.map (·.1)) = true →
    (∀ e ∈ σ.sorts, ∀ d ∈ ds, e.1 = d.1 → e.2 = d.2) →
    envAfter (pStM σ ia sorts []) (ds.map declareSort) = .ok (pStM (ds.foldl sortIns σ) ia (ds.reverse ++ sorts) []) ∧
      script (pStM σ ia sorts []) (ds.map declareSort) = .ok (ds.map (fun d => Command.declareSort d.1 d.2))
  | [], _, _, _, _, _ => ⟨rfl, rfl⟩
  | d :: ds, σ, sorts, h, hd, hcompat => by
    obtain ⟨h1, h2⟩ := h d (by simp)
    simp only [allDistinct, List.map_cons, Bool.and_eq_true, Bool.not_eq_true'] at hd
    have hstep := cmd_declareSortM σ ia sorts d h1 h2 (fun e he => hcompat e he d (by simp))
    obtain ⟨ih1, ih2⟩ := run_declareSortsM ia ds (sortIns σ d) (d :: sorts)
      (fun d' hd' => h d' (List.mem_cons_of_mem _ hd')) hd.2 (by
      intro e he d' hd' heq
      rcases sortIns_mem σ d e he with he | rfl
      · exact hcompat e he d' (List.mem_cons_of_mem _ hd') heq
      · exfalso
        have : d'.1 ∈ ds.map (·.1) := List.mem_map.2 ⟨d', hd', rfl⟩
        rw [← heq] at this
        have hc : e.1 ∉ ds.map (·.1) := by simpa using hd.1
        exact hc this)
    simp only [List.map_cons, List.foldl_cons]
    rw [envAfter_cons_ok hstep, script_cons_ok hstep, ih1, ih2]
    refine ⟨?_, rfl⟩
    simp only [List.reverse_cons, List.append_assoc, List.singleton_append]

theorem run_declareFunsM (logic : String) (ρ : List (String × Sym)) (ia : Option Bool) (sorts : List (String × Nat))
    (hia : ia.getD true = !(realsOnlyLogics.contains logic)) : ∀ (fs : List Sym) (σ : MgrSt) (funs : List Sym),
    envOK { logic := logic, sorts := sorts, funs := fs.reverse ++ funs } = true →
    (∀ s ∈ fs, nameFine s.name = true
      ∧ SortOK { logic := logic, sorts := sorts, funs := [] } s.ret = true
      ∧ ∀ t ∈ s.params, SortOK { logic := logic, sorts := sorts, funs := [] } t = true) →
    MgrLe σ ρ → (∀ s ∈ fs, ρ.lookup s.name = some s) →
    envAfter (pStM σ ia sorts funs) (fs.map declareFun) = .ok (pStM (fs.foldl symIns σ) ia sorts (fs.reverse ++ funs)) ∧
      script (pStM σ ia sorts funs) (fs.map declareFun) = .ok (fs.map (Command.declare "declare-fun")) ∧
      MgrLe (fs.foldl symIns σ) ρ
  | [], _, _, _, _, hm, _ => ⟨rfl, rfl, hm⟩
  | s :: fs, σ, funs, henv, h, hm, hρ => by
    obtain ⟨h1, h3, h4⟩ := h s (by simp)
    have hc : ∀ ty, SortOK ({ logic := logic, sorts := sorts, funs := funs } : SEnv) ty
        = SortOK { logic := logic, sorts := sorts, funs := [] } ty := fun ty =>
      SortOK_congr (env1 := { logic := logic, sorts := sorts, funs := funs })
        (env2 := { logic := logic, sorts := sorts, funs := [] }) rfl ty
    have henv' : envOK { logic := logic, sorts := sorts, funs := fs.reverse ++ (s :: funs) } = true := by
      simpa only [List.reverse_cons, List.append_assoc, List.singleton_append] using henv
    have henv0 : envOK { logic := logic, sorts := sorts, funs := funs } = true :=
      envOK_suffix logic sorts (fs.reverse ++ [s]) funs (by
        simpa only [List.reverse_cons, List.append_assoc, List.singleton_append] using henv)
    have hpn : pnameOK s.name = true := envOK_pname henv' (s := s) (by simp)
    have hs := hρ s (by simp)
    have hstep := cmd_declareFunM logic ρ σ ia sorts funs s (corr_pStM logic σ ia sorts funs henv0 hia) hm hs h1 hpn
      (by rw [hc]; exact h3) (fun t ht => by rw [hc]; exact h4 t ht)
    obtain ⟨ih1, ih2, ih3⟩ := run_declareFunsM logic ρ ia sorts hia fs (symIns σ s) (s :: funs) henv'
      (fun s' hs' => h s' (List.mem_cons_of_mem _ hs')) (mgrLe_symIns hm s hs)
      (fun s' hs' => hρ s' (List.mem_cons_of_mem _ hs'))
    simp only [List.map_cons, List.foldl_cons]
    rw [envAfter_cons_ok hstep, script_cons_ok hstep, ih1, ih2]
    refine ⟨?_, rfl, ih3⟩
    simp only [List.reverse_cons, List.append_assoc, List.singleton_append]

/-- the compatibility of the type manager with the script's `declare-sort`s: a sort it knows under the name of a declared
sort has the declared arity (`type_manager.Type(name, arity)` raises `PysmtValueError` otherwise) -/
def SortsCompat (σ0 : MgrSt) (t : Term) : Prop := ∀ e ∈ σ0.sorts, ∀ d ∈ sortDecls t, e.1 = d.1 → e.2 = d.2

/-- **After the declarations**, from any formula manager `σ0` that knows only `ρ`-symbols and compatible sorts: the
cache is the one of `penvOf (scriptEnv logic t)`, the manager is `mgrAfter σ0 t` and still knows only `ρ`-symbols. -/
theorem envAfter_declsM (logic : String) (ρ : List (String × Sym)) (t : Term) (σ0 : MgrSt)
    (hσ : MgrLe σ0 ρ) (hsorts : SortsCompat σ0 t)
    (hs : ScriptOK logic t = true) (hl : logicOK logic = true) (henv : envOK (scriptEnv logic t) = true)
    (hρ : ∀ s ∈ t.fv.eraseDups, ρ.lookup s.name = some s) :
    envAfter { PEnv.init with mgr := σ0 } ([Sexp.list [.atom "set-logic", atomOfText logic]]
        ++ (sortDecls t).map declareSort ++ t.fv.eraseDups.map declareFun)
      = .ok (pStM (mgrAfter σ0 t) ((logicEntry logic).map (·.2)) (sortDecls t).reverse t.fv.eraseDups.reverse) ∧
    script { PEnv.init with mgr := σ0 } ([Sexp.list [.atom "set-logic", atomOfText logic]]
        ++ (sortDecls t).map declareSort ++ t.fv.eraseDups.map declareFun)
      = .ok ([Command.setLogic ((logicEntry logic).map (·.1))]
          ++ (sortDecls t).map (fun d => Command.declareSort d.1 d.2)
          ++ t.fv.eraseDups.map (Command.declare "declare-fun")) ∧
    Corr (scriptEnv logic t) []
      (pStM (mgrAfter σ0 t) ((logicEntry logic).map (·.2)) (sortDecls t).reverse t.fv.eraseDups.reverse) ∧
    MgrLe (mgrAfter σ0 t) ρ := by
  obtain ⟨hls, hlr, hsd, hsf, hfd, hff⟩ := scriptOK_decls hs
  have hia := logicOK_ia logic hl
  have h0 := cmd_setLogicM σ0 logic hls hlr
  obtain ⟨a1, a2⟩ := run_declareSortsM ((logicEntry logic).map (·.2)) (sortDecls t) σ0 [] hsf hsd hsorts
  rw [List.append_nil] at a1
  obtain ⟨b1, b2, b3⟩ := run_declareFunsM logic ρ ((logicEntry logic).map (·.2)) (sortDecls t).reverse hia
    t.fv.eraseDups ((sortDecls t).foldl sortIns σ0) []
    (by rw [List.append_nil]; exact henv)
    (fun s hs' => by
      obtain ⟨g1, g2, g3⟩ := hff s hs'
      refine ⟨g1, ?_, ?_⟩
      · rw [← g2]
        exact SortOK_congr (env1 := { logic := logic, sorts := (sortDecls t).reverse, funs := [] })
          (env2 := scriptEnv logic t) rfl _
      · intro ty hty
        rw [← g3 ty hty]
        exact SortOK_congr (env1 := { logic := logic, sorts := (sortDecls t).reverse, funs := [] })
          (env2 := scriptEnv logic t) rfl _)
    (mgrLe_foldl_sortIns hσ _) hρ
  rw [List.append_nil] at b1
  obtain ⟨c1, c2⟩ := script_append _ (t.fv.eraseDups.map declareFun) _ _ _ a1 a2
  rw [b2] at c1
  rw [b1] at c2
  refine ⟨?_, ?_, corr_pStM logic _ _ _ _ henv hia, b3⟩
  · rw [List.append_assoc, List.singleton_append, envAfter_cons_ok h0, c2]
    rfl
  · rw [List.append_assoc, List.singleton_append, script_cons_ok h0, c1]
    simp [Except.map]

/-! ## the script -/

/-- **Print → parse round trip for the script of a formula, in the same environment** (tree form of the assertion):
`script_print_parse_exact` from ANY initial formula manager `σ0` that knows only symbols of `ρ` (`hσ`; `ρ` assigns the
free symbols and the bound variables of `t`: `hρ`, `parseOK`) and whose type manager agrees with the declared sorts on
their arities (`hsorts`). `σ0` may hold the symbols of `t` already, other symbols, other sorts, any fresh-name counter. -/
theorem script_print_parse_mgr (logic : String) (ρ : List (String × Sym)) (t : Term) (σ0 : MgrSt)
    (hσ : MgrLe σ0 ρ) (hsorts : SortsCompat σ0 t)
    (hs : ScriptOK logic t = true) (hl : logicOK logic = true) (henv : envOK (scriptEnv logic t) = true)
    (hρ : ∀ s ∈ t.fv.eraseDups, ρ.lookup s.name = some s)
    (hQ : parseOK (scriptEnv logic t) ρ t = true) (hN : mgrNormal t = true) :
    script { PEnv.init with mgr := σ0 } (scriptOfFormula logic false t) = .ok (scriptCommands logic t) := by
  obtain ⟨e1, e2, hcorr, hm⟩ := envAfter_declsM logic ρ t σ0 hσ hsorts hs hl henv hρ
  obtain ⟨hbool, hP⟩ := scriptOK_parts hs
  obtain ⟨σ', hassert, _⟩ := cmd_assert (scriptEnv logic t) ρ _ hcorr hm t hbool hP hQ hN
  obtain ⟨c1, _⟩ := script_append _ [.list [.atom "assert", toSexp t], .list [.atom "check-sat"]] _ _ _ e1 e2
  simp only [scriptOfFormula, Bool.false_eq_true, if_false]
  rw [c1, script_cons_ok hassert, script_cons_ok (cmd_checkSat _)]
  simp [script, Except.map, scriptCommands]

/-- the commands of `scriptOfFormula` around any assertion text of the fragment, from any initial manager -/
theorem script_print_parse_text_mgr (logic : String) (ρ : List (String × Sym)) (t : Term) (σ0 : MgrSt)
    (hσ : MgrLe σ0 ρ) (hsorts : SortsCompat σ0 t) (hs : ScriptOK logic t = true)
    (hl : logicOK logic = true) (henv : envOK (scriptEnv logic t) = true)
    (hρ : ∀ s ∈ t.fv.eraseDups, ρ.lookup s.name = some s)
    (a : Sexp) (u : Term) (hrd : rd (scriptEnv logic t) [] a = .ok (u, .bool))
    (hfrag : FragS (scriptEnv logic t) ρ a = true) (hrot : RotOK (scriptEnv logic t) [] a = true) :
    script { PEnv.init with mgr := σ0 } ([Sexp.list [.atom "set-logic", atomOfText logic]]
        ++ (sortDecls t).map declareSort
        ++ t.fv.eraseDups.map declareFun ++ [.list [.atom "assert", a], .list [.atom "check-sat"]])
      = .ok ([Command.setLogic ((logicEntry logic).map (·.1))]
          ++ (sortDecls t).map (fun d => Command.declareSort d.1 d.2)
          ++ t.fv.eraseDups.map (Command.declare "declare-fun")
          ++ [Command.assert (mkNorm u), Command.plain "check-sat" []]) := by
  obtain ⟨e1, e2, hcorr, hm⟩ := envAfter_declsM logic ρ t σ0 hσ hsorts hs hl henv hρ
  obtain ⟨σ', hv, _, htok⟩ := agree (scriptEnv logic t) ρ a hfrag [] _ true hcorr hm hrot u .bool hrd
  have hassert : cmd (pStM (mgrAfter σ0 t) ((logicEntry logic).map (·.2)) (sortDecls t).reverse t.fv.eraseDups.reverse)
      (.list [.atom "assert", a]) = .ok ({ pStM (mgrAfter σ0 t) ((logicEntry logic).map (·.2)) (sortDecls t).reverse
        t.fv.eraseDups.reverse with mgr := σ' }, .assert (mkNorm u)) := by
    rw [cmd_assert_eq]
    simp only [cmdAssert, readTermSt, hv, htok.ty, beq_self_eq_true, if_true]
  obtain ⟨c1, _⟩ := script_append _ [.list [.atom "assert", a], .list [.atom "check-sat"]] _ _ _ e1 e2
  rw [c1, script_cons_ok hassert, script_cons_ok (cmd_checkSat _)]
  simp [script, Except.map]

/-- **Print → parse round trip for the script of a formula, DAG form, in the same environment**: `script_print_parse_dag`
from any initial formula manager `σ0` (hypotheses `hσ`, `hsorts` as in `script_print_parse_mgr`). -/
theorem script_print_parse_dag_mgr (logic : String) (ρ : List (String × Sym)) (t : Term) (σ0 : MgrSt)
    (hσ : MgrLe σ0 ρ) (hsorts : SortsCompat σ0 t)
    (hs : ScriptOK logic t = true) (hl : logicOK logic = true) (henv : envOK (scriptEnv logic t) = true)
    (hρ : ∀ s ∈ t.fv.eraseDups, ρ.lookup s.name = some s) (hdf : defFree (scriptEnv logic t))
    (hq : noQuant t = true) (hQ : parseOK (scriptEnv logic t) ρ t = true) (hN : mgrNormal t = true) :
    script { PEnv.init with mgr := σ0 } (scriptOfFormula logic true t)
      = .ok ([Command.setLogic ((logicEntry logic).map (·.1))]
          ++ (sortDecls t).map (fun d => Command.declareSort d.1 d.2)
          ++ t.fv.eraseDups.map (Command.declare "declare-fun")
          ++ [Command.assert (unfoldAVw false t), Command.plain "check-sat" []]) := by
  obtain ⟨hbool, hP⟩ := scriptOK_parts hs
  have hrd := Printer.readStd_toSexpDag (scriptEnv logic t) t (dagOK_of_printable' _ t hP hq)
  have hτ : tyD t = .bool := by simp [tyD, hbool]
  rw [hτ] at hrd
  simp only [readStdTy, List.reverse_nil, List.map_nil] at hrd
  have h := script_print_parse_text_mgr logic ρ t σ0 hσ hsorts hs hl henv hρ (toSexpDag t) (unfoldAVw false t) hrd
    (fragS_toSexpDag _ ρ hdf t hP hq hQ) (rotOK_toSexpDag_full _ t hP hq)
  rw [mkNorm_of_normal _ (mgrNormal_unfold _ false t [] hP hN)] at h
  simp only [scriptOfFormula, if_true]
  exact h

/-- the parser's environment after the WHOLE script (tree form): the cache of the declarations, and a manager that still
knows only `ρ`-symbols — the round trip leaves the environment's formula manager consistent with `ρ` -/
theorem envAfter_script_mgr (logic : String) (ρ : List (String × Sym)) (t : Term) (σ0 : MgrSt)
    (hσ : MgrLe σ0 ρ) (hsorts : SortsCompat σ0 t)
    (hs : ScriptOK logic t = true) (hl : logicOK logic = true) (henv : envOK (scriptEnv logic t) = true)
    (hρ : ∀ s ∈ t.fv.eraseDups, ρ.lookup s.name = some s)
    (hQ : parseOK (scriptEnv logic t) ρ t = true) (hN : mgrNormal t = true) :
    ∃ σ', envAfter { PEnv.init with mgr := σ0 } (scriptOfFormula logic false t)
        = .ok (pStM σ' ((logicEntry logic).map (·.2)) (sortDecls t).reverse t.fv.eraseDups.reverse) ∧ MgrLe σ' ρ := by
  obtain ⟨e1, e2, hcorr, hm⟩ := envAfter_declsM logic ρ t σ0 hσ hsorts hs hl henv hρ
  obtain ⟨hbool, hP⟩ := scriptOK_parts hs
  obtain ⟨σ', hassert, hm'⟩ := cmd_assert (scriptEnv logic t) ρ _ hcorr hm t hbool hP hQ hN
  obtain ⟨_, c2⟩ := script_append _ [.list [.atom "assert", toSexp t], .list [.atom "check-sat"]] _ _ _ e1 e2
  refine ⟨σ', ?_, hm'⟩
  simp only [scriptOfFormula, Bool.false_eq_true, if_false]
  rw [c2, envAfter_cons_ok hassert, envAfter_cons_ok (cmd_checkSat _)]
  rfl

/-- the theorems from the empty manager are the instance `σ0 = {}` -/
theorem script_print_parse_exact_of_mgr (logic : String) (ρ : List (String × Sym)) (t : Term)
    (hs : ScriptOK logic t = true) (hl : logicOK logic = true) (henv : envOK (scriptEnv logic t) = true)
    (hρ : ∀ s ∈ t.fv.eraseDups, ρ.lookup s.name = some s)
    (hQ : parseOK (scriptEnv logic t) ρ t = true) (hN : mgrNormal t = true) :
    script PEnv.init (scriptOfFormula logic false t) = .ok (scriptCommands logic t) :=
  script_print_parse_mgr logic ρ t {} (fun _ he => by cases he) (fun _ he => by cases he) hs hl henv hρ hQ hN

/-! ## the hypotheses are necessary: a clash is rejected -/

/-- `mgr.Symbol(name, type)` for a name the manager holds with another type: `PysmtTypeError` -/
theorem mkSymbol_clash (σ : MgrSt) (s s' : Sym) (n : String) (hemp : s.name.isEmpty = false)
    (hf : σ.symbols.find? (fun e => e.1 == s.name) = some (n, s')) (hne : s' ≠ s) :
    mkSymbol σ s = .error .type := by
  unfold mkSymbol
  simp only [hemp, Bool.false_eq_true, if_false, hf, hne]

/-- `declare-sort` of a name the type manager knows with another arity is rejected (`PysmtValueError`) — `hsorts` of the
script theorems cannot be dropped -/
theorem cmd_declareSort_clash (σ : MgrSt) (ia : Option Bool) (sorts : List (String × Nat)) (d : String × Nat)
    (hch : d.1.toList.all nameChar = true) (hr : isReserved d.1 = false) (n : String) (a' : Nat)
    (hf : σ.sorts.find? (fun e => e.1 == d.1) = some (n, a')) (hne : a' ≠ d.2) :
    cmd (pStM σ ia sorts []) (declareSort d) = .error .value := by
  obtain ⟨tok, htok, hsn⟩ := symTok d.1 hch hr
  have hnum := Lit.pyInt_numeral (natStr d.2) d.2 (numeral?_natStr d.2)
  have hneg : ¬ ((d.2 : Int) < 0) := by omega
  simp only [declareSort, sortAtom, htok, natAtom]
  rw [cmd_declareSort_eq]
  simp only [cmdDeclareSort, toksOf, tokOf, pyTok_of_symName hsn, hnum, hneg, if_false, pStM_mgr, hf,
    Int.toNat_natCast, ne_eq, hne, not_false_eq_true, if_true]

/-- `declare-fun` of a name the formula manager holds with another type is rejected (`PysmtTypeError`) — `hσ` of the script
theorems cannot be dropped -/
theorem cmd_declareFun_clash (logic : String) (σ : MgrSt) (ia : Option Bool)
    (sorts : List (String × Nat)) (funs : List Sym) (s s' : Sym) (n : String)
    (hc : Corr { logic := logic, sorts := sorts, funs := funs } [] (pStM σ ia sorts funs))
    (hf : σ.symbols.find? (fun e => e.1 == s.name) = some (n, s')) (hne' : s' ≠ s)
    (hfine : nameFine s.name = true) (hne : pnameOK s.name = true)
    (hret : SortOK { logic := logic, sorts := sorts, funs := funs } s.ret = true)
    (hpar : ∀ t ∈ s.params, SortOK { logic := logic, sorts := sorts, funs := funs } t = true) :
    cmd (pStM σ ia sorts funs) (declareFun s) = .error .type := by
  simp only [nameFine, Bool.and_eq_true, Bool.not_eq_true'] at hfine
  obtain ⟨⟨hch, hr⟩, _⟩ := hfine
  obtain ⟨tok, htok, hsn⟩ := symTok s.name hch hr
  have h1 := readTy_tySexp _ _ hc s.ret hret
  have h2 := readTyList_tySexp _ _ hc s.params hpar
  have hemp : s.name.isEmpty = false := by
    cases he : s.name.isEmpty with
    | false => rfl
    | true =>
      have : s.name = "" := by simpa using he
      rw [this] at hne
      revert hne; decide
  have hmk := mkSymbol_clash σ s s' n hemp hf hne'
  simp only [declareFun, htok]
  rw [cmd_declareFun_eq]
  simp only [cmdDeclareFun, h1, h2, pyTok_of_symName hsn, pStM_mgr, hmk]

/-! ## the manager that built the formula -/

/-- the environment's managers after building `t`: the formula manager holds the free symbols of `t` and any other
symbols `extra` (bound variables of `t`, symbols of other formulas), the type manager holds the sorts of `t`; any
fresh-name counter -/
def mgrOf (t : Term) (extra : List Sym) (fresh : Nat) : MgrSt :=
  { symbols := (t.fv.eraseDups ++ extra).map (fun s => (s.name, s)), fresh := fresh, sorts := sortDecls t }

theorem allDistinct_inj : ∀ (l : List (String × Nat)), allDistinct (l.map (·.1)) = true →
    ∀ e ∈ l, ∀ d ∈ l, e.1 = d.1 → e = d
  | [], _, e, he, _, _, _ => by cases he
  | x :: xs, h, e, he, d, hd, heq => by
    simp only [allDistinct, List.map_cons, Bool.and_eq_true, Bool.not_eq_true'] at h
    have hx : x.1 ∉ xs.map (·.1) := by simpa using h.1
    simp only [List.mem_cons] at he hd
    rcases he with rfl | he <;> rcases hd with rfl | hd
    · rfl
    · exact absurd (heq ▸ List.mem_map.2 ⟨d, hd, rfl⟩) hx
    · exact absurd (heq ▸ List.mem_map.2 ⟨e, he, rfl⟩) hx
    · exact allDistinct_inj xs h.2 e he d hd heq

/-- the manager that built `t` satisfies the hypotheses `hσ`, `hsorts` of the script theorems -/
theorem mgrOf_hyps (logic : String) (ρ : List (String × Sym)) (t : Term) (extra : List Sym) (fresh : Nat)
    (hs : ScriptOK logic t = true) (hρ : ∀ s ∈ t.fv.eraseDups, ρ.lookup s.name = some s)
    (hextra : ∀ s ∈ extra, ρ.lookup s.name = some s) :
    MgrLe (mgrOf t extra fresh) ρ ∧ SortsCompat (mgrOf t extra fresh) t := by
  refine ⟨?_, ?_⟩
  · intro e he
    simp only [mgrOf, List.mem_map, List.mem_append] at he
    obtain ⟨s, hs', rfl⟩ := he
    rcases hs' with h | h
    · exact hρ s h
    · exact hextra s h
  · intro e he d hd heq
    rw [allDistinct_inj _ (scriptOK_decls hs).2.2.1 e he d hd heq]

theorem sortIns_known (σ : MgrSt) (d : String × Nat) (h : ∃ e ∈ σ.sorts, e.1 = d.1) : sortIns σ d = σ := by
  unfold sortIns
  cases hf : σ.sorts.find? (fun e => e.1 == d.1) with
  | some _ => rfl
  | none =>
    obtain ⟨e, he, heq⟩ := h
    rw [List.find?_eq_none] at hf
    exact absurd (by simpa using heq) (hf e he)

theorem symIns_known (σ : MgrSt) (s : Sym) (h : ∃ e ∈ σ.symbols, e.1 = s.name) : symIns σ s = σ := by
  unfold symIns
  cases hf : σ.symbols.find? (fun e => e.1 == s.name) with
  | some _ => rfl
  | none =>
    obtain ⟨e, he, heq⟩ := h
    rw [List.find?_eq_none] at hf
    exact absurd (by simpa using heq) (hf e he)

theorem foldl_sortIns_known : ∀ (ds : List (String × Nat)) (σ : MgrSt), (∀ d ∈ ds, ∃ e ∈ σ.sorts, e.1 = d.1) →
    ds.foldl sortIns σ = σ
  | [], _, _ => rfl
  | d :: ds, σ, h => by
    rw [List.foldl_cons, sortIns_known σ d (h d (by simp))]
    exact foldl_sortIns_known ds σ (fun d' hd' => h d' (List.mem_cons_of_mem _ hd'))

theorem foldl_symIns_known : ∀ (fs : List Sym) (σ : MgrSt), (∀ s ∈ fs, ∃ e ∈ σ.symbols, e.1 = s.name) →
    fs.foldl symIns σ = σ
  | [], _, _ => rfl
  | s :: fs, σ, h => by
    rw [List.foldl_cons, symIns_known σ s (h s (by simp))]
    exact foldl_symIns_known fs σ (fun s' hs' => h s' (List.mem_cons_of_mem _ hs'))

/-- the declarations of the script of `t` add nothing to the manager that built `t` -/
theorem mgrAfter_mgrOf (t : Term) (extra : List Sym) (fresh : Nat) :
    mgrAfter (mgrOf t extra fresh) t = mgrOf t extra fresh := by
  unfold mgrAfter
  rw [foldl_sortIns_known (sortDecls t) (mgrOf t extra fresh) (fun d hd => ⟨d, hd, rfl⟩)]
  exact foldl_symIns_known _ _ (fun s hs => ⟨(s.name, s), by
    simp only [mgrOf, List.mem_map, List.mem_append]
    exact ⟨s, Or.inl hs, rfl⟩, rfl⟩)

/-- **The round trip in the same environment** (tree form): the parser whose formula manager is the one that built `t`
(it holds the free symbols of `t`, the sorts of `t`, and any further symbols `extra` consistent with `ρ` — e.g. the bound
variables of `t`) reads the printed script as the script's commands. -/
theorem script_print_parse_same_env (logic : String) (ρ : List (String × Sym)) (t : Term) (extra : List Sym)
    (fresh : Nat) (hextra : ∀ s ∈ extra, ρ.lookup s.name = some s)
    (hs : ScriptOK logic t = true) (hl : logicOK logic = true) (henv : envOK (scriptEnv logic t) = true)
    (hρ : ∀ s ∈ t.fv.eraseDups, ρ.lookup s.name = some s)
    (hQ : parseOK (scriptEnv logic t) ρ t = true) (hN : mgrNormal t = true) :
    script { PEnv.init with mgr := mgrOf t extra fresh } (scriptOfFormula logic false t)
      = .ok (scriptCommands logic t) :=
  script_print_parse_mgr logic ρ t _ (mgrOf_hyps logic ρ t extra fresh hs hρ hextra).1
    (mgrOf_hyps logic ρ t extra fresh hs hρ hextra).2 hs hl henv hρ hQ hN

/-- the DAG twin of `script_print_parse_same_env` -/
theorem script_print_parse_dag_same_env (logic : String) (ρ : List (String × Sym)) (t : Term) (extra : List Sym)
    (fresh : Nat) (hextra : ∀ s ∈ extra, ρ.lookup s.name = some s)
    (hs : ScriptOK logic t = true) (hl : logicOK logic = true) (henv : envOK (scriptEnv logic t) = true)
    (hρ : ∀ s ∈ t.fv.eraseDups, ρ.lookup s.name = some s) (hdf : defFree (scriptEnv logic t))
    (hq : noQuant t = true) (hQ : parseOK (scriptEnv logic t) ρ t = true) (hN : mgrNormal t = true) :
    script { PEnv.init with mgr := mgrOf t extra fresh } (scriptOfFormula logic true t)
      = .ok ([Command.setLogic ((logicEntry logic).map (·.1))]
          ++ (sortDecls t).map (fun d => Command.declareSort d.1 d.2)
          ++ t.fv.eraseDups.map (Command.declare "declare-fun")
          ++ [Command.assert (unfoldAVw false t), Command.plain "check-sat" []]) :=
  script_print_parse_dag_mgr logic ρ t _ (mgrOf_hyps logic ρ t extra fresh hs hρ hextra).1
    (mgrOf_hyps logic ρ t extra fresh hs hρ hextra).2 hs hl henv hρ hdf hq hQ hN

/-! ## the hypotheses are satisfiable: C07's `t1 = (<= |x y| (- 5))` in a manager that holds `|x y|` already -/

/-- a manager that holds `C07.x` (the symbol of `t1`), another symbol, an unrelated sort, a moved fresh counter -/
def σEx : MgrSt := { symbols := [("other", ⟨"other", [.int], .bool⟩), ("x y", C07.x)], fresh := 7, sorts := [("U", 2)] }

def ρEx : List (String × Sym) := [("x y", C07.x), ("other", ⟨"other", [.int], .bool⟩)]

theorem example_mgr_hyps : MgrLe σEx ρEx ∧ SortsCompat σEx C07.t1 ∧
    (∀ s ∈ C07.t1.fv.eraseDups, ρEx.lookup s.name = some s) ∧
    parseOK (scriptEnv "QF_LIA" C07.t1) ρEx C07.t1 = true := by
  refine ⟨?_, ?_, ?_, ?_⟩
  · intro e he
    simp only [σEx, List.mem_cons, List.not_mem_nil, or_false] at he
    rcases he with rfl | rfl <;> rfl
  · intro e _ d hd
    rw [C07.decls_t1] at hd
    cases hd
  · intro s hs
    rw [C07.fv_t1] at hs
    simp only [List.mem_singleton] at hs
    subst hs
    rfl
  · simp [C07.t1, Term.sym, Term.int, parseOK, parseNodeOK]

/-- the instance: the script of `t1` read back by a parser whose manager holds `|x y|` already -/
example : script { PEnv.init with mgr := σEx } (scriptOfFormula "QF_LIA" false C07.t1)
    = .ok (scriptCommands "QF_LIA" C07.t1) :=
  script_print_parse_mgr "QF_LIA" ρEx C07.t1 σEx example_mgr_hyps.1 example_mgr_hyps.2.1 example_script_hyps.1
    example_script_hyps.2.1 example_script_hyps.2.2.1 example_mgr_hyps.2.2.1 example_mgr_hyps.2.2.2
    example_script_hyps.2.2.2.2.2.2.2

example : script { PEnv.init with mgr := σEx } (scriptOfFormula "QF_LIA" true C07.t1)
    = .ok ([Command.setLogic ((logicEntry "QF_LIA").map (·.1))]
          ++ (sortDecls C07.t1).map (fun d => Command.declareSort d.1 d.2)
          ++ C07.t1.fv.eraseDups.map (Command.declare "declare-fun")
          ++ [Command.assert (unfoldAVw false C07.t1), Command.plain "check-sat" []]) :=
  script_print_parse_dag_mgr "QF_LIA" ρEx C07.t1 σEx example_mgr_hyps.1 example_mgr_hyps.2.1 example_script_hyps.1
    example_script_hyps.2.1 example_script_hyps.2.2.1 example_mgr_hyps.2.2.1 example_script_hyps.2.2.2.2.1
    example_script_hyps.2.2.2.2.2.1 example_mgr_hyps.2.2.2 example_script_hyps.2.2.2.2.2.2.2

/-- the manager that built `t1` (`mgrOf`), with the extra symbol: the hypotheses of `script_print_parse_same_env` -/
example : script { PEnv.init with mgr := mgrOf C07.t1 [⟨"other", [.int], .bool⟩] 3 }
    (scriptOfFormula "QF_LIA" false C07.t1) = .ok (scriptCommands "QF_LIA" C07.t1) :=
  script_print_parse_same_env "QF_LIA" ρEx C07.t1 _ 3 (by
      intro s hs
      simp only [List.mem_singleton] at hs
      subst hs
      rfl)
    example_script_hyps.1 example_script_hyps.2.1 example_script_hyps.2.2.1 example_mgr_hyps.2.2.1
    example_mgr_hyps.2.2.2 example_script_hyps.2.2.2.2.2.2.2

/-- `declare-sort` of a sort the type manager knows already, with the same arity: accepted, the manager is unchanged -/
example : cmd (pStM { sorts := [("U", 0)] } none [] []) (declareSort ("U", 0))
    = .ok (pStM { sorts := [("U", 0)] } none [("U", 0)] [], .declareSort "U" 0) :=
  cmd_declareSortM { sorts := [("U", 0)] } none [] ("U", 0) (by decide) (by decide) (by
    intro e he _
    simp only [List.mem_singleton] at he
    subst he
    rfl)

/-- … with another arity: rejected -/
example : cmd (pStM { sorts := [("U", 1)] } none [] []) (declareSort ("U", 0)) = .error .value :=
  cmd_declareSort_clash { sorts := [("U", 1)] } none [] ("U", 0) (by decide) (by decide) "U" 1 rfl (by decide)

/-- `mkSymbol`: the manager holds `|x y| : Real`, the script declares `|x y| : Int` — `PysmtTypeError` -/
example : mkSymbol { symbols := [("x y", ⟨"x y", [], .real⟩)] } C07.x = .error .type :=
  mkSymbol_clash _ C07.x ⟨"x y", [], .real⟩ "x y" rfl rfl (by decide)

/-! ## a formula over a DECLARED SORT, read back by a parser whose type manager knows the sort already

`(= u v)` with `u v : U`; the manager holds `v` (not `u`), the sort `U` with arity 0 (as the script declares it) and an
unrelated sort: `hsorts` is used non-vacuously, `declare-sort U 0` goes through the "known sort" branch, `declare-fun v`
through the "known symbol" branch, `declare-fun u` creates the symbol. -/
namespace ExU
open PySMT.C07


def u : Sym := ⟨"u", [], .custom "U"⟩
def v : Sym := ⟨"v", [], .custom "U"⟩
/-- `(= u v)` over the declared sort `U` -/
def tU : Term := .node .equals [Term.sym u, Term.sym v] .none

theorem ty_u : (Term.sym u).typeOf = some (.custom "U") := by rw [Term.sym, typeOf_node]; decide
theorem ty_v : (Term.sym v).typeOf = some (.custom "U") := by rw [Term.sym, typeOf_node]; decide
theorem ty_tU : tU.typeOf = some .bool := by rw [tU, typeOf_node]; simp only [List.map, ty_u, ty_v]; decide
theorem fv_tU : tU.fv.eraseDups = [u, v] := by
  simp [tU, Term.fv, Term.sym, List.eraseDups, List.eraseDupsBy, List.eraseDupsBy.loop, u, v]
  decide
theorem decls_tU : sortDecls tU = [("U", 0)] := by
  simp only [sortDecls, tU, Printer.Term.tys, Term.sym, u, v, List.map, List.flatten]
  decide +kernel
theorem scriptEnv_tU : scriptEnv "QF_UFLIA" tU = { logic := "QF_UFLIA", sorts := [("U", 0)], funs := [v, u] } := by
  simp [scriptEnv, fv_tU, decls_tU]

theorem pr_sym (env : SEnv) (s : Sym) (hs : s = u ∨ s = v) (h : env.lookupFun s.name = some s) :
    Printable env [] (Term.sym s) = true := by
  have h3 : stdTy .symbol (.sym s) [] = some (.custom "U") := by rcases hs with rfl | rfl <;> decide
  have h4 : typeOfNode .symbol (.sym s) [] = some (.custom "U") := by rcases hs with rfl | rfl <;> decide
  have h7 : nameFine s.name = true := by rcases hs with rfl | rfl <;> decide +kernel
  have h8 : s.params.isEmpty = true := by rcases hs with rfl | rfl <;> rfl
  rw [Term.sym, Printable.eq_def]
  simp only [List.map_nil, h3, h4, beq_self_eq_true, nodeOK, List.length_nil, h7, h8, findVar,
    List.find?_nil, h, List.all_nil, Bool.and_true]

theorem pr_tU (env : SEnv) (hu : env.lookupFun "u" = some u) (hv : env.lookupFun "v" = some v) :
    Printable env [] tU = true := by
  refine pr_node env [] .equals _ .none .bool (by decide) (by decide) ?_ ?_ ?_ ?_
  · simp only [List.map_cons, List.map_nil, tyD, ty_u, ty_v, Option.getD_some]; decide
  · simp only [List.map_cons, List.map_nil, ty_u, ty_v]; decide
  · simp [nodeOK]
  · intro a ha
    simp only [List.mem_cons, List.not_mem_nil, or_false] at ha
    rcases ha with rfl | rfl
    · exact pr_sym env u (Or.inl rfl) hu
    · exact pr_sym env v (Or.inr rfl) hv

theorem scriptOK_tU : ScriptOK "QF_UFLIA" tU = true := by
  have hp := pr_tU (scriptEnv "QF_UFLIA" tU) (by rw [scriptEnv_tU]; decide) (by rw [scriptEnv_tU]; decide)
  rw [scriptEnv_tU] at hp
  simp only [ScriptOK, ty_tU, decls_tU, fv_tU, scriptEnv_tU, hp]
  decide +kernel

theorem example_hyps_tU :
    ScriptOK "QF_UFLIA" tU = true ∧ logicOK "QF_UFLIA" = true ∧ envOK (scriptEnv "QF_UFLIA" tU) = true ∧
    (∀ s ∈ tU.fv.eraseDups, [("u", u), ("v", v)].lookup s.name = some s) ∧ defFree (scriptEnv "QF_UFLIA" tU) ∧
    noQuant tU = true ∧ parseOK (scriptEnv "QF_UFLIA" tU) [("u", u), ("v", v)] tU = true ∧
    mgrNormal tU = true := by
  refine ⟨scriptOK_tU, by decide +kernel, by rw [scriptEnv_tU]; decide +kernel, ?_, ?_, ?_, ?_, ?_⟩
  · intro s hs
    rw [fv_tU] at hs
    simp only [List.mem_cons, List.not_mem_nil, or_false] at hs
    rcases hs with rfl | rfl <;> rfl
  · intro k
    rw [scriptEnv_tU]
    refine ⟨?_, rfl⟩
    have hne : ("U" == defName k) = false := by
      rw [beq_eq_false_iff_ne]
      intro h
      have := head_ne_of_take h.symm
      revert this; decide
    simp [SEnv.lookupSort, hne]
  · simp [noQuant, tU, Term.sym, Op.isQuantifier]
  · simp [tU, Term.sym, parseOK, parseNodeOK]
  · simp [tU, Term.sym, mgrNormal, rootNorm]

def σU : MgrSt := { symbols := [("v", v)], fresh := 2, sorts := [("W", 1), ("U", 0)] }

theorem mgr_hyps_tU : MgrLe σU [("u", u), ("v", v)] ∧ SortsCompat σU tU := by
  refine ⟨?_, ?_⟩
  · intro e he
    simp only [σU, List.mem_singleton] at he
    subst he
    rfl
  · intro e he d hd heq
    rw [decls_tU] at hd
    simp only [List.mem_singleton] at hd
    subst hd
    simp only [σU, List.mem_cons, List.not_mem_nil, or_false] at he
    rcases he with rfl | rfl
    · revert heq; decide
    · rfl

/-- the manager after the declarations: `u` was added, `v` and the sort `U` were found -/
theorem mgrAfter_σU : mgrAfter σU tU = { symbols := [("u", u), ("v", v)], fresh := 2, sorts := [("W", 1), ("U", 0)] } := by
  rw [mgrAfter, decls_tU, fv_tU]
  rfl

example : script { PEnv.init with mgr := σU } (scriptOfFormula "QF_UFLIA" false tU)
    = .ok (scriptCommands "QF_UFLIA" tU) :=
  script_print_parse_mgr "QF_UFLIA" _ tU σU mgr_hyps_tU.1 mgr_hyps_tU.2 example_hyps_tU.1 example_hyps_tU.2.1
    example_hyps_tU.2.2.1 example_hyps_tU.2.2.2.1 example_hyps_tU.2.2.2.2.2.2.1 example_hyps_tU.2.2.2.2.2.2.2

example : script { PEnv.init with mgr := σU } (scriptOfFormula "QF_UFLIA" true tU)
    = .ok ([Command.setLogic ((logicEntry "QF_UFLIA").map (·.1))]
          ++ (sortDecls tU).map (fun d => Command.declareSort d.1 d.2)
          ++ tU.fv.eraseDups.map (Command.declare "declare-fun")
          ++ [Command.assert (unfoldAVw false tU), Command.plain "check-sat" []]) :=
  script_print_parse_dag_mgr "QF_UFLIA" _ tU σU mgr_hyps_tU.1 mgr_hyps_tU.2 example_hyps_tU.1 example_hyps_tU.2.1
    example_hyps_tU.2.2.1 example_hyps_tU.2.2.2.1 example_hyps_tU.2.2.2.2.1 example_hyps_tU.2.2.2.2.2.1
    example_hyps_tU.2.2.2.2.2.2.1 example_hyps_tU.2.2.2.2.2.2.2

/-- the type manager knows `U` with arity 1: the first `declare-sort` of the script of `tU` is rejected -/
example : cmd (pStM { sorts := [("U", 1)] } (some true) [] []) (declareSort ("U", 0)) = .error .value :=
  cmd_declareSort_clash { sorts := [("U", 1)] } _ [] ("U", 0) (by decide) (by decide) "U" 1 rfl (by decide)

end ExU

end PySMT.Parser.Agree
