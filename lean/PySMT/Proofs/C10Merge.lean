import PySMT.Proofs.C10Rename
/-!
# C10 — `walk_conj_disj` with alpha-renaming: all arguments
-/
namespace PySMT.Rewritings

/-- the invariant of the walk at supply counter `n`: `r` is a correct prenex form of `t`, its matrix
is quantifier-free, every variable is bound once, is a plain symbol and is not a future fresh name -/
structure RInv (fresh : Nat → String) (n : Nat) (t : Term) (r : List QBlock × Term) : Prop where
  good : Good t r
  qf : r.2.isQF = true
  nd : (boundOf r.1).Nodup
  plain : ∀ s ∈ boundOf r.1, s.params = []
  old : ∀ s ∈ boundOf r.1, Old fresh n s

theorem RInv.mono {fresh : Nat → String} {n n' : Nat} {t : Term} {r : List QBlock × Term} (h : RInv fresh n t r)
    (hn : n ≤ n') : RInv fresh n' t r :=
  ⟨h.good, h.qf, h.nd, h.plain, fun s hs => (h.old s hs).mono hn⟩

section
variable {fresh : Nat → String}

/-- one argument: the renamed prefix is a correct, clash-free prenex form of the argument -/
theorem renameArg (hinj : Inj fresh) {a : Term} {qs : List QBlock} {m : Term} {res : List Sym} {n : Nat}
    (h : RInv fresh n a (qs, m)) (hfv : ∀ s ∈ a.fv, Old fresh n s) (hres : ∀ s ∈ res, Old fresh n s) :
    RInv fresh (mergeBlocks fresh qs res m n).2.2.2 a
      ((mergeBlocks fresh qs res m n).1, (mergeBlocks fresh qs res m n).2.2.1) ∧
    noClash (mergeBlocks fresh qs res m n).1 res = true ∧
    (mergeBlocks fresh qs res m n).2.1 = res ++ boundOf (mergeBlocks fresh qs res m n).1 ∧
    n ≤ (mergeBlocks fresh qs res m n).2.2.2 := by
  have hg := h.good
  obtain ⟨e1, e2, e3, hwb, hqf, htr⟩ := mb_term (fresh := fresh) qs res m n hg.wb h.qf h.plain
  have hnc := mb_noClash hinj qs res n hres h.old
  have hpr := mb_blocks_props hinj qs res n h.nd h.plain h.old
  have hS : ∀ s ∈ a.fv ++ boundOf qs, Old fresh n s := by
    intro s hs
    rcases List.mem_append.mp hs with h1 | h1
    · exact hfv s h1
    · exact h.old s h1
  rw [e1, e3]
  refine ⟨⟨⟨hwb, fun I hI => ?_, ?_⟩, hqf, nodup_of_noClash _ _ hnc hpr.1, hpr.2.1, hpr.2.2⟩, hnc,
    by rw [e2], mbN_le _ _ _⟩
  · simp only
    rw [qsem_congr_wf _ _ (fun J => truth (mbTheta fresh qs res n J) m) htr I hI,
      mb_sem hinj qs (fun J => truth J m) _ res n hg.supp h.nd h.plain h.old hS I hI]
    exact hg.sem I hI
  · simp only
    exact (mb_supp (A := a.fv) h.plain hg.supp).congr htr

/-- the arguments after the renamings -/
def asRen (fresh : Nat → String) : List (List QBlock × Term) → List Sym → Nat → List (List QBlock × Term)
  | [], _, _ => []
  | (qs, m) :: rest, res, n =>
    ((mergeBlocks fresh qs res m n).1, (mergeBlocks fresh qs res m n).2.2.1) ::
      asRen fresh rest (mergeBlocks fresh qs res m n).2.1 (mergeBlocks fresh qs res m n).2.2.2

theorem mergeArgs_asRen : ∀ (as : List (List QBlock × Term)) (res : List Sym) (n : Nat),
    (mergeArgs fresh as res n).1 = (asRen fresh as res n).flatMap (·.1) ∧
    (mergeArgs fresh as res n).2.1 = (asRen fresh as res n).map (·.2)
  | [], _, _ => ⟨rfl, rfl⟩
  | (qs, m) :: rest, res, n => by
    have ih := mergeArgs_asRen rest (mergeBlocks fresh qs res m n).2.1 (mergeBlocks fresh qs res m n).2.2.2
    simp only [mergeArgs, asRen, List.flatMap_cons, List.map_cons, ih.1, ih.2, and_self]

/-- all arguments: the renamed arguments are correct prenex forms and clash-free -/
theorem mergeArgs_good (hinj : Inj fresh) {args : List Term} {as : List (List QBlock × Term)} {n0 : Nat}
    (hg : All2 (RInv fresh n0) args as) : ∀ (res : List Sym) (n : Nat), n0 ≤ n →
    (∀ a ∈ args, ∀ s ∈ a.fv, ∀ k, s.name ≠ fresh k) → (∀ s ∈ res, Old fresh n s) →
    All2 (RInv fresh (mergeArgs fresh as res n).2.2) args (asRen fresh as res n) ∧
    noClashArgs (asRen fresh as res n) res = true ∧ n ≤ (mergeArgs fresh as res n).2.2 := by
  induction hg with
  | nil => intro res n _ _ _; exact ⟨.nil, rfl, Nat.le_refl _⟩
  | @cons a r args' as' h1 _ ih =>
    intro res n hn hfv hres
    obtain ⟨qs, m⟩ := r
    have hfa : ∀ s ∈ a.fv, Old fresh n s := fun s hs k _ => hfv a (by simp) s hs k
    obtain ⟨r1, r2, r3, r4⟩ := renameArg hinj (h1.mono hn) hfa hres
    have hres' : ∀ s ∈ (mergeBlocks fresh qs res m n).2.1, Old fresh (mergeBlocks fresh qs res m n).2.2.2 s := by
      intro s hs
      rw [r3] at hs
      rcases List.mem_append.mp hs with h | h
      · exact (hres s h).mono r4
      · exact r1.old s h
    obtain ⟨k1, k2, k3⟩ := ih _ _ (Nat.le_trans hn r4) (fun a ha => hfv a (by simp [ha])) hres'
    simp only [mergeArgs, asRen]
    refine ⟨.cons (r1.mono k3) k1, ?_, Nat.le_trans r4 k3⟩
    simp only [noClashArgs, Bool.and_eq_true]
    refine ⟨r2, ?_⟩
    rw [← r3]; exact k2

end

end PySMT.Rewritings
