import PySMT.Proofs.WalkerMore

/-! Type checking at construction over a whole build sequence (review C20 §4.2): folding `create_node` over a list of
    contents whose children are built earlier costs one type-checker callback per distinct new content. -/

namespace PySMT.Walker
set_option linter.unusedSectionVars false
set_option linter.unusedSimpArgs false

section
variable {M N R E : Type} [DecidableEq N] [MemoLike M N R] [LawfulMemo M N R]

/-- memo domain after a successful walk of a memo-keeping walker: what was memoised, plus the nodes below the root -/
theorem walk_memo_dom (g : Graph N) (d : N → Bool) (f0 : N → List R → Except E R) (shortcut : Bool)
    (fuel : Nat) (n : N) (s : WState M N) (hi : Idle g d f0 s) (V : List N) (hV : Covers g d n V)
    (hfuel : 2 * cost g V + 2 ≤ fuel) (r : R) (hok : spec g d f0 n = .ok r) (x : N) :
    (look (walk g d (fun _ => f0) false shortcut fuel n s).2.memo x).isSome ↔
      ((look s.memo x).isSome ∨ Desc g d n x) := by
  cases h : (if shortcut then look s.memo n else none) with
  | some r' =>
    have : walk g d (fun _ => f0) false shortcut fuel n s = (.ok r', s) := by unfold walk; rw [h]
    rw [this]
    have hn : (look s.memo n).isSome := by
      cases shortcut
      · simp at h
      · simp at h; simp [h]
    constructor
    · exact Or.inl
    · rintro (h' | h')
      · exact h'
      · exact desc_memo g d s.memo hi.closed.down n x h' hn
  | none =>
    rw [walk_miss g d _ false shortcut fuel n s hi.stack h, finish_state]
    obtain ⟨j, new, vis, nd, fr, vnd, vfr, b, o⟩ := walk_run g d f0 n s hi.closed
    have hj : j ≤ fuel := by have := fuel_ok g d n s.memo V vis hV vnd vfr; omega
    rcases o with ⟨r', m', p', hsp, _, hit, _, hl, hcl, dom⟩ | ⟨e, s', hsp, _, _⟩
    · rw [iter_mono_run hit rfl fuel hj]
      simp only [Res.state, cleanup, Bool.false_eq_true, if_false]
      rw [dom x]
      constructor
      · rintro (h' | h')
        · exact Or.inl h'
        · exact Or.inr (fr x h').2
      · rintro (h' | h')
        · exact Or.inl h'
        · have := desc_memo g d m' hcl.down n x h' (by simp [hl])
          exact (dom x).mp this
    · rw [hsp] at hok; cases hok

end

section
variable {M N T E : Type} [DecidableEq N] [MemoLike M N (Option T)] [LawfulMemo M N (Option T)]

theorem createNode_stc (g : Graph N) (tc : List N → N → List (Option T) → Except E (Option T)) (fuel : Nat)
    (c : N) (s : Mgr M N) :
    (createNode g tc fuel c s).2.stc = (walk g (fun _ => false) tc false true fuel c s.stc).2 := by
  unfold createNode
  simp only
  cases (walk g (fun _ => false) tc false true fuel c s.stc).1 with
  | ok o => cases o <;> rfl
  | raise e => rfl
  | fuel => rfl

/-- `create_node` on every content of the list, in order -/
def buildSeq (g : Graph N) (tc0 : N → List (Option T) → Except E (Option T)) (fuel : Nat) :
    List N → Mgr M N → Mgr M N
  | [], s => s
  | c :: cs, s => buildSeq g tc0 fuel cs (createNode g (fun _ => tc0) fuel c s).2

/-- a build sequence: when a content is reached, its children have been type-checked (they were built earlier in
    the sequence, or before it) -/
def Ready (g : Graph N) (tc0 : N → List (Option T) → Except E (Option T)) (fuel : Nat) :
    List N → Mgr M N → Prop
  | [], _ => True
  | c :: cs, s => (∀ k ∈ g.children c, (look s.stc.memo k).isSome) ∧
                  Ready g tc0 fuel cs (createNode g (fun _ => tc0) fuel c s).2

theorem kids_nodirect (g : Graph N) (n : N) : kids g (fun _ => false) n = g.children n := by simp [kids]

/-- one `create_node` whose children are type-checked: no callback if the content is memoised already, exactly one
    (on the new content) otherwise; afterwards the content is memoised and nothing else changed -/
theorem createNode_step (g : Graph N) (tc0 : N → List (Option T) → Except E (Option T))
    (htot : ∀ n args, ∃ r, tc0 n args = .ok r) (fuel : Nat) (V : List N) (hfuel : 2 * cost g V + 2 ≤ fuel)
    (c : N) (hV : Covers g (fun _ => false) c V) (s : Mgr M N) (hi : Idle g (fun _ => false) tc0 s.stc)
    (hk : ∀ k ∈ g.children c, (look s.stc.memo k).isSome) :
    let s' := (createNode g (fun _ => tc0) fuel c s).2
    Idle g (fun _ => false) tc0 s'.stc ∧
    s'.stc.trace = (if (look s.stc.memo c).isSome then [] else [c]) ++ s.stc.trace ∧
    (∀ x, (look s'.stc.memo x).isSome ↔ ((look s.stc.memo x).isSome ∨ x = c)) := by
  intro s'
  have hst : s'.stc = (walk g (fun _ => false) (fun _ => tc0) false true fuel c s.stc).2 := createNode_stc g _ fuel c s
  -- the specification of `c` is a value: its children are memoised (hence specified), and `tc0` never raises
  have hargs := lookAll_collect g (fun _ => false) tc0 s.stc.memo hi.closed.ok (g.children c) hk
  obtain ⟨args, _, hcoll⟩ := hargs
  obtain ⟨r, hr⟩ := htot c args
  have hok : spec g (fun _ => false) tc0 c = .ok r := by rw [spec_eq, kids_nodirect, hcoll]; exact hr
  have hidle := walk_idle g (fun _ => false) _ tc0 (refines_pure tc0) false true fuel c s.stc hi
  have hdom := walk_memo_dom g (fun _ => false) tc0 true fuel c s.stc hi V hV hfuel r hok
  have hdesc : ∀ x, Desc g (fun _ => false) c x → (look s.stc.memo x).isSome ∨ x = c := by
    intro x hx
    cases hx with
    | refl _ => exact Or.inr rfl
    | step _ k _ hkc hkx =>
      rw [kids_nodirect] at hkc
      exact Or.inl (desc_memo g (fun _ => false) s.stc.memo hi.closed.down k x hkx (hk k hkc))
  rw [hst]
  refine ⟨hidle, ?_, ?_⟩
  · cases hl : look s.stc.memo c with
    | some v => rw [walk_hit g (fun _ => false) _ false fuel c s.stc v hl]; simp
    | none =>
      have := typecheck_const g (fun _ => false) tc0 false true fuel c s.stc hi V hV hfuel r hok
        (by rw [kids_nodirect]; exact hk) hl
      rw [this]; simp
  · intro x
    rw [hdom x]
    constructor
    · rintro (h | h)
      · exact Or.inl h
      · exact hdesc x h
    · rintro (h | h)
      · exact Or.inl h
      · subst h; exact Or.inr (Desc.refl _)

/-- **build_sequence_calls** (C20 §4.2): type checking at construction over a build sequence.  From an idle manager,
    building the contents `cs` in order (each one's children type-checked before it is reached) invokes the type
    checker's callback exactly once on each distinct content that was not type-checked before, and never on anything
    else: the trace grows by a duplicate-free list whose members are exactly those contents. -/
theorem build_sequence_calls (g : Graph N) (tc0 : N → List (Option T) → Except E (Option T))
    (htot : ∀ n args, ∃ r, tc0 n args = .ok r) (fuel : Nat) (V : List N) (hfuel : 2 * cost g V + 2 ≤ fuel)
    (cs : List N) (hV : ∀ c ∈ cs, Covers g (fun _ => false) c V) :
    ∀ (s : Mgr M N), Idle g (fun _ => false) tc0 s.stc → Ready g tc0 fuel cs s →
    ∃ new, (buildSeq g tc0 fuel cs s).stc.trace = new ++ s.stc.trace ∧ new.Nodup ∧
      (∀ x, x ∈ new ↔ (x ∈ cs ∧ look s.stc.memo x = none)) ∧
      (buildSeq g tc0 fuel cs s).stc.calls = s.stc.calls + new.length ∧
      Idle g (fun _ => false) tc0 (buildSeq g tc0 fuel cs s).stc := by
  induction cs with
  | nil => intro s hi _; exact ⟨[], rfl, List.nodup_nil, by simp, rfl, hi⟩
  | cons c cs ih =>
    intro s hi hr
    obtain ⟨hk, hr'⟩ := hr
    obtain ⟨hi1, ht1, hd1⟩ := createNode_step g tc0 htot fuel V hfuel c (hV c List.mem_cons_self) s hi hk
    obtain ⟨new, h1, h2, h3, h4, h5⟩ := ih (fun c' h => hV c' (List.mem_cons_of_mem _ h)) _ hi1 hr'
    simp only [buildSeq]
    cases hl : look s.stc.memo c with
    | some v =>
      simp only [hl, Option.isSome_some, if_true, List.nil_append] at ht1
      refine ⟨new, by rw [h1, ht1], h2, ?_, by rw [h4]; simp only [WState.calls, ht1], h5⟩
      intro x
      rw [h3 x]
      constructor
      · rintro ⟨hx, hn⟩
        refine ⟨List.mem_cons_of_mem _ hx, ?_⟩
        cases hlx : look s.stc.memo x with
        | none => rfl
        | some w =>
          have : (look (createNode g (fun _ => tc0) fuel c s).2.stc.memo x).isSome := (hd1 x).mpr (Or.inl (by simp [hlx]))
          rw [hn] at this; cases this
      · rintro ⟨hx, hn⟩
        rcases List.mem_cons.mp hx with rfl | hx'
        · rw [hl] at hn; cases hn
        · refine ⟨hx', ?_⟩
          cases hlx : look (createNode g (fun _ => tc0) fuel c s).2.stc.memo x with
          | none => rfl
          | some w =>
            rcases (hd1 x).mp (by simp [hlx]) with h | h
            · rw [hn] at h; cases h
            · subst h; rw [hl] at hn; cases hn
    | none =>
      simp only [hl, Option.isSome_none, Bool.false_eq_true, if_false] at ht1
      have hc_in : (look (createNode g (fun _ => tc0) fuel c s).2.stc.memo c).isSome := (hd1 c).mpr (Or.inr rfl)
      have hc_notin : c ∉ new := by
        intro h
        have := ((h3 c).mp h).2
        rw [this] at hc_in; cases hc_in
      refine ⟨new ++ [c], by rw [h1, ht1]; simp, ?_, ?_, ?_, h5⟩
      · exact List.nodup_append.mpr ⟨h2, by simp, fun a ha b hb hab => by
          simp only [List.mem_singleton] at hb; subst hb; subst hab; exact hc_notin ha⟩
      · intro x
        simp only [List.mem_append, List.mem_singleton]
        rw [h3 x]
        constructor
        · rintro (⟨hx, hn⟩ | rfl)
          · refine ⟨List.mem_cons_of_mem _ hx, ?_⟩
            cases hlx : look s.stc.memo x with
            | none => rfl
            | some w =>
              have : (look (createNode g (fun _ => tc0) fuel c s).2.stc.memo x).isSome :=
                (hd1 x).mpr (Or.inl (by simp [hlx]))
              rw [hn] at this; cases this
          · exact ⟨List.mem_cons_self, hl⟩
        · rintro ⟨hx, hn⟩
          by_cases hxc : x = c
          · exact Or.inr hxc
          · have hx' : x ∈ cs := by
              rcases List.mem_cons.mp hx with h | h
              · exact absurd h hxc
              · exact h
            refine Or.inl ⟨hx', ?_⟩
            cases hlx : look (createNode g (fun _ => tc0) fuel c s).2.stc.memo x with
            | none => rfl
            | some w =>
              rcases (hd1 x).mp (by simp [hlx]) with h | h
              · rw [hn] at h; cases h
              · exact absurd h hxc
      · rw [h4]; simp only [WState.calls, ht1, List.length_append, List.length_cons, List.length_nil]; omega

end
end PySMT.Walker
