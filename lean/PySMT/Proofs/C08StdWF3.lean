import PySMT.Proofs.C08StdWF2
/-!
# C08/C09: the standard reader only produces terms pySMT's checker accepts (3) — strings, arrays, and all theory symbols
of the fragment in one statement (`applyTheory_wf`)
-/
namespace PySMT.Parser.Agree
open PySMT PySMT.Parser PySMT.Std PySMT.Sexp

/-! ## strings -/

theorem wf_strconcat (as : List TT) (u : Term) (τ : Ty) (hargs : ∀ a ∈ as, WT a.1 a.2)
    (hstd : applyTheory "str.++" as = .ok (u, τ)) : WT u τ := by
  simp only [applyTheory] at hstd
  split at hstd
  · rename_i hc
    simp only [Bool.and_eq_true, decide_eq_true_eq, ge_iff_le] at hc
    cases hstd
    have hall : ∀ a ∈ as, a.2 = .str := allTy_iff.mp hc.2
    exact wt_std hargs rfl (by simp only [C03.tyNode, allAre_snd hall, if_true])
  · cases hstd

/-- an operator of fixed rank -/
theorem wf_fixedRank (op : Op) (ptys : List Ty) (rty : Ty) (as : List TT) (hargs : ∀ a ∈ as, WT a.1 a.2)
    (hty : as.map (·.2) = ptys) (htn : C03.tyNode op .none ptys = some rty)
    (hshape : op.shapeOK .none ptys.length = true) : WT (Std.node op as) rty := by
  have hlen : as.length = ptys.length := by rw [← hty, List.length_map]
  exact wt_std hargs (by rw [hlen]; exact hshape) (by rw [hty]; exact htn)

theorem wf_str (f m : String) (hf : (f, m) ∈ strMethods) (as : List TT) (u : Term) (τ : Ty)
    (hargs : ∀ a ∈ as, WT a.1 a.2) (hstd : applyTheory f as = .ok (u, τ)) : WT u τ := by
  simp only [strMethods, List.mem_cons, Prod.mk.injEq, List.not_mem_nil, or_false] at hf
  rcases hf with ⟨rfl, rfl⟩ | ⟨rfl, rfl⟩ | ⟨rfl, rfl⟩ | ⟨rfl, rfl⟩ | ⟨rfl, rfl⟩ | ⟨rfl, rfl⟩ | ⟨rfl, rfl⟩ | ⟨rfl, rfl⟩
  all_goals
    simp (config := { decide := true }) only [applyTheory] at hstd
    simp only [strTok_bin0, strTok_rel0, strTok_sig0, strTok_bin1, strTok_rel1, strTok_sig1, strTok_bin2, strTok_rel2, strTok_sig2, strTok_bin3, strTok_rel3, strTok_sig3, strTok_bin4, strTok_rel4, strTok_sig4, strTok_bin5, strTok_rel5, strTok_sig5, strTok_bin6, strTok_rel6, strTok_sig6, strTok_bin7, strTok_rel7, strTok_sig7] at hstd
    split at hstd
    · rename_i hc
      cases hstd
      exact wf_fixedRank _ _ _ as hargs (eq_of_beq hc) rfl rfl
    · cases hstd

/-! ## arrays -/

theorem wf_select (as : List TT) (u : Term) (τ : Ty) (hargs : ∀ a ∈ as, WT a.1 a.2)
    (hstd : applyTheory "select" as = .ok (u, τ)) : WT u τ := by
  simp only [applyTheory] at hstd
  split at hstd
  · rename_i a i
    split at hstd
    · rename_i it et hat
      split at hstd
      · rename_i hc
        cases hstd
        have hi : i.2 = it := by simpa using hc
        exact wt_std hargs rfl (by simp [C03.tyNode, hat, hi])
      · cases hstd
    · cases hstd
  · cases hstd

theorem wf_store (as : List TT) (u : Term) (τ : Ty) (hargs : ∀ a ∈ as, WT a.1 a.2)
    (hstd : applyTheory "store" as = .ok (u, τ)) : WT u τ := by
  simp only [applyTheory] at hstd
  split at hstd
  · rename_i a i v
    split at hstd
    · rename_i it et hat
      split at hstd
      · rename_i hc
        simp only [Bool.and_eq_true, beq_iff_eq] at hc
        cases hstd
        exact wt_std hargs rfl (by simp [C03.tyNode, hat, hc.1, hc.2])
      · cases hstd
    · cases hstd
  · cases hstd

/-! ## all theory symbols of the fragment -/

theorem applyTheory_wf (f : String) (hf : f ∈ fragOps) (as : List TT) (har : arityOK f as.length = true)
    (hminus : f = "-" → ∀ a, as = [a] → (isNumConst a.1).isSome = true)
    (hargs : ∀ a ∈ as, WT a.1 a.2) (u : Term) (τ : Ty) (hstd : applyTheory f as = .ok (u, τ)) : WT u τ := by
  simp only [fragOps, List.mem_cons, List.mem_nil_iff, or_false] at hf
  rcases hf with rfl | rfl | rfl | rfl | rfl | rfl | rfl | rfl | rfl | rfl | rfl | rfl | rfl | rfl | rfl | rfl | rfl
    | rfl | rfl | rfl | rfl | rfl | rfl | rfl | rfl | rfl | rfl | rfl | rfl | rfl | rfl | rfl | rfl | rfl | rfl
    | rfl | rfl | rfl | rfl | rfl | rfl | rfl | rfl | rfl | rfl | rfl | rfl | rfl | rfl | rfl | rfl | rfl | rfl | rfl | rfl
    | rfl | rfl
  · exact wf_not as u τ hargs hstd
  · exact wf_and as u τ hargs hstd
  · exact wf_or as u τ hargs hstd
  · obtain ⟨a, b, rfl⟩ := two_of_arity (by decide) har
    exact wf_implies a b u τ (hargs a (by simp)) (hargs b (by simp)) hstd
  · obtain ⟨a, b, rfl⟩ := two_of_arity (by decide) har
    exact wf_xor a b u τ (hargs a (by simp)) (hargs b (by simp)) hstd
  · obtain ⟨a, b, rfl⟩ := two_of_arity (by decide) har
    exact wf_eq a b u τ (hargs a (by simp)) (hargs b (by simp)) hstd
  · obtain ⟨a, b, rfl⟩ := two_of_arity (by decide) har
    exact wf_distinct a b u τ (hargs a (by simp)) (hargs b (by simp)) hstd
  · exact wf_ite as u τ hargs hstd
  · exact wf_plus as u τ hargs hstd
  · exact wf_times as u τ hargs hstd
  · -- "-"
    have hl : as.length = 1 ∨ as.length = 2 := by
      simpa [arityOK, binaryOnly] using har
    rcases hl with hl | hl
    · match as, hl with
      | [a], _ => exact wf_minus1 a u τ (hminus rfl a rfl) hstd
    · match as, hl with
      | [a, b], _ => exact wf_minus2 a b u τ (hargs a (by simp)) (hargs b (by simp)) hstd
  · obtain ⟨a, b, rfl⟩ := two_of_arity (by decide) har
    exact wf_div a b u τ (hargs a (by simp)) (hargs b (by simp)) hstd
  · obtain ⟨a, b, rfl⟩ := two_of_arity (by decide) har
    exact wf_rel "<=" (by simp) a b u τ (hargs a (by simp)) (hargs b (by simp)) hstd
  · obtain ⟨a, b, rfl⟩ := two_of_arity (by decide) har
    exact wf_rel "<" (by simp) a b u τ (hargs a (by simp)) (hargs b (by simp)) hstd
  · obtain ⟨a, b, rfl⟩ := two_of_arity (by decide) har
    exact wf_rel ">=" (by simp) a b u τ (hargs a (by simp)) (hargs b (by simp)) hstd
  · obtain ⟨a, b, rfl⟩ := two_of_arity (by decide) har
    exact wf_rel ">" (by simp) a b u τ (hargs a (by simp)) (hargs b (by simp)) hstd
  · exact wf_toreal as u τ hargs hstd
  · exact wf_bvnot as u τ hargs hstd
  · exact wf_bvneg as u τ hargs hstd
  · exact wf_bv2nat as u τ hargs hstd
  · exact wf_bvcomp as u τ hargs hstd
  · exact wf_concat as u τ hargs hstd
  · exact wf_stdNary "bvand" .bvAnd rfl as u τ hargs (by rw [← std_bvand]; exact hstd)
  · exact wf_stdNary "bvor" .bvOr rfl as u τ hargs (by rw [← std_bvor]; exact hstd)
  · exact wf_stdNary "bvadd" .bvAdd rfl as u τ hargs (by rw [← std_bvadd]; exact hstd)
  · exact wf_stdNary "bvmul" .bvMul rfl as u τ hargs (by rw [← std_bvmul]; exact hstd)
  · obtain ⟨a, b, rfl⟩ := two_of_arity (by decide) har
    exact wf_bvbin2 "bvxor" .bvXor (by decide) a b u τ (hargs a (by simp)) (hargs b (by simp)) hstd
  · obtain ⟨a, b, rfl⟩ := two_of_arity (by decide) har
    exact wf_bvbin2 "bvsub" .bvSub (by decide) a b u τ (hargs a (by simp)) (hargs b (by simp)) hstd
  · obtain ⟨a, b, rfl⟩ := two_of_arity (by decide) har
    exact wf_bvbin2 "bvudiv" .bvUdiv (by decide) a b u τ (hargs a (by simp)) (hargs b (by simp)) hstd
  · obtain ⟨a, b, rfl⟩ := two_of_arity (by decide) har
    exact wf_bvbin2 "bvurem" .bvUrem (by decide) a b u τ (hargs a (by simp)) (hargs b (by simp)) hstd
  · obtain ⟨a, b, rfl⟩ := two_of_arity (by decide) har
    exact wf_bvbin2 "bvshl" .bvLshl (by decide) a b u τ (hargs a (by simp)) (hargs b (by simp)) hstd
  · obtain ⟨a, b, rfl⟩ := two_of_arity (by decide) har
    exact wf_bvbin2 "bvlshr" .bvLshr (by decide) a b u τ (hargs a (by simp)) (hargs b (by simp)) hstd
  · obtain ⟨a, b, rfl⟩ := two_of_arity (by decide) har
    exact wf_bvbin2 "bvashr" .bvAshr (by decide) a b u τ (hargs a (by simp)) (hargs b (by simp)) hstd
  · obtain ⟨a, b, rfl⟩ := two_of_arity (by decide) har
    exact wf_bvbin2 "bvsdiv" .bvSdiv (by decide) a b u τ (hargs a (by simp)) (hargs b (by simp)) hstd
  · obtain ⟨a, b, rfl⟩ := two_of_arity (by decide) har
    exact wf_bvbin2 "bvsrem" .bvSrem (by decide) a b u τ (hargs a (by simp)) (hargs b (by simp)) hstd
  · exact wf_notBin "bvnand" .bvAnd rfl as u τ hargs (by rw [← std_bvnand]; exact hstd)
  · exact wf_notBin "bvnor" .bvOr rfl as u τ hargs (by rw [← std_bvnor]; exact hstd)
  · exact wf_notBin "bvxnor" .bvXor rfl as u τ hargs (by rw [← std_bvxnor]; exact hstd)
  · exact wf_stdRel "bvult" .bvUlt false rfl as u τ hargs (by rw [← std_bvult]; exact hstd)
  · exact wf_stdRel "bvule" .bvUle false rfl as u τ hargs (by rw [← std_bvule]; exact hstd)
  · exact wf_stdRel "bvugt" .bvUlt true rfl as u τ hargs (by rw [← std_bvugt]; exact hstd)
  · exact wf_stdRel "bvuge" .bvUle true rfl as u τ hargs (by rw [← std_bvuge]; exact hstd)
  · exact wf_stdRel "bvslt" .bvSlt false rfl as u τ hargs (by rw [← std_bvslt]; exact hstd)
  · exact wf_stdRel "bvsle" .bvSle false rfl as u τ hargs (by rw [← std_bvsle]; exact hstd)
  · exact wf_stdRel "bvsgt" .bvSlt true rfl as u τ hargs (by rw [← std_bvsgt]; exact hstd)
  · exact wf_stdRel "bvsge" .bvSle true rfl as u τ hargs (by rw [← std_bvsge]; exact hstd)
  · exact wf_strconcat as u τ hargs hstd
  · exact wf_str "str.len" "StrLength" (by decide) as u τ hargs hstd
  · exact wf_str "str.at" "StrCharAt" (by decide) as u τ hargs hstd
  · exact wf_str "str.substr" "StrSubstr" (by decide) as u τ hargs hstd
  · exact wf_str "str.indexof" "StrIndexOf" (by decide) as u τ hargs hstd
  · exact wf_str "str.replace" "StrReplace" (by decide) as u τ hargs hstd
  · exact wf_str "str.prefixof" "StrPrefixOf" (by decide) as u τ hargs hstd
  · exact wf_str "str.suffixof" "StrSuffixOf" (by decide) as u τ hargs hstd
  · exact wf_str "str.contains" "StrContains" (by decide) as u τ hargs hstd
  · exact wf_select as u τ hargs hstd
  · exact wf_store as u τ hargs hstd

end PySMT.Parser.Agree
