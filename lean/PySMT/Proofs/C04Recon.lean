import PySMT.Proofs.C04Norm
/-!
# C04 — the `walk_*` callbacks of the contextualizer meet their specification on every node
that a public constructor can have produced (`NormalC`)
-/
namespace PySMT.Manager

/-- a step that adds at most one node, of content `c` (whether or not it is returned: the
    type checker may reject a node that was inserted) -/
def NewIs (s s' : Mgr) (c : Content) : Prop :=
  s'.nextId = s.nextId ∨ (s'.nextId = s.nextId + 1 ∧ (c, s.nextId) ∈ s'.formulae)

theorem createNode_next (c : Content) (s : Mgr) : NewIs s (createNode c s).2 c := by
  rw [createNode_state]
  unfold createNodeU
  split
  · split
    · exact Or.inl rfl
    · exact Or.inr ⟨rfl, by simp⟩
  · exact Or.inl rfl

theorem NewIs.with {s s1 s2 : Mgr} {c : Content} (h : NewIs s s1 c) (hn : s2.nextId = s1.nextId)
    (hf : s2.formulae = s1.formulae) : NewIs s s2 c := by
  rcases h with h | ⟨h1, h2⟩
  · exact Or.inl (hn.trans h)
  · exact Or.inr ⟨hn.trans h1, hf ▸ h2⟩

theorem intConst_next (n : Int) (s : Mgr) : NewIs s (intConst (.int n) s).2 (intC n) := by
  unfold intConst
  simp only [PyNum.intValue]
  split
  · exact Or.inl rfl
  · have := createNode_next (intC n) s
    generalize createNode (intC n) s = r at this
    obtain ⟨r1, s1⟩ := r
    cases r1 with
    | error e => exact this
    | ok i => exact this.with rfl rfl

theorem realConst_next (v : PyNum) (s : Mgr) {q : Rat} (hv : v.realValue = .ok q) :
    NewIs s (realConst v s).2 (realC q) := by
  unfold realConst
  rw [hv]
  simp only
  split
  · exact Or.inl rfl
  · have := createNode_next (realC q) s
    generalize createNode (realC q) s = r at this
    obtain ⟨r1, s1⟩ := r
    cases r1 with
    | error e => exact this
    | ok i => exact this.with rfl rfl

theorem strConst_next (x : String) (s : Mgr) : NewIs s (strConst x s).2 (strC x) := by
  unfold strConst
  split
  · exact Or.inl rfl
  · have := createNode_next (strC x) s
    generalize createNode (strC x) s = r at this
    obtain ⟨r1, s1⟩ := r
    cases r1 with
    | error e => exact this
    | ok i => exact this.with rfl rfl

theorem symbolPrim_next (x : String) (t : Ty) (s : Mgr) : NewIs s (symbolPrim x t s).2 (symC x t) := by
  unfold symbolPrim
  split
  · split
    · split <;> exact Or.inl rfl
    · exact Or.inl rfl
  · split
    · exact Or.inl rfl
    · have := createNode_next (symC x t) s
      generalize createNode (symC x t) s = r at this
      obtain ⟨r1, s1⟩ := r
      cases r1 with
      | error e => exact this
      | ok i => exact this.with rfl rfl

/-- equal trees have equal root shapes and as many references -/
theorem shape_of_struct_eq {src tgt : Mgr} (hsrc : Inv src) (ht : Inv tgt) {a b : Nid} {ca cb : Content}
    (ha : (ca, a) ∈ src.formulae) (hb : (cb, b) ∈ tgt.formulae) (h : tgt.struct b = src.struct a) :
    cb.shape = ca.shape := by
  rw [struct_eq hsrc ha, struct_eq ht hb] at h
  simp only [Term.node.injEq] at h
  exact h.1

/-- A node of `tgt` whose content is the source content with every reference replaced by a
    faithful copy is a faithful copy. -/
theorem copy_of_content {src tgt : Mgr} (hsrc : Inv src) (ht : Inv tgt) {c c' : Content} {i j : Nid}
    (hc : (c, i) ∈ src.formulae) (hc' : (c', j) ∈ tgt.formulae) (hshape : c'.shape = c.shape)
    (g : Nid → Nid) (hids : c'.ids = c.ids.map g) (hg : ∀ a ∈ c.ids, Copy src tgt a (g a)) :
    Copy src tgt i j := by
  refine ⟨(hsrc.range _ _ hc).1, (hsrc.range _ _ hc).2, (ht.range _ _ hc').1, (ht.range _ _ hc').2, ?_⟩
  rw [struct_eq hsrc hc, struct_eq ht hc', hshape, hids, List.map_map]
  congr 1
  apply List.map_congr_left
  intro a ha
  exact (hg a ha).eq

theorem newCopies_of_step {src tgt tgt' : Mgr} {c' : Content} {i : Nid}
    (i0 : 0 < i) (i1 : i < src.nextId) (hstep : NewIs tgt tgt' c')
    (hcopy : ∀ j, (c', j) ∈ tgt'.formulae → Copy src tgt' i j) : NewCopies src tgt tgt' := by
  intro b hb1 hb2
  rcases hstep with h | ⟨h1, h2⟩
  · omega
  · have hb : b = tgt.nextId := by omega
    subst hb
    exact ⟨i, i0, i1, (hcopy _ h2).eq⟩

/-- the workhorse: `create` of the mapped content -/
theorem create_copy {src tgt : Mgr} (hsrc : Inv src) (ht : Inv tgt) {c c' : Content} {i : Nid}
    (hc : (c, i) ∈ src.formulae) (hshape : c'.shape = c.shape)
    (g : Nid → Nid) (hids : c'.ids = c.ids.map g) (hg : ∀ a ∈ c.ids, Copy src tgt a (g a))
    {r : Except Err Nid} {tgt' : Mgr} (hrun : (create c').run tgt = (r, tgt')) :
    Inv tgt' ∧ Ext tgt tgt' ∧ NewCopies src tgt tgt' ∧ ∀ j, r = .ok j → Copy src tgt' i j := by
  rw [create_run] at hrun
  have hspec := createNode_spec c' tgt ht
  have hnext := createNode_next c' tgt
  rw [hrun] at hspec hnext
  obtain ⟨hi', he, hmem, _⟩ := hspec
  have hcp : ∀ j, (c', j) ∈ tgt'.formulae → Copy src tgt' i j := by
    intro j hj
    exact copy_of_content hsrc hi' hc hj hshape g hids (fun a ha => (hg a ha).mono ht hi' he)
  have hr := hsrc.range _ _ hc
  exact ⟨hi', he, newCopies_of_step hr.1 hr.2 hnext hcp, fun j hj => hcp j (hmem j hj)⟩

theorem shape_map (nt : Nat) (args : List Nid) (pl : Payload) (g : Nid → Nid) (hpl : pl.ids = []) :
    (Content.mk nt (args.map g) pl).shape = (Content.mk nt args pl).shape ∧
    (Content.mk nt (args.map g) pl).ids = (Content.mk nt args pl).ids.map g := by
  simp [Content.shape, Content.ids, hpl]

/-- (A)+(B)+(D)+(E)+(F): the callback is `create_node` on the rebuilt children with the
    same payload (which holds no node) -/
theorem recSpec_create {src : Mgr} (hsrc : Inv src) (addr : Nid → Nat) (same : Bool) {nt : Nat} {args : List Nid} {pl : Payload}
    {i : Nid} (hpl : pl.ids = [])
    (hrec : ∀ g : Nid → Nid, reconstruct src addr ⟨nt, args, pl⟩ (args.map g) = create ⟨nt, args.map g, pl⟩) :
    RecSpec src addr same ⟨nt, args, pl⟩ i := by
  intro hc tgt g ht _ hg r tgt' hrun
  rw [show (Content.mk nt args pl).args = args from rfl, hrec g] at hrun
  have hsm := shape_map nt args pl g hpl
  exact create_copy hsrc ht hc hsm.1 g hsm.2
    (fun a ha => hg a (by simpa [Content.ids, hpl] using ha)) hrun

/-- node types whose callback is the plain constructor on the rebuilt children -/
def plainNTs : List Nat :=
  [NT.IMPLIES, NT.IFF, NT.MINUS, NT.LE, NT.LT, NT.EQUALS, NT.ITE, NT.BV_ULT, NT.BV_ULE, NT.BV_SLT, NT.BV_SLE,
   NT.STR_LENGTH, NT.STR_CONTAINS, NT.STR_INDEXOF, NT.STR_REPLACE, NT.STR_SUBSTR, NT.STR_PREFIXOF,
   NT.STR_SUFFIXOF, NT.STR_TO_INT, NT.INT_TO_STR, NT.STR_CHARAT, NT.ARRAY_SELECT, NT.ARRAY_STORE, NT.BV_TONATURAL]

theorem reconstruct_plain {nt : Nat} (h : nt ∈ plainNTs) (src : Mgr) (addr : Nid → Nat) (args : List Nid)
    (pl : Payload) (a : List Nid) : reconstruct src addr ⟨nt, args, pl⟩ a = mkPlain nt a := by
  simp only [plainNTs, List.mem_cons, List.not_mem_nil, or_false] at h
  rcases h with rfl | rfl | rfl | rfl | rfl | rfl | rfl | rfl | rfl | rfl | rfl | rfl | rfl | rfl | rfl | rfl |
    rfl | rfl | rfl | rfl | rfl | rfl | rfl | rfl <;> simp +decide [reconstruct]

theorem recSpec_plain {src : Mgr} (hsrc : Inv src) (addr : Nid → Nat) (same : Bool) {nt : Nat} (h : nt ∈ plainNTs)
    (args : List Nid) (i : Nid) : RecSpec src addr same ⟨nt, args, .none⟩ i :=
  recSpec_create hsrc addr same rfl (fun g => by rw [reconstruct_plain h]; rfl)

/-- `And/Or/Plus/Times` nodes have at least two children -/
theorem recSpec_nary {src : Mgr} (hsrc : Inv src) (addr : Nid → Nat) (same : Bool) {nt : Nat}
    (h : nt = NT.AND ∨ nt = NT.OR ∨ nt = NT.PLUS ∨ nt = NT.TIMES) (a b : Nid) (t : List Nid) (i : Nid) :
    RecSpec src addr same ⟨nt, a :: b :: t, .none⟩ i :=
  recSpec_create hsrc addr same rfl (fun g => by
    rcases h with rfl | rfl | rfl | rfl <;>
      simp +decide [reconstruct, mkAnd, mkOr, mkPlus, mkTimes, mkNary])

theorem recSpec_strConcat {src : Mgr} (hsrc : Inv src) (addr : Nid → Nat) (same : Bool) (a b : Nid) (t : List Nid) (i : Nid) :
    RecSpec src addr same ⟨NT.STR_CONCAT, a :: b :: t, .none⟩ i :=
  recSpec_create hsrc addr same rfl (fun g => by simp +decide [reconstruct, mkStrConcat])

theorem recSpec_algebraic {src : Mgr} (hsrc : Inv src) (addr : Nid → Nat) (same : Bool) (tag : String) (i : Nid) :
    RecSpec src addr same ⟨NT.ALGEBRAIC_CONSTANT, [], .alg tag⟩ i :=
  recSpec_create hsrc addr same rfl (fun g => by simp +decide [reconstruct])

theorem recSpec_bvComp {src : Mgr} (hsrc : Inv src) (addr : Nid → Nat) (same : Bool) (x y : Nid) (i : Nid) :
    RecSpec src addr same ⟨NT.BV_COMP, [x, y], .nums [1]⟩ i :=
  recSpec_create hsrc addr same rfl (fun g => by simp +decide [reconstruct, mkBVComp])

theorem recSpec_bvConst {src : Mgr} (hsrc : Inv src) (addr : Nid → Nat) (same : Bool) {v w : Nat} (hw : w ≠ 0) (h : v < 2 ^ w) (i : Nid) :
    RecSpec src addr same ⟨NT.BV_CONSTANT, [], .bv v w⟩ i :=
  recSpec_create hsrc addr same rfl (fun g => by
    have h1 : ¬ ((v : Int) < 0) := by omega
    have h2 : ¬ ((v : Int) ≥ 2 ^ w) := by
      have : ((2 ^ w : Nat) : Int) = (2 : Int) ^ w := by simp
      omega
    simp +decide [reconstruct, mkBV, hw, h1, h2])

/-- a primitive that returns the node of the (reference-free) source content -/
theorem prim_copy {src tgt : Mgr} (hsrc : Inv src) {c : Content} {i : Nid}
    (hc : (c, i) ∈ src.formulae) (hids : c.ids = []) {r : Except Err Nid} {tgt' : Mgr}
    (hspec : PrimSpec tgt (r, tgt')) (hnext : NewIs tgt tgt' c)
    (hmem : ∀ j, r = .ok j → (c, j) ∈ tgt'.formulae) :
    Inv tgt' ∧ Ext tgt tgt' ∧ NewCopies src tgt tgt' ∧ ∀ j, r = .ok j → Copy src tgt' i j := by
  have hcp : ∀ j, (c, j) ∈ tgt'.formulae → Copy src tgt' i j := fun j hj =>
    copy_of_content hsrc hspec.inv hc hj rfl id (by simp [hids]) (by simp [hids])
  have hr := hsrc.range _ _ hc
  exact ⟨hspec.inv, hspec.ext, newCopies_of_step hr.1 hr.2 hnext hcp, fun j hj => hcp j (hmem j hj)⟩

theorem recSpec_real {src : Mgr} (hsrc : Inv src) (addr : Nid → Nat) (same : Bool) (q : Rat) (i : Nid) :
    RecSpec src addr same ⟨NT.REAL_CONSTANT, [], .rat q⟩ i := by
  intro hc tgt g ht _ _ r tgt' hrun
  have hrec : reconstruct src addr ⟨NT.REAL_CONSTANT, [], .rat q⟩ ([].map g) = mkReal (.frac q) := by
    simp +decide [reconstruct]
  rw [show (Content.mk NT.REAL_CONSTANT [] (.rat q)).args = [] from rfl, hrec, mkReal, prim_run] at hrun
  simp only [Prim.exec] at hrun
  have hsp := realConst_spec (.frac q) tgt ht
  have hn := realConst_next (.frac q) tgt (q := q) rfl
  rw [hrun] at hsp hn
  refine prim_copy hsrc hc rfl hsp.1 hn (fun j hj => ?_)
  obtain ⟨q', hq', hm⟩ := hsp.2 j hj
  simp only [PyNum.realValue, Except.ok.injEq] at hq'
  subst hq'
  exact hm

theorem recSpec_int {src : Mgr} (hsrc : Inv src) (addr : Nid → Nat) (same : Bool) (n : Int) (i : Nid) :
    RecSpec src addr same ⟨NT.INT_CONSTANT, [], .int n⟩ i := by
  intro hc tgt g ht _ _ r tgt' hrun
  have hrec : reconstruct src addr ⟨NT.INT_CONSTANT, [], .int n⟩ ([].map g) = mkInt (.int n) := by
    simp +decide [reconstruct]
  rw [show (Content.mk NT.INT_CONSTANT [] (.int n)).args = [] from rfl, hrec, mkInt, prim_run] at hrun
  simp only [Prim.exec] at hrun
  have hsp := intConst_spec (.int n) tgt ht
  have hn := intConst_next n tgt
  rw [hrun] at hsp hn
  refine prim_copy hsrc hc rfl hsp.1 hn (fun j hj => ?_)
  obtain ⟨m, hm1, hm⟩ := hsp.2 j hj
  cases hm1
  exact hm

theorem recSpec_str {src : Mgr} (hsrc : Inv src) (addr : Nid → Nat) (same : Bool) (x : String) (i : Nid) :
    RecSpec src addr same ⟨NT.STR_CONSTANT, [], .str x⟩ i := by
  intro hc tgt g ht _ _ r tgt' hrun
  have hrec : reconstruct src addr ⟨NT.STR_CONSTANT, [], .str x⟩ ([].map g) = mkString (.str x) := by
    simp +decide [reconstruct]
  rw [show (Content.mk NT.STR_CONSTANT [] (.str x)).args = [] from rfl, hrec, mkString, prim_run] at hrun
  simp only [Prim.exec] at hrun
  have hsp := strConst_spec x tgt ht
  have hn := strConst_next x tgt
  rw [hrun] at hsp hn
  exact prim_copy hsrc hc rfl hsp.1 hn (fun j hj => hsp.2 j hj)

theorem recSpec_bool {src : Mgr} (hsrc : Inv src) (addr : Nid → Nat) (same : Bool) (b : Bool) (i : Nid) :
    RecSpec src addr same ⟨NT.BOOL_CONSTANT, [], .bool b⟩ i := by
  intro hc tgt g ht _ _ r tgt' hrun
  have hrec : reconstruct src addr ⟨NT.BOOL_CONSTANT, [], .bool b⟩ ([].map g) =
      pure (if b then trueId else falseId) := by
    simp +decide [reconstruct, mkBool]
  rw [show (Content.mk NT.BOOL_CONSTANT [] (.bool b)).args = [] from rfl, hrec] at hrun
  simp only [pure, Prog.run, Prod.mk.injEq] at hrun
  obtain ⟨rfl, rfl⟩ := hrun
  refine ⟨ht, Ext.refl _, NewCopies.refl _ _, fun j hj => ?_⟩
  cases hj
  cases b
  · exact copy_of_content hsrc ht hc ht.ff rfl id (by simp [falseC, Content.ids, Payload.ids])
      (by simp [Content.ids, Payload.ids])
  · exact copy_of_content hsrc ht hc ht.tt rfl id (by simp [trueC, Content.ids, Payload.ids])
      (by simp [Content.ids, Payload.ids])

/-- `walk_symbol`: on success the symbol of the same name and type -/
theorem copySymbol_spec {src tgt : Mgr} (hsrc : Inv src) (ht : Inv tgt) {n : String} {t : Ty} {i : Nid}
    (hc : (symC n t, i) ∈ src.formulae) {r : Except Err Nid} {tgt' : Mgr}
    (hrun : (copySymbol (symC n t)).run tgt = (r, tgt')) :
    Inv tgt' ∧ Ext tgt tgt' ∧ NewCopies src tgt tgt' ∧
      ∀ j, r = .ok j → Copy src tgt' i j ∧ (symC n t, j) ∈ tgt'.formulae := by
  simp only [copySymbol, symC, Prog.run, Prim.exec] at hrun
  have h1 := internTyPrim_spec t tgt ht
  cases hi : internTyPrim t tgt with
  | mk r1 t1 =>
    rw [hi] at hrun h1
    have hn1 : t1.nextId = tgt.nextId := by
      unfold internTyPrim at hi
      split at hi <;> (cases hi; rfl)
    cases r1 with
    | error e =>
      simp only [Prod.mk.injEq] at hrun
      obtain ⟨rfl, rfl⟩ := hrun
      exact ⟨h1.inv, h1.ext, fun b hb1 hb2 => by omega, by simp⟩
    | ok u =>
      simp only at hrun
      change (mkSymbol n t).run t1 = (r, tgt') at hrun
      rw [mkSymbol, prim_run] at hrun
      simp only [Prim.exec] at hrun
      have hsp := symbolPrim_spec n t t1 h1.inv
      have hn := symbolPrim_next n t t1
      rw [hrun] at hsp hn
      have hres := prim_copy hsrc hc rfl hsp.1 hn (fun j hj => hsp.2 j hj)
      refine ⟨hres.1, h1.ext.trans hres.2.1, ?_, fun j hj => ⟨hres.2.2.2 j hj, hsp.2 j hj⟩⟩
      intro b hb1 hb2
      exact hres.2.2.1 b (by omega) hb2

theorem recSpec_symbol {src : Mgr} (hsrc : Inv src) (addr : Nid → Nat) (same : Bool) (n : String) (t : Ty) (i : Nid) :
    RecSpec src addr same ⟨NT.SYMBOL, [], .sym n t⟩ i := by
  intro hc tgt g ht _ _ r tgt' hrun
  have hrec : reconstruct src addr ⟨NT.SYMBOL, [], .sym n t⟩ ([].map g) = copySymbol (symC n t) := by
    simp +decide [reconstruct, symC]
  rw [show (Content.mk NT.SYMBOL [] (.sym n t)).args = [] from rfl, hrec] at hrun
  have := copySymbol_spec hsrc ht hc hrun
  exact ⟨this.1, this.2.1, this.2.2.1, fun j hj => (this.2.2.2 j hj).1⟩

/-! ### list-based variant (payload nodes are not images of a function of the children) -/

inductive All₂ {α β : Type} (R : α → β → Prop) : List α → List β → Prop
  | nil : All₂ R [] []
  | cons {a b l l'} : R a b → All₂ R l l' → All₂ R (a :: l) (b :: l')

theorem All₂.length_eq {α β : Type} {R : α → β → Prop} : ∀ {l : List α} {l' : List β}, All₂ R l l' → l.length = l'.length
  | _, _, .nil => rfl
  | _, _, .cons _ t => by simp [All₂.length_eq t]

theorem forall₂_struct {src tgt : Mgr} : ∀ {l l' : List Nid}, All₂ (Copy src tgt) l l' →
    l'.map tgt.struct = l.map src.struct
  | _, _, .nil => rfl
  | _, _, .cons h t => by simp [h.eq, forall₂_struct t]

theorem copy_of_content₂ {src tgt : Mgr} (hsrc : Inv src) (ht : Inv tgt) {c c' : Content} {i j : Nid}
    (hc : (c, i) ∈ src.formulae) (hc' : (c', j) ∈ tgt.formulae) (hshape : c'.shape = c.shape)
    (hids : All₂ (Copy src tgt) c.ids c'.ids) : Copy src tgt i j := by
  refine ⟨(hsrc.range _ _ hc).1, (hsrc.range _ _ hc).2, (ht.range _ _ hc').1, (ht.range _ _ hc').2, ?_⟩
  rw [struct_eq hsrc hc, struct_eq ht hc', hshape, forall₂_struct hids]

theorem forall₂_mono {src tgt tgt' : Mgr} (ht : Inv tgt) (ht' : Inv tgt') (he : Ext tgt tgt') :
    ∀ {l l' : List Nid}, All₂ (Copy src tgt) l l' → All₂ (Copy src tgt') l l'
  | _, _, .nil => .nil
  | _, _, .cons h t => .cons (h.mono ht ht' he) (forall₂_mono ht ht' he t)

theorem create_copy₂ {src tgt : Mgr} (hsrc : Inv src) (ht : Inv tgt) {c c' : Content} {i : Nid}
    (hc : (c, i) ∈ src.formulae) (hshape : c'.shape = c.shape)
    (hids : All₂ (Copy src tgt) c.ids c'.ids)
    {r : Except Err Nid} {tgt' : Mgr} (hrun : (create c').run tgt = (r, tgt')) :
    Inv tgt' ∧ Ext tgt tgt' ∧ NewCopies src tgt tgt' ∧ ∀ j, r = .ok j → Copy src tgt' i j := by
  rw [create_run] at hrun
  have hspec := createNode_spec c' tgt ht
  have hnext := createNode_next c' tgt
  rw [hrun] at hspec hnext
  obtain ⟨hi', he, hmem, _⟩ := hspec
  have hcp : ∀ j, (c', j) ∈ tgt'.formulae → Copy src tgt' i j := by
    intro j hj
    exact copy_of_content₂ hsrc hi' hc hj hshape (forall₂_mono ht hi' he hids)
  have hr := hsrc.range _ _ hc
  exact ⟨hi', he, newCopies_of_step hr.1 hr.2 hnext hcp, fun j hj => hcp j (hmem j hj)⟩

theorem forall₂_of_map {src tgt : Mgr} (g : Nid → Nid) : ∀ (l : List Nid), (∀ a ∈ l, Copy src tgt a (g a)) →
    All₂ (Copy src tgt) l (l.map g)
  | [], _ => .nil
  | a :: t, h => .cons (h a (by simp)) (forall₂_of_map g t (fun x hx => h x (List.mem_cons_of_mem _ hx)))

/-- `Not` nodes never have a `Not` child (the constructor removes double negation) -/
theorem recSpec_not {src : Mgr} (hsrc : Inv src) (addr : Nid → Nat) (same : Bool) (a : Nid) (i : Nid)
    (hna : ∀ ca, (ca, a) ∈ src.formulae → ca.nodeType ≠ NT.NOT) :
    RecSpec src addr same ⟨NT.NOT, [a], .none⟩ i := by
  intro hc tgt g ht _ hg r tgt' hrun
  have hcp := hg a (by simp)
  have hcl := hsrc.closed _ _ hc a (by simp [Content.ids])
  obtain ⟨ca, hca⟩ := hsrc.full a hcl.1 (Nat.lt_trans hcl.2 (hsrc.range _ _ hc).2)
  obtain ⟨cb, hcb⟩ := ht.full (g a) hcp.pos hcp.lt
  have hsh := shape_of_struct_eq hsrc ht hca hcb hcp.eq
  have hnt : cb.nodeType ≠ NT.NOT := by
    have : cb.shape.nodeType = ca.shape.nodeType := by rw [hsh]
    have : cb.nodeType = ca.nodeType := this
    rw [this]; exact hna ca hca
  have hrec : (reconstruct src addr ⟨NT.NOT, [a], .none⟩ ([a].map g)).run tgt =
      (create ⟨NT.NOT, [g a], .none⟩).run tgt := by
    have : reconstruct src addr ⟨NT.NOT, [a], .none⟩ ([a].map g) = mkNot (g a) := by
      simp +decide [reconstruct]
    rw [this]
    show ((getC (g a)).bind _).run tgt = _
    rw [getC_run (content?_of_mem ht hcb)]
    simp [hnt]
  rw [show (Content.mk NT.NOT [a] .none).args = [a] from rfl, hrec] at hrun
  exact create_copy₂ hsrc ht hc (by simp [Content.shape]) (by
    simpa [Content.ids, Payload.ids] using (All₂.cons hcp .nil)) hrun

/-- `walk_symbol` over the bound variables of a quantifier -/
theorem copySymbols_spec {src : Mgr} (hsrc : Inv src) : ∀ (vs : List Nid) {tgt : Mgr}, Inv tgt →
    (∀ v ∈ vs, ∃ n t, (symC n t, v) ∈ src.formulae) →
    ∀ {r : Except Err (List Nid)} {tgt' : Mgr}, (copySymbols src vs).run tgt = (r, tgt') →
      Inv tgt' ∧ Ext tgt tgt' ∧ NewCopies src tgt tgt' ∧
        ∀ vs', r = .ok vs' → All₂ (Copy src tgt') vs vs'
  | [], tgt, ht, _, r, tgt', hrun => by
    simp only [copySymbols, pure, Prog.run, Prod.mk.injEq] at hrun
    obtain ⟨rfl, rfl⟩ := hrun
    exact ⟨ht, Ext.refl _, NewCopies.refl _ _, fun vs' h => by cases h; exact .nil⟩
  | v :: t, tgt, ht, hsym, r, tgt', hrun => by
    obtain ⟨n, ty, hv⟩ := hsym v (by simp)
    simp only [copySymbols, content?_of_mem hsrc hv, bind] at hrun
    rw [Prog.run_bind] at hrun
    cases h1 : (copySymbol (symC n ty)).run tgt with
    | mk r1 t1 =>
      have w1 := copySymbol_spec hsrc ht hv h1
      rw [h1] at hrun
      have hpos : 0 < tgt.nextId := Nat.zero_lt_of_lt (ht.range _ _ ht.tt).2
      cases r1 with
      | error e =>
        simp only [Prod.mk.injEq] at hrun
        obtain ⟨rfl, rfl⟩ := hrun
        exact ⟨w1.1, w1.2.1, w1.2.2.1, by simp⟩
      | ok v' =>
        simp only at hrun
        rw [Prog.run_bind] at hrun
        cases h2 : (copySymbols src t).run t1 with
        | mk r2 t2 =>
          have w2 := copySymbols_spec hsrc t w1.1 (fun x hx => hsym x (List.mem_cons_of_mem _ hx)) h2
          rw [h2] at hrun
          cases r2 with
          | error e =>
            simp only [Prod.mk.injEq] at hrun
            obtain ⟨rfl, rfl⟩ := hrun
            exact ⟨w2.1, w1.2.1.trans w2.2.1, NewCopies.trans w1.1 w2.1 w2.2.1 w1.2.2.1 w2.2.2.1 hpos, by simp⟩
          | ok t' =>
            simp only [pure, Prog.run, Prod.mk.injEq] at hrun
            obtain ⟨rfl, rfl⟩ := hrun
            refine ⟨w2.1, w1.2.1.trans w2.2.1, NewCopies.trans w1.1 w2.1 w2.2.1 w1.2.2.1 w2.2.2.1 hpos, ?_⟩
            intro vs' h
            cases h
            exact .cons ((w1.2.2.2 v' rfl).1.mono w1.1 w2.1 w2.2.1) (w2.2.2.2 t' rfl)

theorem recSpec_quant {src : Mgr} (hsrc : Inv src) (addr : Nid → Nat) (same : Bool) {nt : Nat}
    (hnt : nt = NT.FORALL ∨ nt = NT.EXISTS) (body : Nid) (v : Nid) (vs : List Nid) (i : Nid)
    (hsym : ∀ x ∈ v :: vs, ∃ n t, (symC n t, x) ∈ src.formulae) :
    RecSpec src addr same ⟨nt, [body], .vars (v :: vs)⟩ i := by
  intro hc tgt g ht _ hg r tgt' hrun
  have hrec : reconstruct src addr ⟨nt, [body], .vars (v :: vs)⟩ ([body].map g) =
      (copySymbols src (v :: vs)).bind fun vs' => mkQuant nt vs' (g body) := by
    rcases hnt with rfl | rfl <;> simp +decide [reconstruct, bind]
  rw [show (Content.mk nt [body] (.vars (v :: vs))).args = [body] from rfl, hrec, Prog.run_bind] at hrun
  cases h1 : (copySymbols src (v :: vs)).run tgt with
  | mk r1 t1 =>
    have w1 := copySymbols_spec hsrc (v :: vs) ht hsym h1
    rw [h1] at hrun
    have hpos : 0 < tgt.nextId := Nat.zero_lt_of_lt (ht.range _ _ ht.tt).2
    cases r1 with
    | error e =>
      simp only [Prod.mk.injEq] at hrun
      obtain ⟨rfl, rfl⟩ := hrun
      exact ⟨w1.1, w1.2.1, w1.2.2.1, by simp⟩
    | ok vs' =>
      simp only at hrun
      have hf := w1.2.2.2 vs' rfl
      have hne : vs'.isEmpty = false := by
        cases hf with
        | cons _ _ => rfl
      simp only [mkQuant, hne] at hrun
      have hbody := (hg body (by simp)).mono ht w1.1 w1.2.1
      have w2 := create_copy₂ (c' := ⟨nt, [g body], .vars vs'⟩) hsrc w1.1 hc
        (by
          have hl : vs'.length = (v :: vs).length := (All₂.length_eq hf).symm
          simp [Content.shape, Payload.erase, List.map_const', hl, List.replicate_succ])
        (by
          simpa [Content.ids, Payload.ids] using (All₂.cons hbody hf))
        hrun
      exact ⟨w2.1, w1.2.1.trans w2.2.1, NewCopies.trans w1.1 w2.1 w2.2.1 w1.2.2.1 w2.2.2.1 hpos, w2.2.2.2⟩

theorem all₂_append {α β : Type} {R : α → β → Prop} : ∀ {l1 : List α} {l1' : List β} {l2 : List α} {l2' : List β},
    All₂ R l1 l1' → All₂ R l2 l2' → All₂ R (l1 ++ l2) (l1' ++ l2')
  | _, _, _, _, .nil, h => h
  | _, _, _, _, .cons h t, h2 => .cons h (all₂_append t h2)

/-- function applications: the symbol has a function type of the right arity -/
theorem recSpec_function {src : Mgr} (hsrc : Inv src) (addr : Nid → Nat) (same : Bool) (a : Nid) (args : List Nid) (f : Nid)
    (i : Nid) {n : String} {rt : Ty} {ps : TyL} (hf : (symC n (.func rt ps), f) ∈ src.formulae)
    (har : (a :: args).length = ps.length) :
    RecSpec src addr same ⟨NT.FUNCTION, a :: args, .fn f⟩ i := by
  intro hc tgt g ht _ hg r tgt' hrun
  have hrec : reconstruct src addr ⟨NT.FUNCTION, a :: args, .fn f⟩ ((a :: args).map g) =
      (copySymbol (symC n (.func rt ps))).bind fun f' => mkFunction f' ((a :: args).map g) := by
    simp +decide [reconstruct, content?_of_mem hsrc hf, bind]
  rw [show (Content.mk NT.FUNCTION (a :: args) (.fn f)).args = a :: args from rfl, hrec, Prog.run_bind] at hrun
  cases h1 : (copySymbol (symC n (.func rt ps))).run tgt with
  | mk r1 t1 =>
    have w1 := copySymbol_spec hsrc ht hf h1
    rw [h1] at hrun
    have hpos : 0 < tgt.nextId := Nat.zero_lt_of_lt (ht.range _ _ ht.tt).2
    cases r1 with
    | error e =>
      simp only [Prod.mk.injEq] at hrun
      obtain ⟨rfl, rfl⟩ := hrun
      exact ⟨w1.1, w1.2.1, w1.2.2.1, by simp⟩
    | ok f' =>
      simp only at hrun
      obtain ⟨hcpf, hmemf⟩ := w1.2.2.2 f' rfl
      have hlen : ((a :: args).map g).length = ps.length := by
        rw [← har]; simp
      have hrun' : (create ⟨NT.FUNCTION, (a :: args).map g, .fn f'⟩).run t1 = (r, tgt') := by
        rw [← hrun]
        simp only [mkFunction, List.map_cons, List.isEmpty_cons, Bool.false_eq_true, if_false, bind]
        rw [getC_run (content?_of_mem w1.1 hmemf)]
        simp only [symC]
        rw [if_pos (by simpa using hlen)]
      have hargs : All₂ (Copy src t1) (a :: args) ((a :: args).map g) :=
        forall₂_of_map g _ (fun x hx => (hg x hx).mono ht w1.1 w1.2.1)
      have w2 := create_copy₂ (c' := ⟨NT.FUNCTION, (a :: args).map g, .fn f'⟩) hsrc w1.1 hc
        (by simp [Content.shape, Payload.erase])
        (by
          simp only [Content.ids, Payload.ids]
          exact all₂_append hargs (.cons hcpf .nil))
        hrun'
      exact ⟨w2.1, w1.2.1.trans w2.2.1, NewCopies.trans w1.1 w2.1 w2.2.1 w1.2.2.1 w2.2.2.1 hpos, w2.2.2.2⟩

/-- Contents that the public constructors produce and for which the contextualizer's
    callback is proved here.  Not covered (see `Props/C04.lean`): `TOREAL`, the bit-vector
    operators whose payload is a computed width (`BV_NOT … BV_ASHR`, `BV_EXTRACT`, rotations,
    extensions, `BV_CONCAT`), `ARRAY_VALUE`, `DIV`, `POW`. -/
inductive NormalC (src : Mgr) : Content → Prop
  | plain {nt : Nat} (h : nt ∈ plainNTs) (args : List Nid) : NormalC src ⟨nt, args, .none⟩
  | nary {nt : Nat} (h : nt = NT.AND ∨ nt = NT.OR ∨ nt = NT.PLUS ∨ nt = NT.TIMES) (a b : Nid) (t : List Nid) :
      NormalC src ⟨nt, a :: b :: t, .none⟩
  | strConcat (a b : Nid) (t : List Nid) : NormalC src ⟨NT.STR_CONCAT, a :: b :: t, .none⟩
  | algebraic (tag : String) : NormalC src ⟨NT.ALGEBRAIC_CONSTANT, [], .alg tag⟩
  | bvComp (x y : Nid) : NormalC src ⟨NT.BV_COMP, [x, y], .nums [1]⟩
  | bvConst {v w : Nat} (hw : w ≠ 0) (h : v < 2 ^ w) : NormalC src ⟨NT.BV_CONSTANT, [], .bv v w⟩
  | real (q : Rat) : NormalC src ⟨NT.REAL_CONSTANT, [], .rat q⟩
  | int (n : Int) : NormalC src ⟨NT.INT_CONSTANT, [], .int n⟩
  | str (x : String) : NormalC src ⟨NT.STR_CONSTANT, [], .str x⟩
  | bool (b : Bool) : NormalC src ⟨NT.BOOL_CONSTANT, [], .bool b⟩
  | symbol (n : String) (t : Ty) : NormalC src ⟨NT.SYMBOL, [], .sym n t⟩
  | not (a : Nid) (hna : ∀ ca, (ca, a) ∈ src.formulae → ca.nodeType ≠ NT.NOT) : NormalC src ⟨NT.NOT, [a], .none⟩
  | quant {nt : Nat} (hnt : nt = NT.FORALL ∨ nt = NT.EXISTS) (body v : Nid) (vs : List Nid)
      (hsym : ∀ x ∈ v :: vs, ∃ n t, (symC n t, x) ∈ src.formulae) : NormalC src ⟨nt, [body], .vars (v :: vs)⟩
  | function (a : Nid) (args : List Nid) (f : Nid) {n : String} {rt : Ty} {ps : TyL}
      (hf : (symC n (.func rt ps), f) ∈ src.formulae) (har : (a :: args).length = ps.length) :
      NormalC src ⟨NT.FUNCTION, a :: args, .fn f⟩

theorem recSpec_of_normal {src : Mgr} (hsrc : Inv src) (addr : Nid → Nat) (same : Bool) {c : Content} (i : Nid)
    (h : NormalC src c) : RecSpec src addr same c i := by
  cases h with
  | plain h args => exact recSpec_plain hsrc addr same h args i
  | nary h a b t => exact recSpec_nary hsrc addr same h a b t i
  | strConcat a b t => exact recSpec_strConcat hsrc addr same a b t i
  | algebraic tag => exact recSpec_algebraic hsrc addr same tag i
  | bvComp x y => exact recSpec_bvComp hsrc addr same x y i
  | bvConst hw h => exact recSpec_bvConst hsrc addr same hw h i
  | real q => exact recSpec_real hsrc addr same q i
  | int n => exact recSpec_int hsrc addr same n i
  | str x => exact recSpec_str hsrc addr same x i
  | bool b => exact recSpec_bool hsrc addr same b i
  | symbol n t => exact recSpec_symbol hsrc addr same n t i
  | not a hna => exact recSpec_not hsrc addr same a i hna
  | quant hnt body v vs hsym => exact recSpec_quant hsrc addr same hnt body v vs i hsym
  | function a args f hf har => exact recSpec_function hsrc addr same a args f i hf har

end PySMT.Manager
