import PySMT.Proofs.C04Norm
/-!
# C04 — the `walk_*` callbacks of the contextualizer meet their specification on every node
that a public constructor can have produced (`NormalC`)
-/
namespace PySMT.Manager

theorem createNode_next (c : Content) (s : Mgr) :
    (createNode c s).2.nextId = s.nextId ∨
    ((createNode c s).2.nextId = s.nextId + 1 ∧ (createNode c s).1 = .ok s.nextId) := by
  unfold createNode
  split
  · split
    · exact Or.inl rfl
    · exact Or.inr ⟨rfl, rfl⟩
  · exact Or.inl rfl

/-- a step that creates at most the returned node -/
def AtMostNew (s : Mgr) (r : Except Err Nid) (s' : Mgr) : Prop :=
  s'.nextId = s.nextId ∨ (s'.nextId = s.nextId + 1 ∧ r = .ok s.nextId)

theorem intConst_next (v : PyNum) (s : Mgr) : AtMostNew s (intConst v s).1 (intConst v s).2 := by
  unfold intConst
  cases v.intValue with
  | error e => exact Or.inl rfl
  | ok n =>
    simp only
    split
    · exact Or.inl rfl
    · have := createNode_next (intC n) s
      generalize createNode (intC n) s = r at this
      obtain ⟨r1, s1⟩ := r
      cases r1 <;> exact this

theorem realConst_next (v : PyNum) (s : Mgr) : AtMostNew s (realConst v s).1 (realConst v s).2 := by
  unfold realConst
  cases v.realValue with
  | error e => exact Or.inl rfl
  | ok q =>
    simp only
    split
    · exact Or.inl rfl
    · have := createNode_next (realC q) s
      generalize createNode (realC q) s = r at this
      obtain ⟨r1, s1⟩ := r
      cases r1 <;> exact this

theorem strConst_next (x : String) (s : Mgr) : AtMostNew s (strConst x s).1 (strConst x s).2 := by
  unfold strConst
  split
  · exact Or.inl rfl
  · have := createNode_next (strC x) s
    generalize createNode (strC x) s = r at this
    obtain ⟨r1, s1⟩ := r
    cases r1 <;> exact this

theorem symbolPrim_next (x : String) (t : Ty) (s : Mgr) : AtMostNew s (symbolPrim x t s).1 (symbolPrim x t s).2 := by
  unfold symbolPrim
  split
  · split
    · split <;> exact Or.inl rfl
    · exact Or.inl rfl
  · split
    · exact Or.inl rfl
    · have := createNode_next (symC x t) s
      generalize createNode (symC x t) s = r at this
      obtain ⟨r1, s1⟩ := r
      cases r1 <;> exact this

/-- equal trees have equal root shapes and as many references -/
theorem shape_of_struct_eq {src tgt : Mgr} (hsrc : Inv src) (ht : Inv tgt) {a b : Nid} {ca cb : Content}
    (ha : (ca, a) ∈ src.formulae) (hb : (cb, b) ∈ tgt.formulae) (h : tgt.struct b = src.struct a) :
    cb.shape = ca.shape := by
  rw [struct_eq hsrc ha, struct_eq ht hb] at h
  simp only [Term.node.injEq] at h
  exact h.1

/-- A node of `tgt` whose content is the source content with every reference replaced by a
    faithful copy is a faithful copy. -/
theorem copy_of_content {src tgt : Mgr} (hsrc : Inv src) (ht : Inv tgt) {c c' : Content} {i j : Nid}
    (hc : (c, i) ∈ src.formulae) (hc' : (c', j) ∈ tgt.formulae) (hshape : c'.shape = c.shape)
    (g : Nid → Nid) (hids : c'.ids = c.ids.map g) (hg : ∀ a ∈ c.ids, Copy src tgt a (g a)) :
    Copy src tgt i j := by
  refine ⟨(ht.range _ _ hc').1, (ht.range _ _ hc').2, ?_⟩
  rw [struct_eq hsrc hc, struct_eq ht hc', hshape, hids, List.map_map]
  congr 1
  apply List.map_congr_left
  intro a ha
  exact (hg a ha).eq

theorem newCopies_of_step {src tgt tgt' : Mgr} {r : Except Err Nid} {i : Nid}
    (i0 : 0 < i) (i1 : i < src.nextId) (hstep : AtMostNew tgt r tgt')
    (hcopy : ∀ j, r = .ok j → Copy src tgt' i j) : NewCopies src tgt tgt' := by
  intro b hb1 hb2
  rcases hstep with h | ⟨h1, h2⟩
  · omega
  · have hb : b = tgt.nextId := by omega
    subst hb
    exact ⟨i, i0, i1, (hcopy _ h2).eq⟩

/-- the workhorse: `create` of the mapped content -/
theorem create_copy {src tgt : Mgr} (hsrc : Inv src) (ht : Inv tgt) {c c' : Content} {i : Nid}
    (hc : (c, i) ∈ src.formulae) (hshape : c'.shape = c.shape)
    (g : Nid → Nid) (hids : c'.ids = c.ids.map g) (hg : ∀ a ∈ c.ids, Copy src tgt a (g a))
    {r : Except Err Nid} {tgt' : Mgr} (hrun : (create c').run tgt = (r, tgt')) :
    Inv tgt' ∧ Ext tgt tgt' ∧ NewCopies src tgt tgt' ∧ ∀ j, r = .ok j → Copy src tgt' i j := by
  rw [create_run] at hrun
  have hspec := createNode_spec c' tgt ht
  have hnext := createNode_next c' tgt
  rw [hrun] at hspec hnext
  obtain ⟨hi', he, hmem, _⟩ := hspec
  have hcp : ∀ j, r = .ok j → Copy src tgt' i j := by
    intro j hj
    exact copy_of_content hsrc hi' hc (hmem j hj) hshape g hids (fun a ha => (hg a ha).mono ht hi' he)
  have hr := hsrc.range _ _ hc
  exact ⟨hi', he, newCopies_of_step hr.1 hr.2 hnext hcp, hcp⟩

theorem shape_map (nt : Nat) (args : List Nid) (pl : Payload) (g : Nid → Nid) (hpl : pl.ids = []) :
    (Content.mk nt (args.map g) pl).shape = (Content.mk nt args pl).shape ∧
    (Content.mk nt (args.map g) pl).ids = (Content.mk nt args pl).ids.map g := by
  simp [Content.shape, Content.ids, hpl]

/-- (A)+(B)+(D)+(E)+(F): the callback is `create_node` on the rebuilt children with the
    same payload (which holds no node) -/
theorem recSpec_create {src : Mgr} (hsrc : Inv src) (addr : Nid → Nat) {nt : Nat} {args : List Nid} {pl : Payload}
    {i : Nid} (hpl : pl.ids = [])
    (hrec : ∀ g : Nid → Nid, reconstruct src addr ⟨nt, args, pl⟩ (args.map g) = create ⟨nt, args.map g, pl⟩) :
    RecSpec src addr ⟨nt, args, pl⟩ i := by
  intro hc tgt g ht hg r tgt' hrun
  rw [show (Content.mk nt args pl).args = args from rfl, hrec g] at hrun
  have hsm := shape_map nt args pl g hpl
  exact create_copy hsrc ht hc hsm.1 g hsm.2
    (fun a ha => hg a (by simpa [Content.ids, hpl] using ha)) hrun

/-- node types whose callback is the plain constructor on the rebuilt children -/
def plainNTs : List Nat :=
  [NT.IMPLIES, NT.IFF, NT.MINUS, NT.LE, NT.LT, NT.EQUALS, NT.ITE, NT.BV_ULT, NT.BV_ULE, NT.BV_SLT, NT.BV_SLE,
   NT.STR_LENGTH, NT.STR_CONTAINS, NT.STR_INDEXOF, NT.STR_REPLACE, NT.STR_SUBSTR, NT.STR_PREFIXOF,
   NT.STR_SUFFIXOF, NT.STR_TO_INT, NT.INT_TO_STR, NT.STR_CHARAT, NT.ARRAY_SELECT, NT.ARRAY_STORE, NT.BV_TONATURAL]

theorem reconstruct_plain {nt : Nat} (h : nt ∈ plainNTs) (src : Mgr) (addr : Nid → Nat) (args : List Nid)
    (pl : Payload) (a : List Nid) : reconstruct src addr ⟨nt, args, pl⟩ a = mkPlain nt a := by
  simp only [plainNTs, List.mem_cons, List.not_mem_nil, or_false] at h
  rcases h with rfl | rfl | rfl | rfl | rfl | rfl | rfl | rfl | rfl | rfl | rfl | rfl | rfl | rfl | rfl | rfl |
    rfl | rfl | rfl | rfl | rfl | rfl | rfl | rfl <;> simp +decide [reconstruct]

theorem recSpec_plain {src : Mgr} (hsrc : Inv src) (addr : Nid → Nat) {nt : Nat} (h : nt ∈ plainNTs)
    (args : List Nid) (i : Nid) : RecSpec src addr ⟨nt, args, .none⟩ i :=
  recSpec_create hsrc addr rfl (fun g => by rw [reconstruct_plain h]; rfl)

/-- `And/Or/Plus/Times` nodes have at least two children -/
theorem recSpec_nary {src : Mgr} (hsrc : Inv src) (addr : Nid → Nat) {nt : Nat}
    (h : nt = NT.AND ∨ nt = NT.OR ∨ nt = NT.PLUS ∨ nt = NT.TIMES) (a b : Nid) (t : List Nid) (i : Nid) :
    RecSpec src addr ⟨nt, a :: b :: t, .none⟩ i :=
  recSpec_create hsrc addr rfl (fun g => by
    rcases h with rfl | rfl | rfl | rfl <;>
      simp +decide [reconstruct, mkAnd, mkOr, mkPlus, mkTimes, mkNary])

theorem recSpec_strConcat {src : Mgr} (hsrc : Inv src) (addr : Nid → Nat) (a b : Nid) (t : List Nid) (i : Nid) :
    RecSpec src addr ⟨NT.STR_CONCAT, a :: b :: t, .none⟩ i :=
  recSpec_create hsrc addr rfl (fun g => by simp +decide [reconstruct, mkStrConcat])

theorem recSpec_algebraic {src : Mgr} (hsrc : Inv src) (addr : Nid → Nat) (tag : String) (i : Nid) :
    RecSpec src addr ⟨NT.ALGEBRAIC_CONSTANT, [], .alg tag⟩ i :=
  recSpec_create hsrc addr rfl (fun g => by simp +decide [reconstruct])

theorem recSpec_bvComp {src : Mgr} (hsrc : Inv src) (addr : Nid → Nat) (x y : Nid) (i : Nid) :
    RecSpec src addr ⟨NT.BV_COMP, [x, y], .nums [1]⟩ i :=
  recSpec_create hsrc addr rfl (fun g => by simp +decide [reconstruct, mkBVComp])

theorem recSpec_bvConst {src : Mgr} (hsrc : Inv src) (addr : Nid → Nat) {v w : Nat} (h : v < 2 ^ w) (i : Nid) :
    RecSpec src addr ⟨NT.BV_CONSTANT, [], .bv v w⟩ i :=
  recSpec_create hsrc addr rfl (fun g => by
    have h1 : ¬ ((v : Int) < 0) := by omega
    have h2 : ¬ ((v : Int) ≥ 2 ^ w) := by
      have : ((2 ^ w : Nat) : Int) = (2 : Int) ^ w := by simp
      omega
    simp +decide [reconstruct, mkBV, h1, h2])

/-- a primitive that returns the node of the (reference-free) source content -/
theorem prim_copy {src tgt : Mgr} (hsrc : Inv src) {c : Content} {i : Nid}
    (hc : (c, i) ∈ src.formulae) (hids : c.ids = []) {r : Except Err Nid} {tgt' : Mgr}
    (hspec : PrimSpec tgt (r, tgt')) (hnext : AtMostNew tgt r tgt')
    (hmem : ∀ j, r = .ok j → (c, j) ∈ tgt'.formulae) :
    Inv tgt' ∧ Ext tgt tgt' ∧ NewCopies src tgt tgt' ∧ ∀ j, r = .ok j → Copy src tgt' i j := by
  have hcp : ∀ j, r = .ok j → Copy src tgt' i j := fun j hj =>
    copy_of_content hsrc hspec.inv hc (hmem j hj) rfl id (by simp [hids]) (by simp [hids])
  have hr := hsrc.range _ _ hc
  exact ⟨hspec.inv, hspec.ext, newCopies_of_step hr.1 hr.2 hnext hcp, hcp⟩

theorem recSpec_real {src : Mgr} (hsrc : Inv src) (addr : Nid → Nat) (q : Rat) (i : Nid) :
    RecSpec src addr ⟨NT.REAL_CONSTANT, [], .rat q⟩ i := by
  intro hc tgt g ht _ r tgt' hrun
  have hrec : reconstruct src addr ⟨NT.REAL_CONSTANT, [], .rat q⟩ ([].map g) = mkReal (.frac q) := by
    simp +decide [reconstruct]
  rw [show (Content.mk NT.REAL_CONSTANT [] (.rat q)).args = [] from rfl, hrec, mkReal, prim_run] at hrun
  simp only [Prim.exec] at hrun
  have hsp := realConst_spec (.frac q) tgt ht
  have hn := realConst_next (.frac q) tgt
  rw [hrun] at hsp hn
  refine prim_copy hsrc hc rfl hsp.1 hn (fun j hj => ?_)
  obtain ⟨q', hq', hm⟩ := hsp.2 j hj
  simp only [PyNum.realValue, Except.ok.injEq] at hq'
  subst hq'
  exact hm

theorem recSpec_int {src : Mgr} (hsrc : Inv src) (addr : Nid → Nat) (n : Int) (i : Nid) :
    RecSpec src addr ⟨NT.INT_CONSTANT, [], .int n⟩ i := by
  intro hc tgt g ht _ r tgt' hrun
  have hrec : reconstruct src addr ⟨NT.INT_CONSTANT, [], .int n⟩ ([].map g) = mkInt (.int n) := by
    simp +decide [reconstruct]
  rw [show (Content.mk NT.INT_CONSTANT [] (.int n)).args = [] from rfl, hrec, mkInt, prim_run] at hrun
  simp only [Prim.exec] at hrun
  have hsp := intConst_spec (.int n) tgt ht
  have hn := intConst_next (.int n) tgt
  rw [hrun] at hsp hn
  refine prim_copy hsrc hc rfl hsp.1 hn (fun j hj => ?_)
  obtain ⟨m, hm1, hm⟩ := hsp.2 j hj
  cases hm1
  exact hm

theorem recSpec_str {src : Mgr} (hsrc : Inv src) (addr : Nid → Nat) (x : String) (i : Nid) :
    RecSpec src addr ⟨NT.STR_CONSTANT, [], .str x⟩ i := by
  intro hc tgt g ht _ r tgt' hrun
  have hrec : reconstruct src addr ⟨NT.STR_CONSTANT, [], .str x⟩ ([].map g) = mkString (.str x) := by
    simp +decide [reconstruct]
  rw [show (Content.mk NT.STR_CONSTANT [] (.str x)).args = [] from rfl, hrec, mkString, prim_run] at hrun
  simp only [Prim.exec] at hrun
  have hsp := strConst_spec x tgt ht
  have hn := strConst_next x tgt
  rw [hrun] at hsp hn
  exact prim_copy hsrc hc rfl hsp.1 hn (fun j hj => hsp.2 j hj)

theorem recSpec_bool {src : Mgr} (hsrc : Inv src) (addr : Nid → Nat) (b : Bool) (i : Nid) :
    RecSpec src addr ⟨NT.BOOL_CONSTANT, [], .bool b⟩ i := by
  intro hc tgt g ht _ r tgt' hrun
  have hrec : reconstruct src addr ⟨NT.BOOL_CONSTANT, [], .bool b⟩ ([].map g) =
      pure (if b then trueId else falseId) := by
    simp +decide [reconstruct, mkBool]
  rw [show (Content.mk NT.BOOL_CONSTANT [] (.bool b)).args = [] from rfl, hrec] at hrun
  simp only [pure, Prog.run, Prod.mk.injEq] at hrun
  obtain ⟨rfl, rfl⟩ := hrun
  refine ⟨ht, Ext.refl _, NewCopies.refl _ _, fun j hj => ?_⟩
  cases hj
  cases b
  · exact copy_of_content hsrc ht hc ht.ff rfl id (by simp [falseC, Content.ids, Payload.ids])
      (by simp [Content.ids, Payload.ids])
  · exact copy_of_content hsrc ht hc ht.tt rfl id (by simp [trueC, Content.ids, Payload.ids])
      (by simp [Content.ids, Payload.ids])

/-- `walk_symbol`: on success the symbol of the same name and type -/
theorem copySymbol_spec {src tgt : Mgr} (hsrc : Inv src) (ht : Inv tgt) {n : String} {t : Ty} {i : Nid}
    (hc : (symC n t, i) ∈ src.formulae) {r : Except Err Nid} {tgt' : Mgr}
    (hrun : (copySymbol (symC n t)).run tgt = (r, tgt')) :
    Inv tgt' ∧ Ext tgt tgt' ∧ NewCopies src tgt tgt' ∧ ∀ j, r = .ok j → Copy src tgt' i j := by
  simp only [copySymbol, symC, Prog.run, Prim.exec] at hrun
  have h1 := internTyPrim_spec t tgt ht
  cases hi : internTyPrim t tgt with
  | mk r1 t1 =>
    rw [hi] at hrun h1
    have hn1 : t1.nextId = tgt.nextId := by
      unfold internTyPrim at hi
      split at hi <;> (cases hi; rfl)
    cases r1 with
    | error e =>
      simp only [Prod.mk.injEq] at hrun
      obtain ⟨rfl, rfl⟩ := hrun
      exact ⟨h1.inv, h1.ext, fun b hb1 hb2 => by omega, by simp⟩
    | ok u =>
      simp only at hrun
      change (mkSymbol n t).run t1 = (r, tgt') at hrun
      rw [mkSymbol, prim_run] at hrun
      simp only [Prim.exec] at hrun
      have hsp := symbolPrim_spec n t t1 h1.inv
      have hn := symbolPrim_next n t t1
      rw [hrun] at hsp hn
      have hres := prim_copy hsrc hc rfl hsp.1 hn (fun j hj => hsp.2 j hj)
      refine ⟨hres.1, h1.ext.trans hres.2.1, ?_, hres.2.2.2⟩
      intro b hb1 hb2
      exact hres.2.2.1 b (by omega) hb2

theorem recSpec_symbol {src : Mgr} (hsrc : Inv src) (addr : Nid → Nat) (n : String) (t : Ty) (i : Nid) :
    RecSpec src addr ⟨NT.SYMBOL, [], .sym n t⟩ i := by
  intro hc tgt g ht _ r tgt' hrun
  have hrec : reconstruct src addr ⟨NT.SYMBOL, [], .sym n t⟩ ([].map g) = copySymbol (symC n t) := by
    simp +decide [reconstruct, symC]
  rw [show (Content.mk NT.SYMBOL [] (.sym n t)).args = [] from rfl, hrec] at hrun
  exact copySymbol_spec hsrc ht hc hrun

end PySMT.Manager
