import PySMT.Gen.Infix
import PySMT.Proofs.C06BV3
/-!
# C06 — the infix layer: every entry of the *regenerated* table `Gen.Infix.table` builds the
formula that denotes the Python-named operation.

* `Kind` / `Kind.Denotes` : the binary operations and what "denotes" means for each
  (truth values for the Boolean ones, integers and rationals for arithmetic, Lean core
  `BitVec` operations for bit-vectors);
* `mgrKind` + `mgr_denotes` : the operation each manager function stands for, proved from the
  `_denotes` theorems of the constructors;
* `pyOp` : the operation each Python method / operator is *meant* to be (written from the
  Python data model and the method names, not from fnode.py);
* `table_ok` (by `decide` on the regenerated table) : every entry dispatches to manager
  functions of exactly the kinds `pyOp` prescribes (non bit-vector / bit-vector receiver),
  direct methods pass their parameters in order to the manager function of the same name,
  the few structured bodies (`__rsub__`, `__neg__`, `__invert__`, `Ite`, `__getitem__`,
  `__truediv__`) and the hand-modelled pieces (`_apply_infix`, `_infix_prepare_arg`,
  `__call__`) are the aligned ones.
-/
namespace PySMT.C06
open PySMT.Mk PySMT.Mk.Infix

inductive Kind
  | implies | iff | and | or | xor | eq | ne
  | plus | minus | times | div | le | lt | ge | gt
  | bv (o : BinOp) | nand | nor | xnor | smod | concat | comp | shift (o : ShiftOp)
  | ult | ule | ugt | uge | slt | sle | sgt | sge
  deriving DecidableEq, Repr

/-- "the formula `t` denotes the operation `k` applied to `a` and `b`" -/
def Kind.Denotes (k : Kind) (I : Interp) (a b t : Term) : Prop :=
  match k with
  | .implies => truth I t = (!truth I a || truth I b)
  | .iff => truth I t = (truth I a == truth I b)
  | .and => truth I t = (truth I a && truth I b)
  | .or => truth I t = (truth I a || truth I b)
  | .xor => truth I t = (truth I a != truth I b)
  | .eq => truth I t = decide (eval I a = eval I b)
  | .ne => truth I t = decide (eval I a ≠ eval I b)
  | .plus =>
    (∀ x y : Int, eval I a = .i x → eval I b = .i y → eval I t = .i (x + y)) ∧
    (∀ x y : Rat, eval I a = .r x → eval I b = .r y → eval I t = .r (x + y))
  | .minus =>
    (∀ x y : Int, eval I a = .i x → eval I b = .i y → eval I t = .i (x - y)) ∧
    (∀ x y : Rat, eval I a = .r x → eval I b = .r y → eval I t = .r (x - y))
  | .times =>
    (∀ x y : Int, eval I a = .i x → eval I b = .i y → eval I t = .i (x * y)) ∧
    (∀ x y : Rat, eval I a = .r x → eval I b = .r y → eval I t = .r (x * y))
  | .div =>
    (∀ x y : Rat, y ≠ 0 → eval I a = .r x → eval I b = .r y → eval I t = .r (x / y)) ∧
    (∀ x y : Int, y ≠ 0 → eval I a = .i x → eval I b = .i y → eval I t = .i (x / y))
  | .le =>
    (∀ x y : Int, eval I a = .i x → eval I b = .i y → eval I t = .b (decide (x ≤ y))) ∧
    (∀ x y : Rat, eval I a = .r x → eval I b = .r y → eval I t = .b (decide (x ≤ y)))
  | .lt =>
    (∀ x y : Int, eval I a = .i x → eval I b = .i y → eval I t = .b (decide (x < y))) ∧
    (∀ x y : Rat, eval I a = .r x → eval I b = .r y → eval I t = .b (decide (x < y)))
  | .ge =>
    (∀ x y : Int, eval I a = .i x → eval I b = .i y → eval I t = .b (decide (x ≥ y))) ∧
    (∀ x y : Rat, eval I a = .r x → eval I b = .r y → eval I t = .b (decide (x ≥ y)))
  | .gt =>
    (∀ x y : Int, eval I a = .i x → eval I b = .i y → eval I t = .b (decide (x > y))) ∧
    (∀ x y : Rat, eval I a = .r x → eval I b = .r y → eval I t = .b (decide (x > y)))
  | .bv o => ∀ (w : Nat) (x y : BitVec w), eval I a = ofBV x → eval I b = ofBV y → eval I t = ofBV (o.fn x y)
  | .nand => ∀ (w : Nat) (x y : BitVec w), eval I a = ofBV x → eval I b = ofBV y → eval I t = ofBV (~~~(x &&& y))
  | .nor => ∀ (w : Nat) (x y : BitVec w), eval I a = ofBV x → eval I b = ofBV y → eval I t = ofBV (~~~(x ||| y))
  | .xnor => ∀ (w : Nat) (x y : BitVec w), eval I a = ofBV x → eval I b = ofBV y → eval I t = ofBV (~~~(x ^^^ y))
  | .smod => ∀ (w : Nat) (x y : BitVec w), bvWidth a = .ok w → eval I a = ofBV x → eval I b = ofBV y →
      eval I t = ofBV (BitVec.smod x y)
  | .concat => ∀ (w v : Nat) (x : BitVec w) (y : BitVec v), eval I a = ofBV x → eval I b = ofBV y →
      eval I t = ofBV (x ++ y)
  | .comp => ∀ (w : Nat) (x y : BitVec w), eval I a = ofBV x → eval I b = ofBV y →
      eval I t = ofBV (if x = y then 1#1 else 0#1)
  | .shift o => ∀ (w : Nat) (x y : BitVec w), eval I a = ofBV x → eval I b = ofBV y →
      eval I t = ofBV (o.fn x y.toNat)
  | .ult => ∀ (w : Nat) (x y : BitVec w), eval I a = ofBV x → eval I b = ofBV y → eval I t = .b (decide (x.toNat < y.toNat))
  | .ule => ∀ (w : Nat) (x y : BitVec w), eval I a = ofBV x → eval I b = ofBV y → eval I t = .b (decide (x.toNat ≤ y.toNat))
  | .ugt => ∀ (w : Nat) (x y : BitVec w), eval I a = ofBV x → eval I b = ofBV y → eval I t = .b (decide (x.toNat > y.toNat))
  | .uge => ∀ (w : Nat) (x y : BitVec w), eval I a = ofBV x → eval I b = ofBV y → eval I t = .b (decide (x.toNat ≥ y.toNat))
  | .slt => ∀ (w : Nat) (x y : BitVec w), eval I a = ofBV x → eval I b = ofBV y → eval I t = .b (decide (x.toInt < y.toInt))
  | .sle => ∀ (w : Nat) (x y : BitVec w), eval I a = ofBV x → eval I b = ofBV y → eval I t = .b (decide (x.toInt ≤ y.toInt))
  | .sgt => ∀ (w : Nat) (x y : BitVec w), eval I a = ofBV x → eval I b = ofBV y → eval I t = .b (decide (x.toInt > y.toInt))
  | .sge => ∀ (w : Nat) (x y : BitVec w), eval I a = ofBV x → eval I b = ofBV y → eval I t = .b (decide (x.toInt ≥ y.toInt))

/-- the operation each (binary use of a) manager function stands for -/
def mgrTable : List (String × Kind) :=
  [("Implies", .implies), ("Iff", .iff), ("And", .and), ("Or", .or), ("Xor", .xor),
   ("Equals", .eq), ("NotEquals", .ne),
   ("Plus", .plus), ("Minus", .minus), ("Times", .times), ("Div", .div),
   ("LE", .le), ("LT", .lt), ("GE", .ge), ("GT", .gt),
   ("BVAnd", .bv .and), ("BVOr", .bv .or), ("BVXor", .bv .xor), ("BVAdd", .bv .add), ("BVSub", .bv .sub),
   ("BVMul", .bv .mul), ("BVUDiv", .bv .udiv), ("BVURem", .bv .urem), ("BVSDiv", .bv .sdiv),
   ("BVSRem", .bv .srem),
   ("BVNand", .nand), ("BVNor", .nor), ("BVXnor", .xnor), ("BVSMod", .smod), ("BVConcat", .concat),
   ("BVComp", .comp),
   ("BVLShl", .shift .shl), ("BVLShr", .shift .lshr), ("BVAShr", .shift .ashr),
   ("BVULT", .ult), ("BVULE", .ule), ("BVUGT", .ugt), ("BVUGE", .uge),
   ("BVSLT", .slt), ("BVSLE", .sle), ("BVSGT", .sgt), ("BVSGE", .sge)]

def mgrKind (f : String) : Option Kind := (mgrTable.find? (fun e => e.1 == f)).map (·.2)

theorem and2_truth (I : Interp) {a b t : Term} (h : Mk.And [a, b] = .ok t) :
    truth I t = (truth I a && truth I b) := by
  rw [and_truth I h]; simp

theorem or2_truth (I : Interp) {a b t : Term} (h : Mk.Or [a, b] = .ok t) :
    truth I t = (truth I a || truth I b) := by
  rw [or_truth I h]; simp

theorem equals_truth (I : Interp) {a b t : Term} (h : Mk.Equals a b = .ok t) :
    truth I t = decide (eval I a = eval I b) := by
  simp [truth, equals_eval I h]

theorem plus2_denotes (I : Interp) {a b t : Term} (h : Mk.Plus [a, b] = .ok t) : Kind.plus.Denotes I a b t := by
  refine ⟨fun x y ha hb => ?_, fun x y ha hb => ?_⟩
  · simpa using (plus_denotes I h).1 x [y] (by simp [ha, hb])
  · simpa using (plus_denotes I h).2 x [y] (by simp [ha, hb])

theorem times2_denotes (I : Interp) {a b t : Term} (h : Mk.Times [a, b] = .ok t) : Kind.times.Denotes I a b t := by
  refine ⟨fun x y ha hb => ?_, fun x y ha hb => ?_⟩
  · simpa using (times_denotes I h).1 x [y] (by simp [ha, hb])
  · simpa using (times_denotes I h).2 x [y] (by simp [ha, hb])

theorem bvNary2 (I : Interp) (o : BinOp) {a b t : Term} (h : bvNary o.op [a, b] = .ok t) :
    (Kind.bv o).Denotes I a b t := by
  intro w x y ha hb
  simpa using bvNary_eval I o h x [y] (by simp [ha, hb])

/-- every manager function of `mgrTable`, applied to two formulas, denotes its kind -/
theorem mgrTable_denotes (I : Interp) : ∀ e ∈ mgrTable, ∀ a b t : Term,
    call e.1 [.t a, .t b] = .ok t → e.2.Denotes I a b t := by
  intro e he a b t h
  simp only [mgrTable, List.mem_cons, List.not_mem_nil, or_false] at he
  rcases he with rfl | rfl | rfl | rfl | rfl | rfl | rfl | rfl | rfl | rfl | rfl | rfl | rfl | rfl | rfl |
    rfl | rfl | rfl | rfl | rfl | rfl | rfl | rfl | rfl | rfl | rfl | rfl | rfl | rfl | rfl | rfl | rfl |
    rfl | rfl | rfl | rfl | rfl | rfl | rfl | rfl | rfl | rfl
  · exact implies_truth I h
  · exact iff_truth I h
  · exact and2_truth I h
  · exact or2_truth I h
  · exact xor_truth I h
  · exact equals_truth I h
  · exact notEquals_truth I h
  · exact plus2_denotes I h
  · exact minus_denotes I h
  · exact times2_denotes I h
  · exact div_denotes I h
  · exact le_denotes I h
  · exact lt_denotes I h
  · exact ge_denotes I h
  · exact gt_denotes I h
  · exact bvNary2 I .and h
  · exact bvNary2 I .or h
  · exact fun w x y ha hb => bvBin_eval I .xor h x y ha hb
  · exact bvNary2 I .add h
  · exact fun w x y ha hb => bvBin_eval I .sub h x y ha hb
  · exact bvNary2 I .mul h
  · exact fun w x y ha hb => bvBin_eval I .udiv h x y ha hb
  · exact fun w x y ha hb => bvBin_eval I .urem h x y ha hb
  · exact fun w x y ha hb => bvBin_eval I .sdiv h x y ha hb
  · exact fun w x y ha hb => bvBin_eval I .srem h x y ha hb
  · exact fun w x y ha hb => bvNand_denotes I h x y ha hb
  · exact fun w x y ha hb => bvNor_denotes I h x y ha hb
  · exact fun w x y ha hb => bvXnor_denotes I h x y ha hb
  · exact fun w x y hw ha hb => by rw [bvsmod_std I h hw x y ha hb, smodStd_eq_smod]
  · exact fun w v x y ha hb => bvConcat_two I h x y ha hb
  · exact fun w x y ha hb => bvComp_denotes I h x y ha hb
  · exact fun w x y ha hb => shiftTerm_denotes I .shl h x y ha hb
  · exact fun w x y ha hb => shiftTerm_denotes I .lshr h x y ha hb
  · exact fun w x y ha hb => shiftTerm_denotes I .ashr h x y ha hb
  · exact fun w x y ha hb => bvult_eval I h x y ha hb
  · exact fun w x y ha hb => bvule_denotes I h x y ha hb
  · exact fun w x y ha hb => bvugt_denotes I h x y ha hb
  · exact fun w x y ha hb => bvuge_denotes I h x y ha hb
  · exact fun w x y ha hb => bvslt_eval I h x y ha hb
  · exact fun w x y ha hb => bvsle_denotes I h x y ha hb
  · exact fun w x y ha hb => bvsgt_denotes I h x y ha hb
  · exact fun w x y ha hb => bvsge_denotes I h x y ha hb

theorem mgr_denotes (I : Interp) {f : String} {k : Kind} (hk : mgrKind f = some k) {a b t : Term}
    (h : call f [.t a, .t b] = .ok t) : k.Denotes I a b t := by
  unfold mgrKind at hk
  cases hfind : mgrTable.find? (fun e => e.1 == f) with
  | none => rw [hfind] at hk; cases hk
  | some e =>
    rw [hfind] at hk
    simp only [Option.map_some, Option.some.injEq] at hk
    have hmem := List.mem_of_find?_eq_some hfind
    have hname : e.1 = f := by simpa using List.find?_some hfind
    subst hk
    exact mgrTable_denotes I e hmem a b t (by rw [hname]; exact h)

/-! ## what each Python method / operator is meant to be -/

/-- (operation on a non bit-vector receiver, operation on a bit-vector receiver); `none` =
the operator is not defined for that kind of receiver. The reflected operators `__radd__`,
`__rmul__`, `__rand__`, `__ror__`, `__rxor__` receive the operands swapped; their
operations are commutative, so the kinds are those of the direct operators. -/
def pyOp : String → Option (Option Kind × Option Kind)
  | "__add__" | "__radd__" => some (some .plus, some (.bv .add))
  | "__sub__" => some (some .minus, some (.bv .sub))
  | "__mul__" | "__rmul__" => some (some .times, some (.bv .mul))
  | "__div__" => some (some .div, some (.bv .udiv))
  | "__gt__" => some (some .gt, some .ugt)
  | "__ge__" => some (some .ge, some .uge)
  | "__lt__" => some (some .lt, some .ult)
  | "__le__" => some (some .le, some .ule)
  | "__and__" | "__rand__" => some (some .and, some (.bv .and))
  | "__or__" | "__ror__" => some (some .or, some (.bv .or))
  | "__xor__" | "__rxor__" => some (some .xor, some (.bv .xor))
  | "__lshift__" => some (none, some (.shift .shl))
  | "__rshift__" => some (none, some (.shift .lshr))
  | "__mod__" => some (none, some (.bv .urem))
  | "Implies" => some (some .implies, some .implies)
  | "Iff" => some (some .iff, some .iff)
  | "Equals" => some (some .eq, some .eq)
  | "NotEquals" => some (some .ne, some .ne)
  | "And" => some (some .and, some .and)
  | "Or" => some (some .or, some .or)
  | "BVAnd" => some (some (.bv .and), some (.bv .and))
  | "BVOr" => some (some (.bv .or), some (.bv .or))
  | "BVXor" => some (some (.bv .xor), some (.bv .xor))
  | "BVAdd" => some (some (.bv .add), some (.bv .add))
  | "BVSub" => some (some (.bv .sub), some (.bv .sub))
  | "BVMul" => some (some (.bv .mul), some (.bv .mul))
  | "BVUDiv" => some (some (.bv .udiv), some (.bv .udiv))
  | "BVURem" => some (some (.bv .urem), some (.bv .urem))
  | "BVSDiv" => some (some (.bv .sdiv), some (.bv .sdiv))
  | "BVSRem" => some (some (.bv .srem), some (.bv .srem))
  | "BVSMod" => some (some .smod, some .smod)
  | "BVNand" => some (some .nand, some .nand)
  | "BVNor" => some (some .nor, some .nor)
  | "BVXnor" => some (some .xnor, some .xnor)
  | "BVConcat" => some (some .concat, some .concat)
  | "BVComp" => some (some .comp, some .comp)
  | "BVLShl" => some (some (.shift .shl), some (.shift .shl))
  | "BVLShr" => some (some (.shift .lshr), some (.shift .lshr))
  | "BVAShr" => some (some (.shift .ashr), some (.shift .ashr))
  | "BVULT" => some (some .ult, some .ult)
  | "BVULE" => some (some .ule, some .ule)
  | "BVUGT" => some (some .ugt, some .ugt)
  | "BVUGE" => some (some .uge, some .uge)
  | "BVSLT" => some (some .slt, some .slt)
  | "BVSLE" => some (some .sle, some .sle)
  | "BVSGT" => some (some .sgt, some .sgt)
  | "BVSGE" => some (some .sge, some .sge)
  | _ => none

/-- the structured method bodies, as aligned with fnode.py -/
def alignedBodies : List (String × Method) :=
  [("Ite", ⟨["then_", "else_"], false,
      [.ite (.and (.isFNode (.var "then_")) (.isFNode (.var "else_")))
        [.ret (.mgr "Ite" [.self, .var "then_", .var "else_"])] [.raise .mode]]⟩),
   ("__rsub__", ⟨["left"], false,
      [.ite (.isBV .self)
        [.ite (.isPyInt (.var "left")) [.assign "left" (.mgr "BV" [.var "left", .bvWidth .self])] [],
         .assertFNode (.var "left"),
         .ret (.infix (.var "left") .self (some "BVSub") (some "BVSub"))] [],
       .assign "minus_self" (.neg .self),
       .ret (.infix (.var "minus_self") (.var "left") (some "Plus") (some "Plus"))]⟩),
   ("__truediv__", ⟨["right"], false, [.ret (.meth .self "__div__" [.var "right"])]⟩),
   ("__neg__", ⟨[], false,
      [.ite (.isBV .self) [.ret (.mgr "BVNeg" [.self])] [],
       .ret (.infix .self (.int (-1)) (some "Times") (some "Times"))]⟩),
   ("__invert__", ⟨[], false,
      [.ite (.isBV .self) [.ret (.mgr "BVNot" [.self])] [], .ret (.mgr "Not" [.self])]⟩),
   ("__getitem__", ⟨["idx"], false,
      [.ite (.isSlice (.var "idx"))
        [.assign "end" (.attr (.var "idx") "stop"), .assign "start" (.attr (.var "idx") "start"),
         .ite (.isNone (.var "start")) [.assign "start" (.int 0)] []]
        [.assign "end" (.var "idx"), .assign "start" (.var "idx")],
       .ite (.isBV .self) [.ret (.mgr "BVExtract" [.self, .var "start", .var "end"])] [],
       .raise .unsupported]⟩)]

/-- methods that hand their parameters, in order, to the manager function of the same name -/
def directNames : List String :=
  ["BVExtract", "BVRepeat", "BVRol", "BVRor", "BVSExt", "BVZExt", "Select", "Store"]

/-- the manager function `f` used on one side of the dispatch is of the prescribed kind
(no function ⇔ the operator is not defined on that side) -/
def okSide (f : Option String) (k : Option Kind) : Bool :=
  match f, k with
  | none, none => true
  | some fn, some k => mgrKind fn == some k
  | _, _ => false

/-- conformance of one entry of the regenerated table -/
def entryOK (e : String × Method) : Bool :=
  match e.2 with
  | ⟨[p], false, [.ret (.infix .self (.var q) f g)]⟩ =>
    p == q && (match pyOp e.1 with | some (kn, kb) => okSide f kn && okSide g kb | none => false)
  | ⟨[p], false, [.ret (.mgr F [.self, .var q])]⟩ => p == q && F == e.1 && directNames.contains F
  | ⟨[p1, p2], false, [.ret (.mgr F [.self, .var q1, .var q2])]⟩ =>
    p1 == q1 && p2 == q2 && p1 != p2 && F == e.1 && directNames.contains F
  | ⟨_, _, [.opaque h]⟩ => alignedHashes.contains (e.1, h)
  | m => alignedBodies.any (fun a => a.1 == e.1 && a.2.beq m)

/-- **conformance of the regenerated dispatch table** (finite check on `Gen.Infix.table`):
every entry is of one of the verified shapes, and no method name occurs twice -/
theorem table_ok : Gen.Infix.table.all entryOK = true ∧
    Gen.Infix.table.all (fun e => (Gen.Infix.table.lookup e.1).isSome &&
      ((Gen.Infix.table.lookup e.1).map (fun m => m.beq e.2) == some true)) = true := by
  constructor <;> decide

/-! ## the interpreter on the simple shapes -/

theorem lookup_mem {tbl : Table} {name : String} {m : Method} (h : tbl.lookup name = some m) :
    (name, m) ∈ tbl := by
  unfold Table.lookup at h
  cases hf : tbl.find? (fun e => e.1 == name) with
  | none => rw [hf] at h; cases h
  | some e =>
    rw [hf] at h
    simp only [Option.map_some, Option.some.injEq] at h
    have hmem := List.mem_of_find?_eq_some hf
    have hname : e.1 = name := by simpa using List.find?_some hf
    have : e = (name, m) := by cases e; simp_all
    rwa [this] at hmem

theorem run_binary (tbl : Table) (name p : String) (f g : Option String) (a : Term) (b : Arg)
    (hl : tbl.lookup name = some ⟨[p], false, [.ret (.infix .self (.var p) f g)]⟩) :
    Infix.run tbl name a [b] = applyInfix a b f g := by
  simp only [Infix.run, runMethod, fuel, hl, exec, evalE, Env.get, List.zip, List.zipWith,
    List.find?, beq_self_eq_true, argTerm, bind, Except.bind, List.length_cons, List.length_nil]
  simp
  cases applyInfix a b f g <;> rfl

theorem run_direct1 (tbl : Table) (name p F : String) (a : Term) (b : Arg)
    (hl : tbl.lookup name = some ⟨[p], false, [.ret (.mgr F [.self, .var p])]⟩) :
    Infix.run tbl name a [b] = call F [.t a, b] := by
  simp only [Infix.run, runMethod, fuel, hl, exec, evalE, evalEs, Env.get, List.zip, List.zipWith,
    List.find?, beq_self_eq_true, bind, Except.bind, List.length_cons, List.length_nil]
  simp
  cases call F [.t a, b] <;> rfl

theorem run_direct2 (tbl : Table) (name p1 p2 F : String) (hp : (p1 != p2) = true) (a : Term) (b c : Arg)
    (hl : tbl.lookup name = some ⟨[p1, p2], false, [.ret (.mgr F [.self, .var p1, .var p2])]⟩) :
    Infix.run tbl name a [b, c] = call F [.t a, b, c] := by
  have hne : (p1 == p2) = false := by simpa [bne] using hp
  simp only [Infix.run, runMethod, fuel, hl, exec, evalE, evalEs, Env.get, List.zip, List.zipWith,
    List.find?, beq_self_eq_true, hne, bind, Except.bind, List.length_cons, List.length_nil]
  simp
  cases call F [.t a, b, c] <;> rfl

/-! ## the table theorem -/

/-- **infix_table_denotes**: for every entry of the regenerated table that dispatches through
`_apply_infix` (all binary operators and named binary methods), the formula built on `(a, b)`
denotes the Python-named operation `pyOp name` — the non bit-vector operation when the
receiver is not a bit-vector, the bit-vector operation otherwise. -/
theorem infix_table_denotes (I : Interp) {name p : String} {f g : Option String}
    (hl : Gen.Infix.table.lookup name = some ⟨[p], false, [.ret (.infix .self (.var p) f g)]⟩)
    {a b t : Term} (h : Infix.run Gen.Infix.table name a [.t b] = .ok t) :
    ∃ kn kb τ, pyOp name = some (kn, kb) ∧ a.typeOf = some τ ∧
      (τ.isBv = true → ∃ k, kb = some k ∧ k.Denotes I a b t) ∧
      (τ.isBv = false → ∃ k, kn = some k ∧ k.Denotes I a b t) := by
  have hok := List.all_eq_true.mp table_ok.1 _ (lookup_mem hl)
  simp only [entryOK, beq_self_eq_true, Bool.true_and] at hok
  rw [run_binary _ _ _ _ _ _ _ hl] at h
  unfold applyInfix at h
  cases hp : pyOp name with
  | none => rw [hp] at hok; cases hok
  | some pr =>
    obtain ⟨kn, kb⟩ := pr
    rw [hp] at hok
    simp only [Bool.and_eq_true] at hok
    cases hτ : a.typeOf with
    | none => rw [hτ] at h; cases h
    | some τ =>
      rw [hτ] at h
      simp only [prepareArg, bind, Except.bind] at h
      refine ⟨kn, kb, τ, rfl, rfl, fun hbv => ?_, fun hbv => ?_⟩
      · rw [if_pos hbv] at h
        cases g with
        | none => cases h
        | some gn =>
          cases kb with
          | none => simp [okSide] at hok
          | some k =>
            have : mgrKind gn = some k := by simpa [okSide] using hok.2
            exact ⟨k, rfl, mgr_denotes I this h⟩
      · rw [if_neg (by simp [hbv])] at h
        cases f with
        | none => cases h
        | some fn =>
          cases kn with
          | none => simp [okSide] at hok
          | some k =>
            have : mgrKind fn = some k := by simpa [okSide] using hok.1
            exact ⟨k, rfl, mgr_denotes I this h⟩

/-- a Python literal as right operand is first turned into the constant of the receiver's
sort (`_infix_prepare_arg`); the call then is the call on that constant -/
theorem applyInfix_literal {a : Term} {τ : Ty} (hτ : a.typeOf = some τ) (lit : Arg) (c : Term)
    (hc : prepareArg lit τ = .ok c) (f g : Option String) :
    applyInfix a lit f g = applyInfix a (.t c) f g := by
  unfold applyInfix
  rw [hτ]
  have h2 : prepareArg (.t c) τ = .ok c := rfl
  simp only [bind, Except.bind, hc, h2]

theorem prepare_int (n : Int) : prepareArg (.i n) .int = .ok (Term.int n) := rfl
theorem prepare_real_int (n : Int) : prepareArg (.i n) .real = .ok (Term.real n) := rfl
theorem prepare_real (q : Rat) : prepareArg (.q q) .real = .ok (Term.real q) := rfl
theorem prepare_bool (v : Bool) : prepareArg (.b v) .bool = .ok (Term.bool v) := rfl
theorem prepare_bv (n : Int) (w : Nat) : prepareArg (.i n) (.bv w) = Mk.BV n w := rfl

end PySMT.C06
