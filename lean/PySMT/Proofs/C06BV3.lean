import PySMT.Proofs.C06BV2
/-!
# C06 — `BVRepeat` and `BVSMod` (every width)
-/
namespace PySMT.C06
open PySMT.Mk

theorem ofBV_eq_of {w v : Nat} (x : BitVec w) (y : BitVec v) (hw : w = v) (hn : x.toNat = y.toNat) :
    ofBV x = ofBV y := by
  subst hw; simp [ofBV, hn]

/-! ## BVRepeat -/

theorem replicate_step {w : Nat} (x : BitVec w) (j : Nat) :
    ofBV (BitVec.replicate j x ++ x) = ofBV (BitVec.replicate (j + 1) x) := by
  apply ofBV_eq_of
  · rw [Nat.mul_succ]
  · rw [BitVec.replicate_succ', BitVec.toNat_cast]

theorem replicate_one {w : Nat} (x : BitVec w) : ofBV x = ofBV (BitVec.replicate 1 x) := by
  apply ofBV_eq_of
  · simp
  · rw [BitVec.replicate_succ', BitVec.toNat_cast, BitVec.toNat_append]; simp

theorem repeatChain_eval (I : Interp) (f : Term) {w : Nat} (x : BitVec w) (hf : eval I f = ofBV x) :
    ∀ (n : Nat) (res t : Term) (j : Nat), repeatChain f res n = .ok t →
      eval I res = ofBV (BitVec.replicate j x) → eval I t = ofBV (BitVec.replicate (j + n) x)
  | 0, res, t, j, h, hr => by cases h; simpa using hr
  | n + 1, res, t, j, h, hr => by
    unfold repeatChain at h
    obtain ⟨r, hr', h⟩ := bind_ok h
    have := bvConcat_two I hr' _ x hr hf
    rw [replicate_step] at this
    have := repeatChain_eval I f x hf n r t (j + 1) h this
    rwa [Nat.add_assoc, Nat.add_comm 1 n] at this

/-- **BVRepeat**: `count ≥ 1` copies of the operand, concatenated -/
theorem repeat_denotes (I : Interp) {f t : Term} {k : Int} (h : Mk.BVRepeat f k = .ok t) {w : Nat}
    (x : BitVec w) (hf : eval I f = ofBV x) :
    1 ≤ k ∧ eval I t = ofBV (BitVec.replicate k.toNat x) := by
  unfold Mk.BVRepeat at h
  by_cases hk : k < 1
  · simp [hk] at h
  · simp only [hk, if_false] at h
    refine ⟨by omega, ?_⟩
    have := repeatChain_eval I f x hf (k - 1).toNat f t 1 h (by rw [hf]; exact replicate_one x)
    have hk' : 1 + (k - 1).toNat = k.toNat := by omega
    rwa [hk'] at this

/-- a count below one is refused (there is no bit-vector of width zero) -/
theorem repeat_error (f : Term) (k : Int) (hk : k < 1) : Mk.BVRepeat f k = .error .value := by
  simp [Mk.BVRepeat, hk]

/-! ## BVSMod -/

/-- `bvsmod` as SMT-LIB defines it (the abbreviation of the QF_BV logic, clause by clause) -/
def smodStd {w : Nat} (s t : BitVec w) : BitVec w :=
  let absS := if s.msb = false then s else -s
  let absT := if t.msb = false then t else -t
  let u := BitVec.umod absS absT
  if u = 0#w then u
  else if s.msb = false ∧ t.msb = false then u
  else if s.msb = true ∧ t.msb = false then -u + t
  else if s.msb = false ∧ t.msb = true then u + t
  else -u

/-- the SMT-LIB abbreviation is Lean core's `BitVec.smod` -/
theorem smodStd_eq_smod {w : Nat} (s t : BitVec w) : smodStd s t = BitVec.smod s t := by
  unfold smodStd BitVec.smod
  cases hs : s.msb <;> cases ht : t.msb <;>
    simp only [Bool.false_eq_true, if_false, if_true, and_self, and_false, and_true,
      BitVec.neg_eq, BitVec.add_eq, BitVec.sub_eq, BitVec.zero_eq, reduceCtorEq]
  all_goals (try split)
  all_goals (try rfl)
  · rw [BitVec.sub_eq_add_neg, BitVec.add_comm]
  · next h => rw [h]; simp

theorem extract_msb {w : Nat} (x : BitVec w) : x.extractLsb' (w - 1) 1 = BitVec.ofBool x.msb := by
  apply BitVec.eq_of_getLsbD_eq; intro i hi
  have : i = 0 := by omega
  subst this
  simp [BitVec.msb_eq_getLsbD_last]

/-- value of the one-bit slice `x[m-1:m-1]` -/
theorem msb_slice_eval (I : Interp) {s t : Term} {w : Nat} (hw : 0 < w)
    (h : Mk.BVExtract s ((w : Int) - 1) (some ((w : Int) - 1)) = .ok t) (x : BitVec w)
    (hs : eval I s = ofBV x) : eval I t = ofBV (BitVec.ofBool x.msb) := by
  have := (bvExtract_denotes I h x hs).2.2
  have h1 : ((w : Int) - 1).toNat = w - 1 := by omega
  rw [this, h1, Nat.sub_self, Nat.zero_add, extract_msb]

theorem eq_bit_eval (I : Interp) {a c t : Term} (h : Mk.Equals a c = .ok t) (b : Bool) (v : Nat)
    (ha : eval I a = ofBV (BitVec.ofBool b)) (hc : eval I c = .bv 1 v) :
    eval I t = .b (decide (b.toNat = v)) := by
  rw [equals_eval I h, ha, hc]
  cases b <;> simp [ofBV]

/-- **BVSMod**: the formula built by the constructor denotes SMT-LIB's `bvsmod` -/
theorem bvsmod_std (I : Interp) {s t r : Term} {w : Nat} (h : Mk.BVSMod s t = .ok r)
    (hw : bvWidth s = .ok w) (x y : BitVec w) (hs : eval I s = ofBV x) (ht : eval I t = ofBV y) :
    eval I r = ofBV (smodStd x y) := by
  unfold Mk.BVSMod at h
  rw [hw] at h
  simp only [bind, Except.bind] at h
  -- width 0: the slice `s[-1:-1]` is refused
  have hwpos : 0 < w := by
    rcases Nat.eq_zero_or_pos w with h0 | h0
    · subst h0
      simp [Mk.BV, Mk.BVExtract, bind, Except.bind, hw] at h
    · exact h0
  have hz1 : Mk.BV 0 1 = .ok (Term.bvc 0 1) := bv_ok (by decide) (by decide) (by decide)
  have ho1 : Mk.BV 1 1 = .ok (Term.bvc 1 1) := bv_ok (by decide) (by decide) (by decide)
  have hzm : Mk.BV 0 w = .ok (Term.bvc 0 w) := bvZero_denotes w hwpos
  rw [hz1, ho1] at h
  simp only at h
  generalize hmS : Mk.BVExtract s ((w : Int) - 1) (some ((w : Int) - 1)) = rS at h
  cases rS with
  | error e => cases h
  | ok msbS =>
  simp only at h
  generalize hmT : Mk.BVExtract t ((w : Int) - 1) (some ((w : Int) - 1)) = rT at h
  cases rT with
  | error e => cases h
  | ok msbT =>
  simp only at h
  have evS := msb_slice_eval I hwpos hmS x hs
  have hwt : ∃ w', bvWidth t = .ok w' := by
    obtain ⟨w', hw', _⟩ := bind_ok hmT
    exact ⟨w', hw'⟩
  -- the slice of `t` is taken at position `w - 1` whatever `bv_width(t)` is
  have evT : eval I msbT = ofBV (BitVec.ofBool y.msb) := by
    have := (bvExtract_denotes I hmT y ht).2.2
    have h1 : ((w : Int) - 1).toNat = w - 1 := by omega
    rw [this, h1, Nat.sub_self, Nat.zero_add, extract_msb]
  have ev0 : eval I (Term.bvc 0 1) = .bv 1 0 := eval_bvc I 0 1
  have ev1 : eval I (Term.bvc 1 1) = .bv 1 1 := eval_bvc I 1 1
  generalize h1 : Mk.Equals msbS (Term.bvc 0 1) = q1 at h
  cases q1 with
  | error e => cases h
  | ok sPos =>
  simp only at h
  generalize h2 : Mk.BVNeg s = q2 at h
  cases q2 with
  | error e => cases h
  | ok negS =>
  simp only at h
  generalize h3 : Mk.Ite sPos s negS = q3 at h
  cases q3 with
  | error e => cases h
  | ok absS =>
  simp only at h
  generalize h4 : Mk.Equals msbT (Term.bvc 0 1) = q4 at h
  cases q4 with
  | error e => cases h
  | ok tPos =>
  simp only at h
  generalize h5 : Mk.BVNeg t = q5 at h
  cases q5 with
  | error e => cases h
  | ok negT =>
  simp only at h
  generalize h6 : Mk.Ite tPos t negT = q6 at h
  cases q6 with
  | error e => cases h
  | ok absT =>
  simp only at h
  generalize h7 : Mk.BVURem absS absT = q7 at h
  cases q7 with
  | error e => cases h
  | ok u =>
  rw [hzm] at h
  simp only at h
  generalize h8 : Mk.Equals u (Term.bvc 0 w) = q8 at h
  cases q8 with
  | error e => cases h
  | ok cond1 =>
  simp only at h
  generalize h9 : Mk.And [sPos, tPos] = q9 at h
  cases q9 with
  | error e => cases h
  | ok cond2 =>
  simp only at h
  generalize h10 : Mk.Equals msbS (Term.bvc 1 1) = q10 at h
  cases q10 with
  | error e => cases h
  | ok c3a =>
  simp only at h
  generalize h11 : Mk.And [c3a, tPos] = q11 at h
  cases q11 with
  | error e => cases h
  | ok cond3 =>
  simp only at h
  generalize h12 : Mk.Equals msbT (Term.bvc 1 1) = q12 at h
  cases q12 with
  | error e => cases h
  | ok c4b =>
  simp only at h
  generalize h13 : Mk.And [sPos, c4b] = q13 at h
  cases q13 with
  | error e => cases h
  | ok cond4 =>
  simp only at h
  generalize h14 : Mk.BVNeg u = q14 at h
  cases q14 with
  | error e => cases h
  | ok negU =>
  simp only at h
  generalize h15 : Mk.BVAdd [negU, t] = q15 at h
  cases q15 with
  | error e => cases h
  | ok case3 =>
  simp only at h
  generalize h16 : Mk.BVAdd [u, t] = q16 at h
  cases q16 with
  | error e => cases h
  | ok case4 =>
  simp only at h
  generalize h17 : Mk.Or [cond1, cond2] = q17 at h
  cases q17 with
  | error e => cases h
  | ok c12 =>
  simp only at h
  generalize h18 : Mk.Ite cond4 case4 negU = q18 at h
  cases q18 with
  | error e => cases h
  | ok inner =>
  simp only at h
  generalize h19 : Mk.Ite cond3 case3 inner = q19 at h
  cases q19 with
  | error e => cases h
  | ok mid =>
  simp only at h
  -- values of the pieces
  have e1 : eval I sPos = .b (!x.msb) := by
    rw [eq_bit_eval I h1 x.msb 0 evS ev0]; cases x.msb <;> rfl
  have e4 : eval I tPos = .b (!y.msb) := by
    rw [eq_bit_eval I h4 y.msb 0 evT ev0]; cases y.msb <;> rfl
  have e10 : eval I c3a = .b x.msb := by
    rw [eq_bit_eval I h10 x.msb 1 evS ev1]; cases x.msb <;> rfl
  have e12 : eval I c4b = .b y.msb := by
    rw [eq_bit_eval I h12 y.msb 1 evT ev1]; cases y.msb <;> rfl
  have e2 := bvNeg_denotes I h2 x hs
  have e5 := bvNeg_denotes I h5 y ht
  have e3 : eval I absS = ofBV (if x.msb = false then x else -x) := by
    rw [ite_eval I h3]; simp only [truth, e1, isTrue_b, hs, e2]
    cases x.msb <;> simp
  have e6 : eval I absT = ofBV (if y.msb = false then y else -y) := by
    rw [ite_eval I h6]; simp only [truth, e4, isTrue_b, ht, e5]
    cases y.msb <;> simp
  have e7 := bvBin_eval I .urem h7 _ _ e3 e6
  simp only [BinOp.fn] at e7
  generalize hu : BitVec.umod (if x.msb = false then x else -x) (if y.msb = false then y else -y) = uu at e7
  have e8 : eval I cond1 = .b (decide (uu = 0#w)) := by
    rw [equals_eval I h8, e7, eval_bvc]
    have : (Val.bv w 0) = ofBV (0#w) := by simp [ofBV]
    rw [this]
    by_cases hz : uu = 0#w
    · simp [hz]
    · simp [hz, ofBV_inj]
  have t9 : truth I cond2 = (!x.msb && !y.msb) := by
    rw [and_truth I h9]; simp [truth, e1, e4]
  have t11 : truth I cond3 = (x.msb && !y.msb) := by
    rw [and_truth I h11]; simp [truth, e10, e4]
  have t13 : truth I cond4 = (!x.msb && y.msb) := by
    rw [and_truth I h13]; simp [truth, e1, e12]
  have e14 := bvNeg_denotes I h14 uu e7
  have e15 := bvNary_eval I .add h15 (-uu) [y] (by simp [e14, ht])
  have e16 := bvNary_eval I .add h16 uu [y] (by simp [e7, ht])
  simp only [BinOp.fn, List.foldl] at e15 e16
  have t17 : truth I c12 = (decide (uu = 0#w) || (!x.msb && !y.msb)) := by
    rw [or_truth I h17]; simp only [List.any_cons, List.any_nil, Bool.or_false, t9]; simp [truth, e8]
  rw [ite_eval I h, t17, ite_eval I h19, t11, ite_eval I h18, t13, e7, e15, e16, e14]
  unfold smodStd
  simp only [hu]
  by_cases hz : uu = 0#w
  · simp [hz]
  · cases hx : x.msb <;> cases hy : y.msb <;> simp [hz]

end PySMT.C06
