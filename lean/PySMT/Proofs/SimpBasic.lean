import PySMT.Impl.WF
import PySMT.Impl.Simp.Rules
import PySMT.Proofs.Coincidence
/-!
# Lemmas every rule family needs

* `div0` of a node (`div0_plain`, `div0_div`, `div0_quant`), `div0_args_false`
* congruence of `eval`/`div0` in the arguments *under the proviso* (`node_congr`) — the step
  of the assembling induction
* monotonicity of `fv` in the arguments (`fv_node_mono`)
* destructuring of `wf` nodes (`wf_args`, `wf_shape`, `wf_tyNode`, `wf_typeOf_isSome`)
-/
namespace PySMT

/-! ## well-formed nodes -/

theorem wf_args {op args p} (h : (Term.node op args p).wf = true) : ∀ a ∈ args, a.wf = true :=
  (Term.wf_node.mp h).1
theorem wf_shape {op args p} (h : (Term.node op args p).wf = true) : op.shapeOK p args.length = true :=
  (Term.wf_node.mp h).2.1
theorem wf_tyNode {op args p} (h : (Term.node op args p).wf = true) :
    (typeOfNode op p (args.map Term.typeOf)).isSome = true :=
  (Term.wf_node.mp h).2.2

theorem wf_typeOf_isSome : (t : Term) → t.wf = true → t.typeOf.isSome = true
  | .node op args p => fun h => by rw [typeOf_node]; exact wf_tyNode h

theorem wf_typeOf (t : Term) (h : t.wf = true) : ∃ τ, t.typeOf = some τ :=
  Option.isSome_iff_exists.mp (wf_typeOf_isSome t h)

theorem wf_mk {op args p} (h1 : ∀ a ∈ args, a.wf = true) (h2 : op.shapeOK p args.length = true)
    (h3 : (typeOfNode op p (args.map Term.typeOf)).isSome = true) : (Term.node op args p).wf = true :=
  Term.wf_node.mpr ⟨h1, h2, h3⟩

/-- a node of known type is well-formed as soon as its arguments are and its shape is admissible -/
theorem wf_mk' {op args p τ} (h1 : ∀ a ∈ args, a.wf = true) (h2 : op.shapeOK p args.length = true)
    (h3 : (Term.node op args p).typeOf = some τ) : (Term.node op args p).wf = true := by
  refine wf_mk h1 h2 ?_
  rw [typeOf_node] at h3
  simp [h3]

/-! ## `div0` of a node -/

theorem div0_quant (I : Interp) (op : Op) (hq : op.isQuantifier = true) (vs : List Sym) (b : Term) :
    div0 I (.node op [b] (.qvars vs)) = I.quant false vs (fun J => div0 J b) := by
  rw [div0_node]
  cases op <;> simp [Op.isQuantifier] at hq <;> rfl

theorem div0_div (I : Interp) (a b : Term) (p : Payload) :
    div0 I (.node .div [a, b] p) =
      (div0 I a || div0 I b || (eval I b == .i 0) || (eval I b == .r 0)) := by
  rw [div0_node]; rfl

theorem div0_plain (I : Interp) (op : Op) (args : List Term) (p : Payload)
    (hq : op.isQuantifier = false) (hd : op ≠ .div) :
    div0 I (.node op args p) = args.any (fun a => div0 I a) := by
  rw [div0_node]
  unfold div0Node
  split
  · simp [Op.isQuantifier] at hq
  · simp [Op.isQuantifier] at hq
  · exact absurd rfl hd
  · simp [List.any_map]; rfl

/-- no division by zero in a non-quantifier node ⇒ none in its arguments -/
theorem div0_args_false (I : Interp) (op : Op) (args : List Term) (p : Payload)
    (hq : op.isQuantifier = false) (h : div0 I (.node op args p) = false) :
    ∀ a ∈ args, div0 I a = false := by
  by_cases hd : op = .div
  · subst hd
    match args, h with
    | [a, b], h =>
      rw [div0_div] at h
      simp only [Bool.or_eq_false_iff] at h
      intro x hx
      simp only [List.mem_cons, List.not_mem_nil, or_false] at hx
      rcases hx with rfl | rfl
      · exact h.1.1.1
      · exact h.1.1.2
    | [], _ => intro a ha; cases ha
    | [_], h =>
      rw [div0_node] at h
      simpa [div0Node] using h
    | _ :: _ :: _ :: _, h =>
      rw [div0_node] at h
      simp only [div0Node, List.map_cons, List.any_cons, List.any_map, Bool.or_eq_false_iff] at h
      intro x hx
      simp only [List.mem_cons] at hx
      rcases hx with rfl | rfl | rfl | hx
      · exact h.1
      · exact h.2.1
      · exact h.2.2.1
      · have := h.2.2.2
        simp only [List.any_eq_false] at this
        simpa using this x hx
  · rw [div0_plain I op args p hq hd] at h
    simp only [List.any_eq_false] at h
    intro a ha
    simpa using h a ha

/-! ## quantifier evaluation under the proviso -/

theorem all_congr_mem {α} {l : List α} {p q : α → Bool} (h : ∀ a ∈ l, p a = q a) : l.all p = l.all q := by
  induction l with
  | nil => rfl
  | cons x xs ih =>
    simp only [List.all_cons]
    rw [h x (by simp), ih (fun a ha => h a (by simp [ha]))]

theorem any_congr_mem {α} {l : List α} {p q : α → Bool} (h : ∀ a ∈ l, p a = q a) : l.any p = l.any q := by
  induction l with
  | nil => rfl
  | cons x xs ih =>
    simp only [List.any_cons]
    rw [h x (by simp), ih (fun a ha => h a (by simp [ha]))]

/-- two bodies that agree wherever the proviso holds give the same quantifier value when the
proviso holds under every instantiation of the bound variables -/
theorem quant_congr_guard (all : Bool) (d k k' : Interp → Bool) :
    ∀ (vs : List Sym) (I : Interp), I.WF → I.quant false vs d = false →
      (∀ J : Interp, J.WF → d J = false → k J = k' J) → I.quant all vs k = I.quant all vs k'
  | [], I, hI, hd, h => by
    simp only [Interp.quant] at hd ⊢
    exact h I hI hd
  | x :: xs, I, hI, hd, h => by
    simp only [Interp.quant, Bool.false_eq_true, if_false, List.any_eq_false] at hd
    have step : ∀ v ∈ I.dom x.ret, (I.bind x v).quant all xs k = (I.bind x v).quant all xs k' := by
      intro v hv
      apply quant_congr_guard all d k k' xs (I.bind x v) (hI.bind x v (hI.dom_sort _ v hv)) _ h
      simpa using hd v hv
    simp only [Interp.quant]
    split
    · exact all_congr_mem step
    · exact any_congr_mem step

/-- the step of the assembling induction: replacing the arguments by terms that have the same
value (and still evaluate no division by zero) wherever the proviso holds keeps the value and the
proviso of a well-formed node -/
theorem node_congr (op : Op) (args : List Term) (p : Payload) (f : Term → Term)
    (hwf : (Term.node op args p).wf = true)
    (h : ∀ a ∈ args, ∀ J : Interp, J.WF → div0 J a = false →
      eval J (f a) = eval J a ∧ div0 J (f a) = false)
    (I : Interp) (hI : I.WF) (hd : div0 I (.node op args p) = false) :
    eval I (.node op (args.map f) p) = eval I (.node op args p) ∧
      div0 I (.node op (args.map f) p) = false := by
  by_cases hq : op.isQuantifier = true
  · -- quantifier: by `wf` the payload is `.qvars vs` and there is one argument
    have hs := wf_shape hwf
    have hshape : ∃ vs b, p = .qvars vs ∧ args = [b] := by
      cases op <;> simp [Op.isQuantifier] at hq <;>
        (cases p <;> simp [Op.shapeOK] at hs
         match args, hs with
         | [b], _ => exact ⟨_, b, rfl, rfl⟩)
    obtain ⟨vs, b, rfl, rfl⟩ := hshape
    rw [div0_quant I op hq] at hd
    have hb := h b (by simp)
    constructor
    · cases op <;> simp [Op.isQuantifier] at hq
      · simp only [List.map_cons, List.map_nil, eval_forall]
        congr 1
        exact quant_congr_guard true _ _ _ vs I hI hd (fun J hJ hdJ => by rw [(hb J hJ hdJ).1])
      · simp only [List.map_cons, List.map_nil, eval_exists]
        congr 1
        exact quant_congr_guard false _ _ _ vs I hI hd (fun J hJ hdJ => by rw [(hb J hJ hdJ).1])
    · simp only [List.map_cons, List.map_nil]
      rw [div0_quant I op hq]
      rw [quant_congr_guard false (fun J => div0 J b) (fun J => div0 J (f b)) (fun J => div0 J b) vs I hI hd
        (fun J hJ hdJ => by rw [(hb J hJ hdJ).2, hdJ])]
      exact hd
  · have hq : op.isQuantifier = false := by simpa using hq
    have hargs := div0_args_false I op args p hq hd
    have hev : (args.map f).map (eval I) = args.map (eval I) := by
      rw [List.map_map]
      exact List.map_congr_left (fun a ha => (h a ha I hI (hargs a ha)).1)
    have hdv : (args.map f).map (div0 I) = args.map (div0 I) := by
      rw [List.map_map]
      apply List.map_congr_left
      intro a ha
      simp only [Function.comp]
      rw [(h a ha I hI (hargs a ha)).2, hargs a ha]
    constructor
    · by_cases hsym : op = .symbol
      · subst hsym
        rw [eval_node, eval_node, evalNode_symbol, evalNode_symbol]
      · by_cases hfn : op = .function
        · subst hfn
          rw [eval_node, eval_node, evalNode_function, evalNode_function]
          cases p <;> try rfl
          simp only [List.map_map]
          congr 1
          simpa [List.map_map] using hev
        · rw [eval_plain I op _ p hsym hfn hq, eval_plain I op _ p hsym hfn hq, hev]
    · by_cases hdiv : op = .div
      · subst hdiv
        have hs := wf_shape hwf
        simp only [Op.shapeOK, beq_iff_eq] at hs
        match args, hs, hd, hev, hdv with
        | [a, b], _, hd, hev, hdv =>
          simp only [List.map_cons, List.map_nil, List.cons.injEq, and_true] at hev hdv
          rw [div0_div] at hd
          simp only [List.map_cons, List.map_nil]
          rw [div0_div, hev.2, hdv.1, hdv.2]
          exact hd
      · rw [div0_plain I op _ p hq hdiv]
        rw [div0_plain I op _ p hq hdiv] at hd
        have e : ∀ l : List Term, l.any (fun a => div0 I a) = (l.map (div0 I)).any id := by
          intro l; simp [List.any_map]
        rw [e, hdv, ← e]; exact hd

/-! ## free symbols are monotone in the arguments -/

theorem fv_node_mono (op : Op) (args : List Term) (p : Payload) (f : Term → Term)
    (h : ∀ a ∈ args, ∀ s ∈ (f a).fv, s ∈ a.fv) :
    ∀ s ∈ (Term.node op (args.map f) p).fv, s ∈ (Term.node op args p).fv := by
  have hsub : ∀ s ∈ ((args.map f).map Term.fv).flatten, s ∈ (args.map Term.fv).flatten := by
    intro s hs
    simp only [List.mem_flatten, List.mem_map] at hs ⊢
    obtain ⟨l, ⟨a', ⟨a, ha, rfl⟩, rfl⟩, hs⟩ := hs
    exact ⟨a.fv, ⟨a, ha, rfl⟩, h a ha s hs⟩
  intro s hs
  rw [fv_node] at hs ⊢
  split at hs
  · exact hs
  · rcases List.mem_cons.mp hs with rfl | hs
    · exact List.mem_cons_self
    · exact List.mem_cons_of_mem _ (hsub s hs)
  · rw [List.mem_filter] at hs ⊢; exact ⟨hsub s hs.1, hs.2⟩
  · rw [List.mem_filter] at hs ⊢; exact ⟨hsub s hs.1, hs.2⟩
  · exact hsub s hs

end PySMT
