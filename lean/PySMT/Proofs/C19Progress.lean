import PySMT.Proofs.C19Query
/-!
# C19 — progress: no deadlock, termination of every schedule, inevitability
-/
set_option linter.unusedVariables false
namespace PySMT.Portfolio
variable (cfg : Cfg)

/-! ### the measure decreases on every internal step -/

theorem sum_map_set {α} (f : α → Nat) : ∀ (l : List α) (i : Nat) (a b : α), l[i]? = some a →
    ((l.set i b).map f).sum + f a = (l.map f).sum + f b
  | [], i, a, b, h => by simp at h
  | x :: l, 0, a, b, h => by simp at h; subst h; simp; omega
  | x :: l, i + 1, a, b, h => by
    simp at h
    have := sum_map_set f l i a b h
    simp only [List.set_cons_succ, List.map_cons, List.sum_cons]; omega

theorem sum_map_modify_le {α} (f : α → Nat) (g : α → α) (hg : ∀ a, f (g a) ≤ f a) : ∀ (l : List α) (i : Nat),
    ((l.modify i g).map f).sum ≤ (l.map f).sum
  | [], i => by simp
  | x :: l, 0 => by
    have := hg x
    simp only [List.modify_zero_cons, List.map_cons, List.sum_cons]; omega
  | x :: l, i + 1 => by
    have := sum_map_modify_le f g hg l i
    simp only [List.modify_succ_cons, List.map_cons, List.sum_cons]; omega

theorem mweight_kill (os : OS) (m : MSt) : mweight (kill os m) ≤ mweight m := by
  cases m <;> cases h : os.killAtomic <;> simp [mweight, kill, h]

theorem mweight_afterSolve (i : Nat) (b : Beh) : mweight (afterSolve i b) + 2 ≤ mweight .solving := by
  cases b <;> simp [mweight, afterSolve]

theorem mweight_afterFlush (m : Msg) : mweight (afterFlush m) ≤ 1 := by
  cases m <;> simp [mweight, afterFlush]

theorem imeasure_decreases (s t : State) (h : IStep cfg s t) : imeasure t < imeasure s := by
  cases h with
  | finish i hm =>
    have h1 := sum_map_set mweight s.ms i _ (afterSolve i (cfg.beh s.cycle i)) hm
    have h2 := mweight_afterSolve i (cfg.beh s.cycle i)
    simp only [imeasure, List.length_set]; omega
  | flush i m hm =>
    have h1 := sum_map_set mweight s.ms i _ (afterFlush m) hm
    have h2 := mweight_afterFlush m
    simp only [imeasure, List.length_set, List.length_append, List.length_cons, List.length_nil, mweight] at *
    omega
  | recvExit i cs hm hc =>
    have h1 := sum_map_set mweight s.ms i _ .exited hm
    simp only [imeasure, List.length_set, hc, List.length_cons, mweight] at *; omega
  | recvQuery i q cs hm hc =>
    simp only [imeasure, hc, List.length_cons]; omega
  | serveCrash i _ hm =>
    have h1 := sum_map_set mweight s.ms i _ .crashed hm
    simp only [imeasure, List.length_set, mweight] at *; omega
  | recvEOF v w q hp hr hd =>
    simp only [imeasure, hp, pweight, List.length_nil]; omega
  | lateRecv i c cs _ hm hc =>
    have h1 := sum_map_set mweight s.ms i _ .killed hm
    simp only [imeasure, List.length_set, hc, List.length_cons, mweight] at *; omega
  | getAns i v q hp hq =>
    simp only [imeasure, hq, hp, List.length_cons, pweight]; omega
  | getExnSkip i e q hp he hq =>
    simp only [imeasure, hq, List.length_cons]; omega
  | getExnExit i e q hp he hq =>
    simp only [imeasure, hq, hp, List.length_cons, pweight]; omega
  | allDead hp hq hd =>
    simp only [imeasure, hp, pweight]; omega
  | killLoser v w k hp hk =>
    have h1 := sum_map_modify_le mweight (kill cfg.os) (mweight_kill cfg.os) s.ms k
    simp only [imeasure, hp, pweight]
    split
    · omega
    · simp only [List.length_modify]; omega
  | killLosersDone v w k hp hk =>
    simp only [imeasure, hp, pweight]; omega
  | killAllStep e k hp hk =>
    have h1 := sum_map_modify_le mweight (kill cfg.os) (mweight_kill cfg.os) s.ms k
    simp only [imeasure, hp, pweight, List.length_modify]; omega
  | killAllDone e k hp hk =>
    simp only [imeasure, hp, pweight]; omega
  | recvReply v w q j q' r hp hr =>
    simp only [imeasure, hp, pweight]; omega

/-! ### no deadlock -/

/-- While the parent is inside `solve()` some step is enabled: the call cannot block for ever. -/
theorem progress_solve (s : State) (hi : Inv cfg s) (hs : inSolve s.p = true) : ∃ t, IStep cfg s t := by
  cases hp : s.p with
  | waiting =>
    cases hq : s.queue with
    | cons m q =>
      cases m with
      | ans i v => exact ⟨_, IStep.getAns s i v q hp hq⟩
      | exn i e =>
        cases he : cfg.eoe with
        | false => exact ⟨_, IStep.getExnSkip s i e q hp he hq⟩
        | true => exact ⟨_, IStep.getExnExit s i e q hp he hq⟩
    | nil =>
      by_cases hd : ∃ m, m ∈ s.ms ∧ alive m = true
      case neg =>
        refine ⟨_, IStep.allDead s hp hq ?_⟩
        intro m hm
        cases ha : alive m with
        | false => rfl
        | true => exact (hd ⟨m, hm, ha⟩).elim
      case pos =>
        obtain ⟨m, hm, ha⟩ := hd
        obtain ⟨i, hi'⟩ := List.mem_iff_getElem?.mp hm
        cases m with
        | solving => exact ⟨_, IStep.finish s i hi'⟩
        | putting m' => exact ⟨_, IStep.flush s i m' hi'⟩
        | serving =>
          obtain ⟨v, hv⟩ := hi.wQueued hp i hi'
          rw [hq] at hv; simp at hv
        | exited => simp [alive] at ha
        | crashed => simp [alive] at ha
        | dying => simp [alive] at ha
        | killed => simp [alive] at ha
  | killLosers v w k =>
    by_cases hk : k < s.ms.length
    · exact ⟨_, IStep.killLoser s v w k hp hk⟩
    · exact ⟨_, IStep.killLosersDone s v w k hp (by omega)⟩
  | killAll e k =>
    by_cases hk : k < s.ms.length
    · exact ⟨_, IStep.killAllStep s e k hp hk⟩
    · exact ⟨_, IStep.killAllDone s e k hp (by omega)⟩
  | ready => rw [hp] at hs; simp [inSolve] at hs
  | returned v w => rw [hp] at hs; simp [inSolve] at hs
  | raised e => rw [hp] at hs; simp [inSolve] at hs
  | awaiting v w q => rw [hp] at hs; simp [inSolve] at hs

/-- With A1, `get_model / get_value` cannot block either. -/
theorem progress_query (s : State) (hq : QInv s) (v : Bool) (w q : Nat) (hp : s.p = .awaiting v w q) :
    ∃ t, IStep cfg s t := by
  obtain ⟨h1, _, _, h4⟩ := hq.await v w q hp
  rename_i hd _
  rcases h4 with ⟨hc, hr⟩ | ⟨_, hr⟩
  · rcases h1 with h1 | h1
    · exact ⟨_, IStep.recvQuery s w q [] h1 hc⟩
    · -- the winner has died: the parent's `recv` ends with EOFError
      refine ⟨_, IStep.recvEOF s v w q hp hr ?_⟩
      intro m hm
      obtain ⟨j, hj⟩ := List.mem_iff_getElem?.mp hm
      by_cases hjw : j = w
      · subst hjw; rw [h1] at hj; simp at hj; subst hj; rfl
      · exact hd j hjw m hj
  · exact ⟨_, IStep.recvReply s v w q w q [] hp hr⟩

/-! ### inevitability -/

/-- `Inev P s`: on every path of internal steps from `s` a state satisfying `P` is reached
    (the path cannot stop earlier and cannot go on for ever). -/
inductive Inev (P : State → Prop) : State → Prop
  | now (s : State) : P s → Inev P s
  | later (s : State) : (∃ t, IStep cfg s t) → (∀ t, IStep cfg s t → Inev P t) → Inev P s

/-- If `Q` is closed under internal steps and every `Q`-state that is not yet in `P` can move, then from
    every `Q`-state every schedule reaches `Q ∧ P`. -/
theorem inev_of_progress (Q P : State → Prop)
    (hclosed : ∀ s t, Q s → ¬ P s → IStep cfg s t → Q t)
    (hprog : ∀ s, Q s → ¬ P s → ∃ t, IStep cfg s t) :
    ∀ s, Q s → Inev cfg (fun t => Q t ∧ P t) s := by
  intro s
  generalize hn : imeasure s = n
  induction n using Nat.strongRecOn generalizing s with
  | ind n ih =>
    intro hQ
    by_cases hP : P s
    · exact Inev.now s ⟨hQ, hP⟩
    · refine Inev.later s (hprog s hQ hP) ?_
      intro t hst
      have := imeasure_decreases cfg s t hst
      exact ih (imeasure t) (by omega) t rfl (hclosed s t hQ hP hst)

theorem inev_mono (P P' : State → Prop) (h : ∀ s, P s → P' s) (s : State) (hi : Inev cfg P s) : Inev cfg P' s := by
  induction hi with
  | now s hp => exact Inev.now s (h s hp)
  | later s hex _ ih => exact Inev.later s hex ih

end PySMT.Portfolio
