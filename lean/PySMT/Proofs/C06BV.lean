import PySMT.Proofs.C06MinMax
/-!
# C06 — bit-vector constructors, for every width: primitive unary/binary operators,
n-ary `BVAnd/BVOr/BVAdd/BVMul/BVConcat` (left-associated folds), `BVUGT/BVUGE/BVSGT/BVSGE`,
`BVNand/BVNor/BVXnor`, shifts / rotations / extensions / extraction with Python integers.

Bit-vector values are `ofBV x` for `x : BitVec w`; every statement is about Lean core's
`BitVec` operations (the reference semantics of `Core/Eval.lean`). No `bv_decide`, no
enumeration: the proofs are width-generic.
-/
namespace PySMT.C06
open PySMT.Mk

/-! ## unary and binary primitives -/

theorem bvUn_shape {op : Op} {a t : Term} (h : bvUn op a = .ok t) :
    ∃ w, bvWidth a = .ok w ∧ t = .node op [a] (.ints [w]) := by
  obtain ⟨w, hw, h⟩ := bind_ok h
  exact ⟨w, hw, create_ok h⟩

theorem bvBin_shape {op : Op} {a b t : Term} (h : bvBin op a b = .ok t) :
    ∃ w, bvWidth a = .ok w ∧ t = .node op [a, b] (.ints [w]) := by
  obtain ⟨w, hw, h⟩ := bind_ok h
  exact ⟨w, hw, create_ok h⟩

/-- the binary bit-vector operators whose node carries only the width, with their meaning -/
inductive BinOp | and | or | xor | add | sub | mul | udiv | urem | sdiv | srem
  deriving DecidableEq, Repr

def BinOp.op : BinOp → Op
  | .and => .bvAnd | .or => .bvOr | .xor => .bvXor | .add => .bvAdd | .sub => .bvSub | .mul => .bvMul
  | .udiv => .bvUdiv | .urem => .bvUrem | .sdiv => .bvSdiv | .srem => .bvSrem

/-- the named function (Lean core `BitVec`; division by zero as in SMT-LIB) -/
def BinOp.fn : BinOp → {w : Nat} → BitVec w → BitVec w → BitVec w
  | .and => fun x y => x &&& y | .or => fun x y => x ||| y | .xor => fun x y => x ^^^ y
  | .add => fun x y => x + y | .sub => fun x y => x - y | .mul => fun x y => x * y
  | .udiv => fun x y => BitVec.smtUDiv x y | .urem => fun x y => BitVec.umod x y
  | .sdiv => fun x y => BitVec.smtSDiv x y | .srem => fun x y => BitVec.srem x y

theorem binOp_node_eval (I : Interp) (o : BinOp) (a b : Term) (p : Payload) {w : Nat} (x y : BitVec w)
    (ha : eval I a = ofBV x) (hb : eval I b = ofBV y) :
    eval I (.node o.op [a, b] p) = ofBV (o.fn x y) := by
  cases o <;> simp [BinOp.op, BinOp.fn, eval_op, evalOp, ha, hb]

theorem bvBin_eval (I : Interp) (o : BinOp) {a b t : Term} (h : bvBin o.op a b = .ok t) {w : Nat}
    (x y : BitVec w) (ha : eval I a = ofBV x) (hb : eval I b = ofBV y) :
    eval I t = ofBV (o.fn x y) := by
  obtain ⟨_, _, rfl⟩ := bvBin_shape h
  exact binOp_node_eval I o a b _ x y ha hb

theorem bvNot_denotes (I : Interp) {a t : Term} (h : Mk.BVNot a = .ok t) {w : Nat} (x : BitVec w)
    (ha : eval I a = ofBV x) : eval I t = ofBV (~~~x) := by
  obtain ⟨_, _, rfl⟩ := bvUn_shape h
  simp [eval_op, evalOp, ha]

theorem bvNeg_denotes (I : Interp) {a t : Term} (h : Mk.BVNeg a = .ok t) {w : Nat} (x : BitVec w)
    (ha : eval I a = ofBV x) : eval I t = ofBV (-x) := by
  obtain ⟨_, _, rfl⟩ := bvUn_shape h
  simp [eval_op, evalOp, ha]

/-! ## n-ary forms: left-associated folds -/

theorem bvChain_eval (I : Interp) (o : BinOp) {w : Nat} : ∀ (rest : List Term) (res t : Term)
    (x : BitVec w) (xs : List (BitVec w)), bvChain o.op res rest = .ok t →
    eval I res = ofBV x → rest.map (eval I) = xs.map ofBV → eval I t = ofBV (xs.foldl o.fn x)
  | [], res, t, x, xs, h, hr, hv => by
    cases h
    cases xs with
    | nil => simpa using hr
    | cons _ _ => simp at hv
  | a :: rest, res, t, x, xs, h, hr, hv => by
    unfold bvChain at h
    obtain ⟨r, hr', h⟩ := bind_ok h
    cases xs with
    | nil => simp at hv
    | cons y ys =>
      simp only [List.map_cons, List.cons.injEq] at hv
      have := bvBin_eval I o hr' x y hr hv.1
      simpa using bvChain_eval I o rest r t (o.fn x y) ys h this hv.2

/-- **n-ary BVAnd / BVOr / BVAdd / BVMul** (arity ≥ 1): the left fold of the binary operation
over the argument values; arity 0 is a value error -/
theorem bvNary_eval (I : Interp) (o : BinOp) {as : List Term} {t : Term} (h : bvNary o.op as = .ok t)
    {w : Nat} (x : BitVec w) (xs : List (BitVec w)) (hv : as.map (eval I) = (x :: xs).map ofBV) :
    eval I t = ofBV (xs.foldl o.fn x) := by
  unfold bvNary at h
  cases as with
  | nil => cases h
  | cons a rest =>
    simp only [List.map_cons, List.cons.injEq] at hv
    exact bvChain_eval I o rest a t x xs h hv.1 hv.2

theorem bvNary_empty (op : Op) : bvNary op [] = .error .value := rfl

/-- concatenation of two values (`Sem.bvConcat`) on typed values -/
theorem bvConcat_ofBV {w v : Nat} (x : BitVec w) (y : BitVec v) :
    Sem.bvConcat (ofBV x) (ofBV y) = ofBV (x ++ y) := by
  simp [Sem.bvConcat, ofBV]

theorem concat2_eval (I : Interp) {a b t : Term} (h : concat2 a b = .ok t) :
    eval I t = Sem.bvConcat (eval I a) (eval I b) := by
  obtain ⟨wl, _, h⟩ := bind_ok h
  obtain ⟨wr, _, h⟩ := bind_ok h
  rw [create_ok h]; simp [eval_op, evalOp]

theorem concatChain_eval (I : Interp) : ∀ (rest : List Term) (base t : Term),
    concatChain base rest = .ok t →
    eval I t = (rest.map (eval I)).foldl Sem.bvConcat (eval I base)
  | [], base, t, h => by cases h; rfl
  | e :: rest, base, t, h => by
    unfold concatChain at h
    obtain ⟨b, hb, h⟩ := bind_ok h
    rw [concatChain_eval I rest b t h, concat2_eval I hb]; rfl

/-- **n-ary BVConcat** (arity ≥ 2): left-associated concatenation, first argument most significant -/
theorem bvConcat_denotes (I : Interp) {a b : Term} {rest : List Term} {t : Term}
    (h : Mk.BVConcat (a :: b :: rest) = .ok t) :
    eval I t = (rest.map (eval I)).foldl Sem.bvConcat (Sem.bvConcat (eval I a) (eval I b)) := by
  unfold Mk.BVConcat at h
  obtain ⟨base, hb, h⟩ := bind_ok h
  rw [concatChain_eval I rest base t h, concat2_eval I hb]

theorem bvConcat_two (I : Interp) {a b t : Term} (h : Mk.BVConcat [a, b] = .ok t) {w v : Nat}
    (x : BitVec w) (y : BitVec v) (ha : eval I a = ofBV x) (hb : eval I b = ofBV y) :
    eval I t = ofBV (x ++ y) := by
  rw [bvConcat_denotes I h, ha, hb]; simp [bvConcat_ofBV]

theorem bvConcat_short (as : List Term) (h : as.length < 2) : Mk.BVConcat as = .error .index := by
  match as, h with
  | [], _ => rfl
  | [_], _ => rfl

/-! ## comparisons -/

theorem bvult_eval (I : Interp) {a b t : Term} (h : Mk.BVULT a b = .ok t) {w : Nat} (x y : BitVec w)
    (ha : eval I a = ofBV x) (hb : eval I b = ofBV y) : eval I t = .b (decide (x.toNat < y.toNat)) := by
  rw [create_ok h]; simp [eval_op, evalOp, ha, hb, BitVec.ult]

theorem bvule_denotes (I : Interp) {a b t : Term} (h : Mk.BVULE a b = .ok t) {w : Nat} (x y : BitVec w)
    (ha : eval I a = ofBV x) (hb : eval I b = ofBV y) : eval I t = .b (decide (x.toNat ≤ y.toNat)) := by
  rw [bvule_eval I h x y ha hb, BitVec.ule_eq_decide]

theorem bvslt_eval (I : Interp) {a b t : Term} (h : Mk.BVSLT a b = .ok t) {w : Nat} (x y : BitVec w)
    (ha : eval I a = ofBV x) (hb : eval I b = ofBV y) : eval I t = .b (decide (x.toInt < y.toInt)) := by
  rw [create_ok h]; simp [eval_op, evalOp, ha, hb, BitVec.slt]

theorem bvsle_denotes (I : Interp) {a b t : Term} (h : Mk.BVSLE a b = .ok t) {w : Nat} (x y : BitVec w)
    (ha : eval I a = ofBV x) (hb : eval I b = ofBV y) : eval I t = .b (decide (x.toInt ≤ y.toInt)) := by
  rw [bvsle_eval I h x y ha hb, BitVec.sle_eq_decide]

/-- **BVUGT**: unsigned `>` -/
theorem bvugt_denotes (I : Interp) {a b t : Term} (h : Mk.BVUGT a b = .ok t) {w : Nat} (x y : BitVec w)
    (ha : eval I a = ofBV x) (hb : eval I b = ofBV y) : eval I t = .b (decide (x.toNat > y.toNat)) :=
  bvult_eval I (a := b) (b := a) h y x hb ha

/-- **BVUGE**: unsigned `≥` -/
theorem bvuge_denotes (I : Interp) {a b t : Term} (h : Mk.BVUGE a b = .ok t) {w : Nat} (x y : BitVec w)
    (ha : eval I a = ofBV x) (hb : eval I b = ofBV y) : eval I t = .b (decide (x.toNat ≥ y.toNat)) :=
  bvule_denotes I (a := b) (b := a) h y x hb ha

/-- **BVSGT**: signed `>` (two's complement values) -/
theorem bvsgt_denotes (I : Interp) {a b t : Term} (h : Mk.BVSGT a b = .ok t) {w : Nat} (x y : BitVec w)
    (ha : eval I a = ofBV x) (hb : eval I b = ofBV y) : eval I t = .b (decide (x.toInt > y.toInt)) :=
  bvslt_eval I (a := b) (b := a) h y x hb ha

/-- **BVSGE**: signed `≥` -/
theorem bvsge_denotes (I : Interp) {a b t : Term} (h : Mk.BVSGE a b = .ok t) {w : Nat} (x y : BitVec w)
    (ha : eval I a = ofBV x) (hb : eval I b = ofBV y) : eval I t = .b (decide (x.toInt ≥ y.toInt)) :=
  bvsle_denotes I (a := b) (b := a) h y x hb ha

/-! ## nand / nor / xnor -/

theorem bvNand_denotes (I : Interp) {a b t : Term} (h : Mk.BVNand a b = .ok t) {w : Nat} (x y : BitVec w)
    (ha : eval I a = ofBV x) (hb : eval I b = ofBV y) : eval I t = ofBV (~~~(x &&& y)) := by
  obtain ⟨c, hc, h⟩ := bind_ok h
  have := bvNary_eval I .and hc x [y] (by simp [ha, hb])
  exact bvNot_denotes I h _ this

theorem bvNor_denotes (I : Interp) {a b t : Term} (h : Mk.BVNor a b = .ok t) {w : Nat} (x y : BitVec w)
    (ha : eval I a = ofBV x) (hb : eval I b = ofBV y) : eval I t = ofBV (~~~(x ||| y)) := by
  obtain ⟨c, hc, h⟩ := bind_ok h
  have := bvNary_eval I .or hc x [y] (by simp [ha, hb])
  exact bvNot_denotes I h _ this

theorem bvXnor_denotes (I : Interp) {a b t : Term} (h : Mk.BVXnor a b = .ok t) {w : Nat} (x y : BitVec w)
    (ha : eval I a = ofBV x) (hb : eval I b = ofBV y) : eval I t = ofBV (~~~(x ^^^ y)) := by
  obtain ⟨c, hc, h⟩ := bind_ok h
  have := bvBin_eval I .xor hc x y ha hb
  exact bvNot_denotes I h _ this

/-! ## constants -/

theorem bv_ok {n : Int} {w : Nat} (hw : 0 < w) (h0 : 0 ≤ n) (h1 : n < 2 ^ w) :
    Mk.BV n w = .ok (Term.bvc n.toNat w) := by
  unfold Mk.BV
  rw [if_neg (by omega), if_neg (by omega), if_neg (by omega)]

/-- any Python integer outside `0 … 2^w - 1` is refused -/
theorem bv_error_of {n : Int} {w : Nat} (h : n < 0 ∨ n ≥ 2 ^ w) : Mk.BV n w = .error .value := by
  unfold Mk.BV
  by_cases hw : w = 0
  · simp [hw]
  · by_cases h0 : n < 0
    · simp [hw, h0]
    · have h1 : n ≥ 2 ^ w := by rcases h with h | h; exact absurd h h0; exact h
      simp [hw, h0, h1]

theorem bv_error_iff (n : Int) (w : Nat) : Mk.BV n w = .error .value ↔ (w = 0 ∨ n < 0 ∨ n ≥ 2 ^ w) := by
  constructor
  · intro h
    by_cases hw : w = 0
    · exact Or.inl hw
    · by_cases h0 : n < 0
      · exact Or.inr (Or.inl h0)
      · by_cases h1 : n ≥ 2 ^ w
        · exact Or.inr (Or.inr h1)
        · rw [bv_ok (by omega) (by omega) (by omega)] at h; cases h
  · rintro (h | h)
    · unfold Mk.BV; simp [h]
    · exact bv_error_of h

/-- `BV n w` succeeds exactly on a positive width and a value in range -/
theorem bv_ok_inv {n : Int} {w : Nat} {t : Term} (h : Mk.BV n w = .ok t) :
    0 < w ∧ 0 ≤ n ∧ n < 2 ^ w ∧ t = Term.bvc n.toNat w := by
  have hw : 0 < w := by
    rcases Nat.eq_zero_or_pos w with h0 | h0
    · rw [(bv_error_iff n w).mpr (Or.inl h0)] at h; cases h
    · exact h0
  have h0 : ¬ n < 0 := by
    intro hk; rw [bv_error_of (Or.inl hk)] at h; cases h
  have h1 : ¬ n ≥ 2 ^ w := by
    intro hk; rw [bv_error_of (Or.inr hk)] at h; cases h
  rw [bv_ok hw (by omega) (by omega)] at h
  cases h
  exact ⟨hw, by omega, by omega, rfl⟩

theorem eval_bvc (I : Interp) (v w : Nat) : eval I (Term.bvc v w) = .bv w v := by
  simp [Term.bvc, eval_op, evalOp]

theorem eval_bvc_ofBV (I : Interp) (v w : Nat) (h : v < 2 ^ w) :
    eval I (Term.bvc v w) = ofBV (BitVec.ofNat w v) := by
  simp [eval_bvc, ofBV, Nat.mod_eq_of_lt h]

end PySMT.C06
