import PySMT.Proofs.C02Total
/-!
# C02 for the array family: array-valued assignments, array values, `select` / `store`

`GConst c` : `c` is a constant in the sense of `FNode.is_constant()` — a scalar constant node, or an array
value all of whose children are such constants — that satisfies the `ARRAY_VALUE` invariant of
`FormulaManager.Array` hereditarily (keys pairwise distinct scalar constant nodes).

* assignments may give array-sorted symbols constant array values (`AsgWFA`);
* `substAsg_specA`, `getValue'_soundA` : soundness of `get_value` for such assignments, array values and
  `select` / `store` in the formula, result of any sort (arrays included);
* `foldA` : a ground term (array values allowed) that evaluates no division by zero simplifies to a
  `GConst` — fold completeness for the array family;
* `exact_coreA` : `get_value` returns a constant (`GConst`) of the type of the formula that has the value
  of the formula.
-/
namespace PySMT.Model
open PySMT PySMT.Simp PySMT.Simplifier PySMT.Subst PySMT.Build PySMT.SubstSpec PySMT.Simp.ArrayRules

/-- a constant (`is_constant()`) with the `ARRAY_VALUE` invariant: a scalar constant node, or an array
value whose children are such constants and whose keys are pairwise distinct scalar constant nodes -/
def GConst : Term → Bool
  | .node op args _ =>
    op.isConstant ||
      (op == .arrayValue && (args.map GConst).all id &&
        (pairs args.tail).all (fun kv => kv.1.op.isConstant) && noDup ((pairs args.tail).map (·.1)))

theorem GConst_node (op : Op) (args : List Term) (p : Payload) :
    GConst (.node op args p) = (op.isConstant ||
      (op == .arrayValue && (args.map GConst).all id &&
        (pairs args.tail).all (fun kv => kv.1.op.isConstant) && noDup ((pairs args.tail).map (·.1)))) := by
  rw [GConst]

theorem gconst_of_isConst {t : Term} (h : t.op.isConstant = true) : GConst t = true := by
  cases t with
  | node op args p => rw [GConst_node]; simp only [Term.op] at h; simp [h]

/-- the two shapes of a `GConst` -/
theorem gconst_cases {op : Op} {args : List Term} {p : Payload} (h : GConst (.node op args p) = true) :
    op.isConstant = true ∨ (op = .arrayValue ∧ (∀ a ∈ args, GConst a = true) ∧
      (∀ kv ∈ pairs args.tail, kv.1.op.isConstant = true) ∧ noDup ((pairs args.tail).map (·.1)) = true) := by
  rw [GConst_node] at h
  simp only [Bool.or_eq_true, Bool.and_eq_true, beq_iff_eq, List.all_eq_true, List.mem_map, id,
    forall_exists_index, and_imp, forall_apply_eq_imp_iff₂] at h
  rcases h with h | ⟨⟨⟨h1, h2⟩, h3⟩, h4⟩
  · exact Or.inl h
  · exact Or.inr ⟨h1, h2, h3, h4⟩

theorem gconst_isConstant : (t : Term) → GConst t = true → Build.isConstant t = true
  | .node op args p => fun h => by
    rcases gconst_cases h with hc | ⟨rfl, hch, _, _⟩
    · by_cases ho : op = .arrayValue
      · subst ho; cases hc
      · rw [BoolRules.isConstant_nonarray ho]; exact hc
    · rw [isConstant_arrayValue]
      simp only [List.all_eq_true, List.mem_map, id]
      rintro _ ⟨a, ha, rfl⟩
      exact gconst_isConstant a (hch a ha)

/-- a well-formed constant contains no division -/
theorem gconst_div0 (I : Interp) : (t : Term) → t.wf = true → GConst t = true → div0 I t = false
  | .node op args p => fun hwf h => by
    rcases gconst_cases h with hc | ⟨rfl, hch, _, _⟩
    · exact (const_facts _ hwf hc).2.2 I
    · rw [div0_plain I .arrayValue args p rfl (by simp), List.any_eq_false]
      intro a ha
      rw [gconst_div0 I a (wf_args hwf a ha) (hch a ha)]
      simp

theorem gconst_qf : (t : Term) → t.wf = true → GConst t = true → qf t = true
  | .node op args p => fun hwf h => by
    rcases gconst_cases h with hc | ⟨rfl, hch, _, _⟩
    · exact (const_facts _ hwf hc).2.1
    · rw [qf]
      simp only [Op.isQuantifier, Bool.not_false, Bool.true_and, List.all_eq_true, List.mem_map, id]
      rintro _ ⟨a, ha, rfl⟩
      exact gconst_qf a (wf_args hwf a ha) (hch a ha)

/-- a constant has the same value under interpretations with the same division-by-zero functions -/
theorem gconst_eval_indep (I J : Interp) (hr : I.div0r = J.div0r) (hi : I.div0i = J.div0i) :
    (t : Term) → t.wf = true → GConst t = true → eval I t = eval J t
  | .node op args p => fun hwf h => by
    rcases gconst_cases h with hc | ⟨rfl, hch, _, _⟩
    · exact const_eval_indep _ hwf hc I J
    · rw [eval_plain I .arrayValue args p (by simp) (by simp) rfl, eval_plain J .arrayValue args p (by simp) (by simp) rfl,
        evalOp_congr I J hr hi]
      congr 1
      exact List.map_congr_left (fun a ha => gconst_eval_indep I J hr hi a (wf_args hwf a ha) (hch a ha))

/-! ## assignments of constants of every sort -/

/-- every binding maps a (non-function) symbol to a well-formed constant (scalar constant or constant array
value with the `ARRAY_VALUE` invariant) of its sort, inside the fragment of the simplifier model -/
def AsgWFA (σ : Asg) : Prop :=
  ∀ kv ∈ σ, kv.1.params = [] ∧ kv.2.wf = true ∧ kv.2.typeOf = some kv.1.ret ∧ GConst kv.2 = true ∧
    inFrag kv.2 = true

theorem AsgWF.toA {σ : Asg} (h : AsgWF σ) : AsgWFA σ := fun kv hkv =>
  ⟨(h kv hkv).1, (h kv hkv).2.1, (h kv hkv).2.2.1, gconst_of_isConst (h kv hkv).2.2.2,
    (const_facts _ (h kv hkv).2.1 (h kv hkv).2.2.2).1⟩

theorem AsgWFA.smapOK {σ : Asg} (h : AsgWFA σ) : SMapOK σ :=
  fun kv hkv => ⟨(h kv hkv).1, (h kv hkv).2.1, (h kv hkv).2.2.1⟩

theorem AsgWFA.get {σ : Asg} (h : AsgWFA σ) {s : Sym} {c : Term} (hg : σ.get s = some c) :
    s.params = [] ∧ c.wf = true ∧ c.typeOf = some s.ret ∧ GConst c = true ∧ inFrag c = true := by
  rw [get_eq] at hg
  exact h _ (Subst.get_mem hg)

theorem interpOf_wfA (σ : Asg) (hσ : AsgWFA σ) : (interpOf σ).WF := by
  refine ⟨fun s => ?_, I0_wf.fn, I0_wf.dom_ne, I0_wf.dom_sort⟩
  simp only [interpOf]
  cases hg : σ.get s with
  | none => exact defaultVal_hasSort _
  | some c =>
    obtain ⟨_, cw, cty, _, _⟩ := hσ.get hg
    exact eval_hasSort c cw _ cty I0 I0_wf

theorem interpOf_extendsA (σ : Asg) (hσ : AsgWFA σ) : Extends (interpOf σ) σ := by
  intro s c hg
  obtain ⟨_, cw, _, cc, _⟩ := hσ.get hg
  have e : (interpOf σ).sym s = eval I0 c := by simp only [interpOf, hg]
  rw [e]
  exact gconst_eval_indep (interpOf σ) I0 rfl rfl c cw cc

/-- the substitution step with array-valued assignments -/
theorem substAsg_specA (σ : Asg) (hσ : AsgWFA σ) (t : Term) (hwf : t.wf = true) (hqf : qf t = true)
    (hfr : inFrag t = true) (hn : normal t = true) (hck : ConstKeys t = true) (τ : Ty) (hty : t.typeOf = some τ) :
      ((substAsg σ t).wf = true ∧ (substAsg σ t).typeOf = some τ ∧ inFrag (substAsg σ t) = true) ∧
      ∀ I : Interp, I.WF → Extends I σ → div0 I t = false →
        eval I (substAsg σ t) = eval I t ∧ div0 I (substAsg σ t) = false :=
  substAsg_spec_gen σ hσ.smapOK (fun s c hg => by
    obtain ⟨_, cw, _, cc, cfr⟩ := hσ.get hg
    exact ⟨cfr, fun I => gconst_div0 I c cw cc⟩) t hwf hqf hfr hn hck τ hty

/-- soundness of `get_value` (the code's substitution step) for assignments of constants of every sort:
the formula may contain array values, `select`, `store`, and have an array sort -/
theorem getValue'_soundA (σ : Asg) (hσ : AsgWFA σ) (f : Term) (τ : Ty) (hwf : f.wf = true) (hqf : qf f = true)
    (hfr : inFrag f = true) (hn : normal f = true) (hck : ConstKeys f = true) (hty : f.typeOf = some τ) (c : Term)
    (h : (let r := simp (substAsg σ f); if Build.isConstant r then some r else none) = some c) :
    Build.isConstant c = true ∧ c.typeOf = some τ ∧
      (∀ I : Interp, I.WF → Extends I σ → div0 I f = false → eval I f = eval I c) ∧
      (∀ I : Interp, I.WF → I.Tot → Extends I σ → eval I f = eval I c) := by
  simp only at h
  split at h
  · next hc =>
    cases h
    obtain ⟨⟨sw, sty, sfr⟩, hs⟩ := substAsg_specA σ hσ f hwf hqf hfr hn hck τ hty
    have hsp := simp_spec _ sw sfr τ sty
    refine ⟨hc, hsp.1.1, fun I hI hext hd => ?_, fun I hI hT hext => ?_⟩
    · obtain ⟨e1, d1⟩ := hs I hI hext hd
      rw [(hsp.2.1 I hI d1).1, e1]
    · rw [show simp (substAsg σ f) = simpWith ruleOf (substAsg σ f) from rfl,
        simpWith_total ruleOf ruleOf_ok _ sw sfr τ sty I hI hT,
        substAsg_eval_gen σ hσ.smapOK f hwf hqf hn hck I hI hext]
  · cases h

/-! ## which operators can have an array-sorted argument -/
section Scalar
open PySMT.C05T

/-- the operators that can have an array-sorted argument -/
def arrOp : Op → Bool
  | .ite | .equals | .function | .arraySelect | .arrayStore | .arrayValue | .pow => true
  | _ => false

theorem allAre_map_some {σs : List Ty} {T : Ty} (h : allAre (σs.map some) T = true) : ∀ t ∈ σs, t = T := by
  intro t ht
  simp only [allAre, List.all_eq_true, List.mem_map, beq_iff_eq, forall_exists_index, and_imp,
    forall_apply_eq_imp_iff₂, Option.some.injEq] at h
  exact h t ht

theorem ite_some_isSome {c : Prop} [Decidable c] {a : Ty} (h : (if c then some a else none).isSome = true) : c := by
  split at h
  · assumption
  · cases h

theorem allAre_scalar {σs : List Ty} {T : Ty} (hT : T.scalar = true) (h : allAre (σs.map some) T = true) :
    ∀ t ∈ σs, t.scalar = true := fun t ht => by rw [allAre_map_some h t ht]; exact hT

theorem tyNode_scalar (op : Op) (p : Payload) (σs : List Ty) (hop : arrOp op = false)
    (h : (tyNode op p σs).isSome = true) (hs : op.shapeOK p σs.length = true) : ∀ t ∈ σs, t.scalar = true := by
  cases op <;> simp only [arrOp, Bool.true_eq_false] at hop <;> simp only [tyNode] at h
  case and | or | not | implies | iff | toReal | strConcat | strReplace | strLength | strToInt | strContains
     | strPrefixOf | strSuffixOf | intToStr => exact allAre_scalar rfl (ite_some_isSome h)
  case plus | minus | times | div =>
    split at h
    · next h1 => exact allAre_scalar rfl h1
    · exact allAre_scalar rfl (ite_some_isSome h)
  case bvAdd | bvSub | bvNot | bvAnd | bvOr | bvXor | bvNeg | bvMul | bvUdiv | bvUrem | bvLshl | bvLshr
     | bvSdiv | bvSrem | bvAshr =>
    split at h
    · exact allAre_scalar rfl (ite_some_isSome h)
    · cases h
  case le | lt =>
    split at h
    · next rest =>
      intro t ht
      rcases List.mem_cons.mp ht with rfl | ht
      · rfl
      · exact allAre_scalar rfl (ite_some_isSome h) t ht
    · exact allAre_scalar rfl (ite_some_isSome h)
  case bvUlt | bvUle | bvSlt | bvSle =>
    split at h
    · next w rest =>
      intro t ht
      rcases List.mem_cons.mp ht with rfl | ht
      · rfl
      · exact allAre_scalar rfl (ite_some_isSome h) t ht
    · cases h
  case boolConst | realConst | algebraicConst | intConst | strConst =>
    split at h
    · intro t ht; cases ht
    · cases h
  case bvConst | symbol =>
    split at h
    · intro t ht; cases ht
    · cases h
  case bvComp | bvConcat | bvExtract | bvRol | bvRor | forall_ | exists_ | strCharAt | strIndexOf | strSubstr =>
    split at h
    · intro t ht
      simp only [List.mem_cons, List.not_mem_nil, or_false] at ht
      rcases ht with rfl | rfl | rfl <;> rfl
    · cases h
  case bvToNatural =>
    simp only [Op.shapeOK, beq_iff_eq] at hs
    split at h
    · next w rest =>
      have : rest = [] := by cases rest <;> simp_all
      subst this
      intro t ht; simp only [List.mem_singleton] at ht; subst ht; rfl
    · cases h
  case bvZext | bvSext =>
    split at h
    · next w tl a rest =>
      have : rest = [] := by
        rcases tl with _ | ⟨k, _ | ⟨k2, tl⟩⟩ <;> simp [Op.shapeOK] at hs
        cases rest <;> simp_all
      subst this
      intro t ht; simp only [List.mem_singleton] at ht; subst ht; rfl
    · cases h

end Scalar

/-- the arguments of a well-formed node whose operator is not one of `ite`, `equals`, `function`,
`select`, `store`, `arrayValue` have scalar sorts -/
theorem scalar_args {op : Op} {args : List Term} {p : Payload} (hwf : (Term.node op args p).wf = true)
    (hop : arrOp op = false) : ∀ a ∈ args, ∀ σ, a.typeOf = some σ → σ.scalar = true := by
  have hwt := Term.wf_wt _ hwf
  have h1 := wt_tyNode hwt
  have hs := wf_shape hwf
  intro a ha σ hσ
  have := tyNode_scalar op p (args.map tyOf) hop h1 (by rw [List.length_map]; exact hs) (tyOf a)
    (List.mem_map_of_mem (f := tyOf) ha)
  rw [tyOf_of_typeOf hσ] at this
  exact this

/-- a `GConst` of a scalar sort is a scalar constant node -/
theorem gconst_scalar {t : Term} {σ : Ty} (h : GConst t = true) (hty : t.typeOf = some σ) (hσ : σ.scalar = true) :
    IsConst t := isConstant_scalar hty hσ (gconst_isConstant t h)

/-- a `GConst` of an array sort is an array value with the invariant -/
theorem gconst_array {t : Term} {i e : Ty} (h : GConst t = true) (hwf : t.wf = true) (hty : t.typeOf = some (.array i e)) :
    ∃ d rest, t = .node .arrayValue (d :: rest) (.ty i) ∧ d.typeOf = some e ∧ GConst d = true ∧
      (∀ a ∈ rest, GConst a = true) ∧ (∀ kv ∈ pairs rest, kv.1.op.isConstant = true) ∧
      noDup ((pairs rest).map (·.1)) = true := by
  cases t with
  | node op args p =>
    rcases gconst_cases h with hc | ⟨rfl, hch, hk, hn⟩
    · exact (isConst_not_array hwf hc hty).elim
    · obtain ⟨idx, e', d, rest, rfl, rfl, hd, _, hτ⟩ := typeOf_arrayValue_inv hty
      cases hτ
      exact ⟨d, rest, rfl, hd, hch d (by simp), fun a ha => hch a (by simp [ha]), hk, hn⟩

theorem keysOK_of {rest : List Term} (hk : ∀ kv ∈ pairs rest, kv.1.op.isConstant = true)
    (hn : noDup ((pairs rest).map (·.1)) = true) : keysOK rest = true := by
  simp only [keysOK, Bool.and_eq_true, List.all_eq_true, List.mem_map, forall_exists_index, and_imp,
    forall_apply_eq_imp_iff₂]
  refine ⟨fun kv hkv => ?_, hn⟩
  have := hk kv hkv
  cases hkv' : kv.1 with
  | node o as q =>
    rw [hkv'] at this
    simp only [Term.op] at this
    rw [BoolRules.isConstant_nonarray (by intro e; subst e; cases this)]
    exact this

theorem noDup_filter_keys (f : Term × Term → Bool) : ∀ ps : List (Term × Term), noDup (ps.map (·.1)) = true →
    noDup ((ps.filter f).map (·.1)) = true
  | [], _ => rfl
  | kv :: ps, h => by
    rw [List.map_cons] at h
    obtain ⟨h1, h2⟩ := noDup_cons h
    have ih := noDup_filter_keys f ps h2
    rw [List.filter_cons]
    split
    · rw [List.map_cons, noDup, ih]
      have : kv.1 ∉ (ps.filter f).map (·.1) := by
        intro hm
        obtain ⟨kv', hkv', e⟩ := List.mem_map.mp hm
        exact h1 (List.mem_map.mpr ⟨kv', (List.mem_filter.mp hkv').1, e⟩)
      simp [this]
    · exact ih

/-- `Array(idx, d, ps)` of constants with pairwise distinct scalar constant keys is a constant -/
theorem gconst_array_ (idx : Ty) {d : Term} {ps : List (Term × Term)} (hd : GConst d = true)
    (hps : ∀ kv ∈ ps, GConst kv.1 = true ∧ GConst kv.2 = true ∧ kv.1.op.isConstant = true)
    (hn : noDup (ps.map (·.1)) = true) : GConst (array_ idx d ps) = true := by
  unfold array_
  rw [GConst_node]
  simp only [List.tail_cons, pairs_flatMap, beq_self_eq_true, Bool.true_and, Bool.or_eq_true, Bool.and_eq_true,
    List.all_eq_true, List.mem_map, id, forall_exists_index, and_imp, forall_apply_eq_imp_iff₂]
  right
  refine ⟨⟨?_, fun kv hkv => (hps kv (List.mem_filter.mp hkv).1).2.2⟩, noDup_filter_keys _ ps hn⟩
  intro x hx
  rcases mem_array_args hx with rfl | ⟨kv, hkv, rfl | rfl⟩
  · exact hd
  · exact (hps kv (List.mem_filter.mp hkv).1).1
  · exact (hps kv (List.mem_filter.mp hkv).1).2.1

/-- `array_value_get` on a constant array value returns one of its (constant) children -/
theorem gconst_getT {d i : Term} {ps : List (Term × Term)} (hd : GConst d = true)
    (hps : ∀ kv ∈ ps, GConst kv.2 = true) : GConst (getT d i ps) = true := by
  rcases getT_result d i ps with h | ⟨kv, hkv, h⟩
  · rw [h]; exact hd
  · rw [h]; exact hps kv hkv

theorem gconst_pairs {rest : List Term} (h : ∀ a ∈ rest, GConst a = true) :
    ∀ kv ∈ pairs rest, GConst kv.1 = true ∧ GConst kv.2 = true :=
  fun kv hkv => ⟨h _ (mem_of_mem_pairs hkv).1, h _ (mem_of_mem_pairs hkv).2⟩

/-! ## fold completeness with arrays -/

/-- an equality between array-sorted terms is one that `walk_equals` compares when both sides are constant
array values: index sort Bool / bit-vector / Int / Real / String and a non-array element sort. (For the other
array sorts `walk_equals` leaves the equality to the solver and `get_value` raises.) -/
def eqOK (args : List Term) : Bool :=
  match args with
  | a :: _ =>
    (match a.typeOf with
     | some (.array idx e) => BoolRules.idxSize idx != some 0 && !e.isArray
     | _ => true)
  | [] => true

theorem eqOK_types {args as' : List Term} (h : as'.map Term.typeOf = args.map Term.typeOf) : eqOK as' = eqOK args := by
  cases args with
  | nil => cases as' <;> simp_all [eqOK]
  | cons a r =>
    cases as' with
    | nil => simp at h
    | cons a' r' =>
      simp only [List.map_cons, List.cons.injEq] at h
      simp only [eqOK, h.1]

/-- **every rule maps constants to a constant, array family included**: applied to `GConst` arguments (scalar
constants and constant array values with the `ARRAY_VALUE` invariant) a rule returns a `GConst` -/
theorem rule_foldA (op : Op) (e : Simp.Entry) (he : ruleOf op = some e) (p : Payload) (as' : List Term) (τ : Ty)
    (hwf' : (Term.node op as' p).wf = true) (hty' : (Term.node op as' p).typeOf = some τ)
    (hgd' : e.guard p (as'.map Term.typeOf) = true) (hc : ∀ a ∈ as', GConst a = true)
    (hs : op ≠ .symbol) (hf : op ≠ .function) (hq : op.isQuantifier = false)
    (hav : op = .arrayValue → (∀ kv ∈ pairs as'.tail, kv.1.op.isConstant = true) ∧
      noDup ((pairs as'.tail).map (·.1)) = true)
    (heq : op = .equals → eqOK as' = true)
    (I : Interp) (hd' : div0 I (.node op as' p) = false) : GConst (e.rule p as') = true := by
  have hwa := wf_args hwf'
  by_cases harr : arrOp op = false
  · -- no array-sorted argument: the scalar fold lemma
    have hcs : ∀ a ∈ as', IsConst a := by
      intro a ha
      obtain ⟨σ, hσ⟩ := wf_typeOf a (hwa a ha)
      exact gconst_scalar (hc a ha) hσ (scalar_args hwf' harr a ha σ hσ)
    have hav' : op ≠ .arrayValue := by intro e; subst e; cases harr
    exact gconst_of_isConst ((ruleOf_fold op e he hs hf hav' hq).fold p as' τ hwf' hty' hgd' hcs I hd')
  · have hshape := wf_shape hwf'
    cases op <;> simp only [arrOp, Bool.true_eq_false, not_false_eq_true, not_true_eq_false] at harr <;>
      simp only [ruleOf, Option.some.injEq] at he
    case function => exact absurd rfl hf
    case pow => cases he
    case ite =>
      subst he
      simp only [Op.shapeOK, beq_iff_eq] at hshape
      match as', hshape, hwf', hty', hc with
      | [c, a, b], _, hwf', hty', hc =>
        obtain ⟨hci, _, _⟩ := BoolRules.typeOf_ite_inv hty'
        have hcc := gconst_scalar (hc c (by simp)) hci rfl
        obtain ⟨bc, rfl⟩ := const_bool (wf_args hwf' c (by simp)) hcc hci
        show GConst (BoolRules.walkIte p [Term.bool bc, a, b]) = true
        unfold BoolRules.walkIte
        simp only
        split
        · exact hc a (by simp)
        · cases bc
          · exact hc b (by simp)
          · exact hc a (by simp)
    case equals =>
      subst he
      obtain ⟨sl, sr, rfl⟩ := BoolRules.args2 hwf' (by intro n h; simpa [Op.shapeOK] using h)
      have wl := hwa sl (by simp)
      have wr := hwa sr (by simp)
      obtain ⟨ta, ha⟩ := wf_typeOf sl wl
      obtain ⟨tb, hb⟩ := wf_typeOf sr wr
      have hab : tb = ta := by
        rw [typeOf_node] at hty'
        simp only [List.map_cons, List.map_nil, ha, hb] at hty'
        rw [BoolRules.typeOfNode_equals] at hty'
        split at hty'
        · cases hty'
        · exact (of_ite_some hty').1
      subst hab
      show GConst (BoolRules.walkEquals p [sl, sr]) = true
      unfold BoolRules.walkEquals
      simp only
      split
      · exact gconst_of_isConst rfl
      · by_cases hsc : tb.scalar = true
        · have cl := gconst_scalar (hc sl (by simp)) ha hsc
          have cr := gconst_scalar (hc sr (by simp)) hb hsc
          obtain ⟨l1, l2⟩ := isConst_not_arrayValue cl
          obtain ⟨r1, r2⟩ := isConst_not_arrayValue cr
          simp only [l1, l2, r1, r2, Bool.or_self, Bool.false_eq_true, if_false, Bool.and_self, if_true]
          exact gconst_of_isConst rfl
        · obtain ⟨idx, el, rfl⟩ : ∃ i e, tb = .array i e := by
            cases tb <;> first | (exact absurd rfl hsc) | exact ⟨_, _, rfl⟩
          obtain ⟨dl, restl, rfl, _, _, _, _, _⟩ := gconst_array (hc sl (by simp)) wl ha
          obtain ⟨dr, restr, rfl, _, _, _, _, _⟩ := gconst_array (hc sr (by simp)) wr hb
          have hcl := gconst_isConstant _ (hc _ (List.mem_cons_self))
          have hcr := gconst_isConstant _ (hc _ (List.mem_cons_of_mem _ List.mem_cons_self))
          have hok := heq rfl
          simp only [eqOK, ha] at hok
          simp only [BoolRules.isArrayValue, Term.op, beq_self_eq_true, Bool.or_self, if_true, hcl, hcr, Bool.and_self]
          unfold BoolRules.arrayValuesEq
          rw [ha]
          simp only [hok, if_true]
          split
          · exact gconst_of_isConst rfl
          · next hnone => split at hnone <;> cases hnone
    case arraySelect =>
      subst he
      simp only [Op.shapeOK, beq_iff_eq] at hshape
      match as', hshape, hwf', hty', hc, hgd' with
      | [a, i], _, hwf', hty', hc, hgd' =>
        rw [typeOf_node] at hty'
        obtain ⟨idx, hts⟩ := typeOfNode_arraySelect hty'
        simp only [List.map_cons, List.map_nil, List.cons.injEq, and_true] at hts
        obtain ⟨d, rest, rfl, _, hdc, hrc, hk, hn⟩ := gconst_array (hc a (by simp)) (wf_args hwf' a (by simp)) hts.1
        have hci := gconst_isConstant i (hc i (by simp))
        show GConst (walkArraySelect p [.node .arrayValue (d :: rest) (.ty idx), i]) = true
        unfold walkArraySelect
        simp only [BoolRules.isArrayValue, Term.op, beq_self_eq_true, hci, Bool.and_self, if_true, keysOK_of hk hn]
        rw [arrayValueGet_getT]
        exact gconst_getT hdc (fun kv hkv => (gconst_pairs hrc kv hkv).2)
    case arrayStore =>
      subst he
      simp only [Op.shapeOK, beq_iff_eq] at hshape
      match as', hshape, hwf', hty', hc, hgd' with
      | [a, i, v], _, hwf', hty', hc, hgd' =>
        rw [typeOf_node] at hty'
        obtain ⟨idx, el, hts, _⟩ := typeOfNode_arrayStore hty'
        simp only [List.map_cons, List.map_nil, List.cons.injEq, and_true] at hts
        obtain ⟨d, rest, rfl, _, hdc, hrc, hk, hn⟩ := gconst_array (hc a (by simp)) (wf_args hwf' a (by simp)) hts.1
        have hci := gconst_isConstant i (hc i (by simp))
        have hidx : idx.scalar = true := by
          simp only [List.map_cons, List.map_nil, hts.1] at hgd'
          rw [← scalarIdx_eq]; exact hgd'
        have hiK : i.op.isConstant = true := gconst_scalar (hc i (by simp)) hts.2.1 hidx
        show GConst (walkArrayStore p [.node .arrayValue (d :: rest) (.ty idx), i, v]) = true
        unfold walkArrayStore
        simp only [BoolRules.isArrayValue, Term.op, beq_self_eq_true, hci, Bool.and_self, if_true, keysOK_of hk hn]
        rw [dictOf_nodup _ hn]
        refine gconst_array_ idx hdc ?_ (noDup_dictSet _ i v hn)
        intro kv hkv
        rcases mem_dictSet hkv with rfl | hkv
        · exact ⟨hc i (by simp), hc v (by simp), hiK⟩
        · exact ⟨(gconst_pairs hrc kv hkv).1, (gconst_pairs hrc kv hkv).2, hk kv hkv⟩
    case arrayValue =>
      subst he
      obtain ⟨idx, el, d, rest, rfl, rfl, _, _, _⟩ := typeOf_arrayValue_inv hty'
      obtain ⟨hk, hn⟩ := hav rfl
      simp only [List.tail_cons] at hk hn
      show GConst (walkArrayValue (.ty idx) (d :: rest)) = true
      unfold walkArrayValue
      simp only [keysOK_of hk hn, if_true]
      rw [dictOf_nodup _ hn]
      refine gconst_array_ idx (hc d (by simp)) ?_ hn
      intro kv hkv
      have := gconst_pairs (fun a ha => hc a (List.mem_cons_of_mem _ ha)) kv hkv
      exact ⟨this.1, this.2, hk kv hkv⟩

/-- no symbol, no function application, no quantifier; the keys of every array value are pairwise distinct
scalar constant nodes; every equality between arrays is one `walk_equals` compares (`eqOK`) -/
def groundA : Term → Bool
  | .node op args _ =>
    (op != .symbol && op != .function && !op.isQuantifier) && (args.map groundA).all id &&
      (op != .arrayValue ||
        ((pairs args.tail).all (fun kv => kv.1.op.isConstant) && noDup ((pairs args.tail).map (·.1)))) &&
      (op != .equals || eqOK args)

theorem groundA_node {op : Op} {args : List Term} {p : Payload} (h : groundA (.node op args p) = true) :
    (op ≠ .symbol ∧ op ≠ .function ∧ op.isQuantifier = false) ∧ (∀ a ∈ args, groundA a = true) ∧
    (op = .arrayValue → (∀ kv ∈ pairs args.tail, kv.1.op.isConstant = true) ∧
      noDup ((pairs args.tail).map (·.1)) = true) ∧
    (op = .equals → eqOK args = true) := by
  rw [groundA] at h
  simp only [Bool.and_eq_true, bne_iff_ne, ne_eq, Bool.not_eq_true', List.all_eq_true, List.mem_map, id,
    Bool.or_eq_true, forall_exists_index, and_imp, forall_apply_eq_imp_iff₂] at h
  obtain ⟨⟨⟨⟨⟨h1, h2⟩, h3⟩, h4⟩, h5⟩, h6⟩ := h
  refine ⟨⟨h1, h2, h3⟩, h4, fun e => ?_, fun e => ?_⟩
  · rcases h5 with h5 | h5
    · exact absurd e h5
    · exact h5
  · rcases h6 with h6 | h6
    · exact absurd e h6
    · exact h6

theorem groundA_mk {op : Op} {args : List Term} {p : Payload} (h1 : op ≠ .symbol) (h2 : op ≠ .function)
    (h3 : op.isQuantifier = false) (h4 : ∀ a ∈ args, groundA a = true)
    (h5 : op = .arrayValue → (∀ kv ∈ pairs args.tail, kv.1.op.isConstant = true) ∧
      noDup ((pairs args.tail).map (·.1)) = true)
    (h6 : op = .equals → eqOK args = true) : groundA (.node op args p) = true := by
  rw [groundA]
  simp only [Bool.and_eq_true, bne_iff_ne, ne_eq, Bool.not_eq_true', List.all_eq_true, List.mem_map, id,
    Bool.or_eq_true, forall_exists_index, and_imp, forall_apply_eq_imp_iff₂]
  refine ⟨⟨⟨⟨⟨h1, h2⟩, h3⟩, h4⟩, ?_⟩, ?_⟩
  · by_cases e : op = .arrayValue
    · exact Or.inr (h5 e)
    · exact Or.inl e
  · by_cases e : op = .equals
    · exact Or.inr (h6 e)
    · exact Or.inl e

/-- a scalar constant is left alone by the simplifier -/
theorem simp_const {k : Term} (hwf : k.wf = true) (hc : k.op.isConstant = true) : simp k = k := by
  rcases StrRules.const_shape hwf hc with ⟨b, rfl⟩ | ⟨n, rfl⟩ | ⟨q, rfl⟩ | ⟨s, rfl⟩ | ⟨v, w, rfl⟩
  · show simpWith ruleOf (.node .boolConst [] (.b b)) = _; rw [simpWith]; rfl
  · show simpWith ruleOf (.node .intConst [] (.i n)) = _; rw [simpWith]; rfl
  · show simpWith ruleOf (.node .realConst [] (.q q)) = _; rw [simpWith]; rfl
  · show simpWith ruleOf (.node .strConst [] (.s s)) = _; rw [simpWith]; rfl
  · show simpWith ruleOf (.node .bvConst [] (.bv v w)) = _; rw [simpWith]; rfl

theorem pairs_map (f : Term → Term) : ∀ l : List Term, pairs (l.map f) = (pairs l).map (fun kv => (f kv.1, f kv.2))
  | [] => rfl
  | [_] => rfl
  | k :: v :: rest => by
    simp only [List.map_cons, pairs]
    rw [pairs_map f rest]

/-- **fold completeness with arrays**: a well-formed term of the fragment without symbols, applications and
quantifiers, whose array values have pairwise distinct scalar constant keys and whose array equalities are
comparable (`groundA`), that evaluates no division by zero, simplifies to a constant (`GConst`: a scalar
constant or a constant array value) -/
theorem foldA : (t : Term) → (τ : Ty) → (hwf : t.wf = true) → (hfr : inFrag t = true) →
    (hty : t.typeOf = some τ) → (hg : groundA t = true) → (I : Interp) → (hI : I.WF) →
    (hd : div0 I t = false) → GConst (simp t) = true
  | .node op args p => fun τ hwf hfr hty hg I hI hd => by
    obtain ⟨⟨e, he, hgd⟩, hfa⟩ := inFragWith_node hfr
    obtain ⟨⟨hs, hf, hq⟩, hga, hav, heq⟩ := groundA_node hg
    have hda := div0_args_false I op args p hq hd
    have ih : ∀ a ∈ args, GConst (simp a) = true := by
      intro a ha
      obtain ⟨σ, hσ⟩ := wf_typeOf a (wf_args hwf a ha)
      exact foldA a σ (wf_args hwf a ha) (hfa a ha) hσ (hga a ha) I hI (hda a ha)
    have sp : ∀ a ∈ args, ((simp a).typeOf = a.typeOf ∧ (simp a).wf = true) ∧
        (∀ J : Interp, J.WF → div0 J a = false → eval J (simp a) = eval J a ∧ div0 J (simp a) = false) := by
      intro a ha
      obtain ⟨σ, hσ⟩ := wf_typeOf a (wf_args hwf a ha)
      have := simp_spec a (wf_args hwf a ha) (hfa a ha) σ hσ
      rw [hσ]
      exact ⟨this.1, this.2.1⟩
    have htys : (args.map simp).map Term.typeOf = args.map Term.typeOf := by
      rw [List.map_map]
      exact List.map_congr_left (fun a ha => (sp a ha).1.1)
    have hty' : (Term.node op (args.map simp) p).typeOf = some τ := by
      rw [typeOf_node, htys, ← typeOf_node]; exact hty
    have hwf' : (Term.node op (args.map simp) p).wf = true := by
      refine wf_mk' ?_ ?_ hty'
      · intro a' ha'
        obtain ⟨a, ha, rfl⟩ := List.mem_map.mp ha'
        exact (sp a ha).1.2
      · rw [List.length_map]; exact wf_shape hwf
    have hgd' : e.guard p ((args.map simp).map Term.typeOf) = true := by rw [htys]; exact hgd
    have hc' : ∀ a' ∈ args.map simp, GConst a' = true := by
      intro a' ha'
      obtain ⟨a, ha, rfl⟩ := List.mem_map.mp ha'
      exact ih a ha
    have hd' : div0 I (.node op (args.map simp) p) = false :=
      (node_congr op args p simp hwf (fun a ha => (sp a ha).2) I hI hd).2
    have hsimp : simp (.node op args p) = e.rule p (args.map simp) := by
      show simpWith ruleOf (.node op args p) = e.rule p (args.map (simpWith ruleOf))
      rw [simpWith, he]
    rw [hsimp]
    refine rule_foldA op e he p _ τ hwf' hty' hgd' hc' hs hf hq ?_ (fun e => by rw [eqOK_types htys]; exact heq e) I hd'
    -- the keys of an array value are scalar constants: the simplifier leaves them alone
    intro ho
    obtain ⟨hk, hn⟩ := hav ho
    have hkeys : (pairs (args.map simp).tail).map (·.1) = (pairs args.tail).map (·.1) := by
      rw [← List.map_tail, pairs_map, List.map_map]
      apply List.map_congr_left
      intro kv hkv
      have hm : kv.1 ∈ args := List.mem_of_mem_tail (mem_of_mem_pairs hkv).1
      exact simp_const (wf_args hwf _ hm) (hk kv hkv)
    refine ⟨?_, by rw [hkeys]; exact hn⟩
    intro kv' hkv'
    have : kv'.1 ∈ (pairs (args.map simp).tail).map (·.1) := List.mem_map_of_mem (f := (·.1)) hkv'
    rw [hkeys] at this
    obtain ⟨kv, hkv, e'⟩ := List.mem_map.mp this
    rw [← e']
    exact hk kv hkv

/-! ## the substituted formula is ground -/

/-- quantifier-free, no function application; every equality between arrays is comparable (`eqOK`). Array
values, `select`, `store` and array-sorted symbols are allowed. -/
def evaluableA : Term → Bool
  | .node op args _ =>
    (op != .function && !op.isQuantifier) && (args.map evaluableA).all id && (op != .equals || eqOK args)

theorem evaluableA_node {op args p} (h : evaluableA (.node op args p) = true) :
    (op ≠ .function ∧ op.isQuantifier = false) ∧ (∀ a ∈ args, evaluableA a = true) ∧
      (op = .equals → eqOK args = true) := by
  rw [evaluableA] at h
  simp only [Bool.and_eq_true, bne_iff_ne, ne_eq, Bool.not_eq_true', List.all_eq_true, List.mem_map, id,
    Bool.or_eq_true, forall_exists_index, and_imp, forall_apply_eq_imp_iff₂] at h
  obtain ⟨⟨⟨h1, h2⟩, h3⟩, h4⟩ := h
  refine ⟨⟨h1, h2⟩, h3, fun e => ?_⟩
  rcases h4 with h4 | h4
  · exact absurd e h4
  · exact h4

theorem evaluableA_qf : (t : Term) → evaluableA t = true → qf t = true
  | .node op args p => fun h => by
    obtain ⟨⟨_, hq⟩, ha, _⟩ := evaluableA_node h
    rw [qf]
    simp only [hq, Bool.not_false, Bool.true_and, List.all_eq_true, List.mem_map, id]
    rintro _ ⟨a, ha', rfl⟩
    exact evaluableA_qf a (ha a ha')

/-- a constant is ground -/
theorem gconst_groundA : (t : Term) → t.wf = true → GConst t = true → groundA t = true
  | .node op args p => fun hwf h => by
    rcases gconst_cases h with hc | ⟨rfl, hch, hk, hn⟩
    · have hargs : args = [] := by
        rcases StrRules.const_shape hwf hc with ⟨b, e⟩ | ⟨n, e⟩ | ⟨q, e⟩ | ⟨s, e⟩ | ⟨v, w, e⟩ <;>
          (cases e; rfl)
      subst hargs
      refine groundA_mk ?_ ?_ ?_ (by simp) ?_ ?_ <;>
        first
        | (intro e; subst e; cases hc)
        | (cases op <;> first | rfl | cases hc)
    · exact groundA_mk (by simp) (by simp) rfl (fun a ha => gconst_groundA a (wf_args hwf a ha) (hch a ha))
        (fun _ => ⟨hk, hn⟩) (fun e => by cases e)

/-- substituting a total assignment of constants into an `evaluableA` term in normal form gives a ground
term -/
theorem groundA_substAsg (σ : Asg) (hσ : AsgWFA σ) : (t : Term) → t.wf = true → evaluableA t = true →
    normal t = true → ConstKeys t = true → (∀ s ∈ t.fv, (σ.get s).isSome = true) →
    groundA (substAsg σ t) = true
  | .node op args p => fun hwf hev hn hck htot => by
    have hwt := Term.wf_wt _ hwf
    obtain ⟨⟨hf, hq⟩, hea, heq⟩ := evaluableA_node hev
    by_cases hsym : op = .symbol
    · subst hsym
      obtain ⟨s, rfl, rfl⟩ := wf_symbol_inv hwf
      rw [substAsg_symbol]
      have hs : s ∈ (Term.node .symbol [] (.sym s)).fv := by rw [fv_symbol]; simp
      cases hg : σ.get s with
      | none => have := htot s hs; rw [hg] at this; cases this
      | some c =>
        simp only [Option.getD_some]
        obtain ⟨_, cw, _, cc, _⟩ := hσ.get hg
        exact gconst_groundA c cw cc
    · rw [substAsg_other σ op args p hq hsym]
      have ihg : ∀ a' ∈ args.map (substAsg σ), groundA a' = true := by
        intro a' ha'
        obtain ⟨a, ha, rfl⟩ := List.mem_map.mp ha'
        refine groundA_substAsg σ hσ a (wf_args hwf a ha) (hea a ha) (normal_child hn a ha) (ConstKeys_child hck a ha)
          (fun s hs => htot s ?_)
        exact mem_fv_child op args p a ha s hs hsym (fun vs _ hq' => by rw [hq] at hq'; cases hq')
      have htys : (args.map (substAsg σ)).map Term.typeOf = args.map Term.typeOf := by
        rw [List.map_map]
        exact List.map_congr_left (fun a ha =>
          (substG_type false noInterp_typed a _ hσ.smapOK.wfMap.tyMap (Term.wt_child hwt a ha) (normal_child hn a ha)).2)
      have hst : SameTypes args (args.map (substAsg σ)) := by
        refine ⟨?_, htys⟩
        intro a' ha'
        obtain ⟨a, ha, rfl⟩ := List.mem_map.mp ha'
        exact Term.wf_wt _ (substG_wf false noInterp_typed noInterp_wf a _ hσ.smapOK.wfMap (wf_args hwf a ha)
          (normal_child hn a ha))
      have hshape := rebuild_shape hwt (normal_here hn) hst
      have greal : ∀ q : Rat, groundA (Term.real q) = true := fun q =>
        gconst_groundA _ (wf_real q) (gconst_of_isConst rfl)
      by_cases hav : op = .arrayValue
      · -- the rebuilt array value: keys unchanged (constants), pairwise distinct by construction
        subst hav
        obtain ⟨idx, el, d, rest, rfl, rfl, _, _, _⟩ := typeOf_arrayValue_inv (wf_typeOf _ hwf).choose_spec
        have hconst := ConstKeys_here hck
        simp only [List.tail_cons] at hconst
        have hrb : rebuild .arrayValue (.ty idx) ((d :: rest).map (substAsg σ)) =
            mkArray (.ty idx) ((d :: rest).map (substAsg σ)) := rfl
        rw [hrb, List.map_cons, mkArray_cons]
        refine groundA_mk (by simp) (by simp) rfl ?_ (fun _ => ?_) (fun e => by cases e)
        · intro x hx
          exact mem_mkArray hx (fun y => groundA y = true) (by rw [← List.map_cons]; exact ihg)
        · simp only [List.tail_cons]
          rw [← pairsOf_eq_pairs, pairsOf_unpairs]
          have hkeep : ∀ kv ∈ pairsOf rest, substAsg σ kv.1 = kv.1 := fun kv hkv =>
            substG_const false noInterp σ kv.1 (hconst kv hkv)
              (wf_args hwf _ (List.mem_cons_of_mem _ (mem_pairsOf hkv).1))
          constructor
          · intro kv hkv
            have hmem := (List.mem_filter.mp hkv).1
            have := pyDict_all (fun k => k.op.isConstant = true) (fun _ => True)
              (ps := pairsOf (rest.map (substAsg σ))) (by
                intro q hq
                rw [pairsOf_map] at hq
                obtain ⟨q0, hq0, rfl⟩ := List.mem_map.mp hq
                simp only [hkeep q0 hq0]
                exact ⟨hconst q0 hq0, trivial⟩) kv hmem
            exact this.1
          · apply noDup_of_nodup
            exact List.Nodup.sublist (List.Sublist.map _ List.filter_sublist) (pyDict_keys_nodup _)
      · refine shape_ind (fun r => groundA r = true) hshape ?_ ?_ (fun v => greal _) ?_ (fun ho => absurd ho hav)
        · exact groundA_mk hsym hf hq ihg (fun e => absurd e hav) (fun e => by rw [eqOK_types htys]; exact heq e)
        · intro b pl hb
          have := ihg (.node .not [b] pl) (by rw [hb]; simp)
          exact (groundA_node this).2.1 b (by simp)
        · intro a' c ha'
          refine groundA_mk (by simp) (by simp) rfl ?_ (fun e => by cases e) (fun e => by cases e)
          intro x hx
          simp only [List.mem_cons, List.not_mem_nil, or_false] at hx
          rcases hx with rfl | rfl
          · exact ihg _ (by rw [ha']; simp)
          · exact greal _

/-- **the core of exactness with arrays**: `simp (substAsg σ f)` is a constant (`GConst`) of the type of `f`
with the value of `f` -/
theorem exact_coreA (σ : Asg) (hσ : AsgWFA σ) (f : Term) (τ : Ty) (hwf : f.wf = true) (hev : evaluableA f = true)
    (hfr : inFrag f = true) (hn : normal f = true) (hck : ConstKeys f = true) (hty : f.typeOf = some τ)
    (htot : ∀ s ∈ f.fv, (σ.get s).isSome = true) (hd : div0 (interpOf σ) f = false) :
    GConst (simp (substAsg σ f)) = true ∧ (simp (substAsg σ f)).wf = true ∧
      (simp (substAsg σ f)).typeOf = some τ ∧
      eval (interpOf σ) (simp (substAsg σ f)) = eval (interpOf σ) f := by
  have hI := interpOf_wfA σ hσ
  obtain ⟨⟨gw, gty, gfr⟩, gs⟩ := substAsg_specA σ hσ f hwf (evaluableA_qf f hev) hfr hn hck τ hty
  obtain ⟨ge, gd⟩ := gs (interpOf σ) hI (interpOf_extendsA σ hσ) hd
  have hg := groundA_substAsg σ hσ f hwf hev hn hck htot
  have hc := foldA _ τ gw gfr gty hg _ hI gd
  obtain ⟨⟨sty, sw⟩, ss, _⟩ := simp_spec _ gw gfr τ gty
  exact ⟨hc, sw, sty, by rw [(ss _ hI gd).1, ge]⟩

theorem AsgWFA.append {σ : Asg} (h : AsgWFA σ) {s : Sym} {d : Term} (hs : s.params = [])
    (hd : d.wf = true ∧ d.typeOf = some s.ret ∧ d.op.isConstant = true) : AsgWFA (σ ++ [(s, d)]) := by
  intro kv hkv
  rcases List.mem_append.mp hkv with hkv | hkv
  · exact h kv hkv
  · simp only [List.mem_singleton] at hkv
    subst hkv
    exact ⟨hs, hd.1, hd.2.1, gconst_of_isConst hd.2.2, (const_facts _ hd.1 hd.2.2).1⟩

/-- completion keeps the assignment well-formed -/
theorem complete_wfA : ∀ (syms : List Sym) (σ σ' : Asg), AsgWFA σ → complete σ syms = some σ' → AsgWFA σ'
  | [], σ, σ', h, hc => by
    simp only [complete, Option.some.injEq] at hc
    subst hc; exact h
  | s :: rest, σ, σ', h, hc => by
    rw [complete] at hc
    cases hg : σ.get s with
    | some c => rw [hg] at hc; exact complete_wfA rest σ σ' h hc
    | none =>
      rw [hg] at hc
      simp only at hc
      split at hc
      · next hp =>
        cases hd : defaultOf s.ret with
        | none => rw [hd] at hc; cases hc
        | some d =>
          rw [hd] at hc
          exact complete_wfA rest _ σ' (h.append (by simpa using hp) (defaultOf_ok hd)) hc
      · cases hc

/-- exactness with arrays, any completion mode, total assignment -/
theorem getValue'_exactA (completion : Bool) (σ : Asg) (hσ : AsgWFA σ) (f : Term) (τ : Ty) (hwf : f.wf = true)
    (hev : evaluableA f = true) (hfr : inFrag f = true) (hn : normal f = true) (hck : ConstKeys f = true)
    (hty : f.typeOf = some τ) (htot : ∀ s ∈ f.fv, (σ.get s).isSome = true) (hd : div0 (interpOf σ) f = false) :
    ∃ c, getValue' completion σ f = some c ∧ GConst c = true ∧ c.wf = true ∧ c.typeOf = some τ ∧
      eval (interpOf σ) c = eval (interpOf σ) f := by
  obtain ⟨hc, sw, sty, se⟩ := exact_coreA σ hσ f τ hwf hev hfr hn hck hty htot hd
  have hcomp : (if completion then complete σ f.fv else some σ) = some σ := by
    cases completion
    · rfl
    · simp only [if_true]; exact complete_of_total f.fv σ htot
  refine ⟨simp (substAsg σ f), ?_, hc, sw, sty, se⟩
  simp only [getValue', hcomp, gconst_isConstant _ hc, if_true]

/-- exactness with arrays and completion of the missing scalar symbols -/
theorem completion'_exactA (σ : Asg) (hσ : AsgWFA σ) (f : Term) (τ : Ty) (hwf : f.wf = true)
    (hev : evaluableA f = true) (hfr : inFrag f = true) (hn : normal f = true) (hck : ConstKeys f = true)
    (hty : f.typeOf = some τ)
    (hmiss : ∀ s ∈ f.fv, σ.get s = none → s.params = [] ∧ (defaultOf s.ret).isSome = true)
    (hd : div0 (interpOf σ) f = false) :
    ∃ σ' c, complete σ f.fv = some σ' ∧ simp (substAsg σ' f) = c ∧ GConst c = true ∧ c.wf = true ∧
      c.typeOf = some τ ∧ eval (interpOf σ) c = eval (interpOf σ) f := by
  obtain ⟨σ', h1, h2, h3, h4, h5⟩ := complete_spec f.fv σ hmiss
  have hσ' := complete_wfA f.fv σ σ' hσ h1
  have hI : interpOf σ' = interpOf σ := interpOf_complete σ σ' f.fv h2 h3 h5
  obtain ⟨hc, sw, sty, se⟩ := exact_coreA σ' hσ' f τ hwf hev hfr hn hck hty h4 (by rw [hI]; exact hd)
  rw [hI] at se
  exact ⟨σ', _, h1, rfl, hc, sw, sty, se⟩

end PySMT.Model
