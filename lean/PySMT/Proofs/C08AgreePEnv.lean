import PySMT.Proofs.C08AgreeMain
/-!
# C08/C09: the parser environment that corresponds to a standard environment (`penvOf`), constructively

`penvOf env` binds every declared function symbol, sort and sort abbreviation of `env` the way the parser's
`declare-fun`/`declare-const`/`declare-sort`/`define-sort` do, over the initial bindings of `true` and `false`, and sets the
logic flag from `env.realsOnly`. `corr_penvOf`: under the decidable side conditions `envOK env` (no definitions, names not
spelled like literals, one namespace, no function named like a non-standard token of the parser's table) the two
environments correspond (`Corr env [] (penvOf env)`). This shows that the hypotheses of the agreement theorems are
satisfiable for every such `env`.
-/
namespace PySMT.Parser.Agree
open PySMT PySMT.Parser PySMT.Std PySMT.Sexp

def declVal (s : Sym) : Parser.Val := if s.params.isEmpty then .term (Term.sym s) else .fn (.uf s)

def sortVal (d : String × Nat) : Parser.Val := if d.2 = 0 then .sortTy (.custom d.1) else .sortDecl d.1 d.2

def penvOf (env : SEnv) : PEnv :=
  { binds := env.funs.map (fun s => (s.name, declVal s)) ++ (env.sorts.map (fun d => (d.1, sortVal d)) ++
      (env.aliases.map (fun a => (a.1, Parser.Val.sortTy a.2)) ++
        [("true", .term Term.tt), ("false", .term Term.ff)]))
    intArith := some (!env.realsOnly)
    mgr := {} }

def nameOK1 (n : String) : Bool := pnameOK n && n != "true" && n != "false"

def envOK (env : SEnv) : Bool :=
  env.defs.isEmpty &&
  env.funs.all (fun s => nameOK1 s.name && (s.params.isEmpty || (tableLookup s.name).isNone)) &&
  env.sorts.all (fun d => nameOK1 d.1 && (env.lookupFun d.1).isNone) &&
  env.aliases.all (fun a => nameOK1 a.1 && (env.lookupFun a.1).isNone)

theorem lookup_funs (n : String) : ∀ (l : List Sym),
    lookup n (l.map (fun s => (s.name, declVal s))) = (l.find? (fun s => s.name == n)).map declVal
  | [] => rfl
  | s :: l => by
    simp only [List.map_cons, lookup, List.find?_cons]
    by_cases h : (s.name == n) = true
    · simp [h]
    · have h' : (s.name == n) = false := by simpa using h
      simp only [h', Bool.false_eq_true, if_false]
      exact lookup_funs n l

theorem lookup_sorts (n : String) : ∀ (l : List (String × Nat)),
    lookup n (l.map (fun d => (d.1, sortVal d))) = (l.find? (fun d => d.1 == n)).map sortVal
  | [] => rfl
  | d :: l => by
    simp only [List.map_cons, lookup, List.find?_cons]
    by_cases h : (d.1 == n) = true
    · simp [h]
    · have h' : (d.1 == n) = false := by simpa using h
      simp only [h', Bool.false_eq_true, if_false]
      exact lookup_sorts n l

theorem lookup_aliases (n : String) : ∀ (l : List (String × Ty)),
    lookup n (l.map (fun a => (a.1, Parser.Val.sortTy a.2))) = (l.find? (fun d => d.1 == n)).map (fun a => .sortTy a.2)
  | [] => rfl
  | d :: l => by
    simp only [List.map_cons, lookup, List.find?_cons]
    by_cases h : (d.1 == n) = true
    · simp [h]
    · have h' : (d.1 == n) = false := by simpa using h
      simp only [h', Bool.false_eq_true, if_false]
      exact lookup_aliases n l

theorem find_name {α} {l : List α} {f : α → String} {n : String} {x : α} (h : l.find? (fun d => f d == n) = some x) :
    x ∈ l ∧ f x = n := by
  refine ⟨List.mem_of_find?_eq_some h, ?_⟩
  have := List.find?_some h
  simpa using this

theorem corr_penvOf (env : SEnv) (h : envOK env = true) : Corr env [] (penvOf env) := by
  simp only [envOK, Bool.and_eq_true, List.all_eq_true, List.isEmpty_iff] at h
  obtain ⟨⟨⟨hdefs, hfuns⟩, hsorts⟩, haliases⟩ := h
  have hF : ∀ n, env.lookupFun n = none → lookup n (penvOf env).binds =
      lookup n (env.sorts.map (fun d => (d.1, sortVal d)) ++ (env.aliases.map (fun a => (a.1, Parser.Val.sortTy a.2)) ++
        [("true", .term Term.tt), ("false", .term Term.ff)])) := by
    intro n hn
    show lookup n (_ ++ _) = _
    rw [lookup_append, lookup_funs]
    simp only [SEnv.lookupFun] at hn
    rw [hn]; rfl
  have hS : ∀ n, env.lookupFun n = none → env.lookupSort n = none → lookup n (penvOf env).binds =
      lookup n (env.aliases.map (fun a => (a.1, Parser.Val.sortTy a.2)) ++
        [("true", .term Term.tt), ("false", .term Term.ff)]) := by
    intro n hn hs
    rw [hF n hn, lookup_append, lookup_sorts]
    simp only [SEnv.lookupSort, Option.map_eq_none_iff] at hs
    rw [hs]; rfl
  have hA : ∀ n, env.lookupFun n = none → env.lookupSort n = none → env.lookupAlias n = none →
      lookup n (penvOf env).binds = lookup n [("true", .term Term.tt), ("false", .term Term.ff)] := by
    intro n hn hs ha
    rw [hS n hn hs, lookup_append, lookup_aliases]
    simp only [SEnv.lookupAlias, Option.map_eq_none_iff] at ha
    rw [ha]; rfl
  have hnoF : ∀ n, (n = "true" ∨ n = "false") → env.lookupFun n = none := by
    intro n hn
    cases hl : env.lookupFun n with
    | none => rfl
    | some s =>
      obtain ⟨hm, hname⟩ := find_name (f := fun s : Sym => s.name) hl
      have := (hfuns s hm).1
      simp only [nameOK1, Bool.and_eq_true, bne_iff_ne, ne_eq] at this
      rcases hn with rfl | rfl
      · exact absurd hname this.1.2
      · exact absurd hname this.2
  have hnoS : ∀ n, (n = "true" ∨ n = "false") → env.lookupSort n = none := by
    intro n hn
    cases hl : env.sorts.find? (fun d => d.1 == n) with
    | none => simp [SEnv.lookupSort, hl]
    | some d =>
      obtain ⟨hm, hname⟩ := find_name (f := fun d : String × Nat => d.1) hl
      have := (hsorts d hm).1
      simp only [nameOK1, Bool.and_eq_true, bne_iff_ne, ne_eq] at this
      rcases hn with rfl | rfl
      · exact absurd hname this.1.2
      · exact absurd hname this.2
  have hnoA : ∀ n, (n = "true" ∨ n = "false") → env.lookupAlias n = none := by
    intro n hn
    cases hl : env.aliases.find? (fun d => d.1 == n) with
    | none => simp [SEnv.lookupAlias, hl]
    | some d =>
      obtain ⟨hm, hname⟩ := find_name (f := fun d : String × Ty => d.1) hl
      have := (haliases d hm).1
      simp only [nameOK1, Bool.and_eq_true, bne_iff_ne, ne_eq] at this
      rcases hn with rfl | rfl
      · exact absurd hname this.1.2
      · exact absurd hname this.2
  refine ⟨?_, ?_, ?_, ?_, ?_, hdefs, ?_, ?_, ?_, ?_⟩
  · intro n t ty hl; simp [lookupScope] at hl
  · intro _
    rw [hA _ (hnoF _ (Or.inl rfl)) (hnoS _ (Or.inl rfl)) (hnoA _ (Or.inl rfl))]; rfl
  · intro _
    rw [hA _ (hnoF _ (Or.inr rfl)) (hnoS _ (Or.inr rfl)) (hnoA _ (Or.inr rfl))]; rfl
  · intro n s _ _ _ hlf
    show lookup n (_ ++ _) = _
    rw [lookup_append, lookup_funs]
    simp only [SEnv.lookupFun] at hlf
    rw [hlf]; rfl
  · intro n s hlf hp
    obtain ⟨hm, hname⟩ := find_name (f := fun s : Sym => s.name) hlf
    have := (hfuns s hm).2
    simp only [hp, Bool.false_or, Option.isNone_iff_eq_none] at this
    rw [← hname]; exact this
  · intro n v hl
    cases hlf : env.lookupFun n with
    | some s =>
      obtain ⟨hm, hname⟩ := find_name (f := fun s : Sym => s.name) hlf
      have := (hfuns s hm).1
      simp only [nameOK1, Bool.and_eq_true] at this
      rw [← hname]; exact this.1.1
    | none =>
      cases hls : env.sorts.find? (fun d => d.1 == n) with
      | some d =>
        obtain ⟨hm, hname⟩ := find_name (f := fun d : String × Nat => d.1) hls
        have := (hsorts d hm).1
        simp only [nameOK1, Bool.and_eq_true] at this
        rw [← hname]; exact this.1.1
      | none =>
        have hls' : env.lookupSort n = none := by simp [SEnv.lookupSort, hls]
        cases hla : env.aliases.find? (fun d => d.1 == n) with
        | some d =>
          obtain ⟨hm, hname⟩ := find_name (f := fun d : String × Ty => d.1) hla
          have := (haliases d hm).1
          simp only [nameOK1, Bool.and_eq_true] at this
          rw [← hname]; exact this.1.1
        | none =>
          have hla' : env.lookupAlias n = none := by simp [SEnv.lookupAlias, hla]
          rw [hA n hlf hls' hla'] at hl
          simp only [lookup] at hl
          split at hl
          · rename_i he; have : n = "true" := by have := he; simp at this; exact this.symm
            subst this; decide
          · split at hl
            · rename_i he; have : n = "false" := by have := he; simp at this; exact this.symm
              subst this; decide
            · cases hl
  · intro n hs
    have hfn : env.lookupFun n = none := by
      simp only [SEnv.lookupSort, Option.map_eq_some_iff] at hs
      obtain ⟨d, hd, _⟩ := hs
      obtain ⟨hm, hname⟩ := find_name (f := fun d : String × Nat => d.1) hd
      have := (hsorts d hm).2
      rw [hname] at this
      simpa using this
    rw [hF n hfn, lookup_append, lookup_sorts]
    simp only [SEnv.lookupSort, Option.map_eq_some_iff] at hs
    obtain ⟨d, hd, h0⟩ := hs
    obtain ⟨_, hname⟩ := find_name (f := fun d : String × Nat => d.1) hd
    rw [hd]
    simp only [Option.map, sortVal, h0, if_true, hname]
  · intro n ty hs ha
    have hfn : env.lookupFun n = none := by
      simp only [SEnv.lookupAlias, Option.map_eq_some_iff] at ha
      obtain ⟨d, hd, _⟩ := ha
      obtain ⟨hm, hname⟩ := find_name (f := fun d : String × Ty => d.1) hd
      have := (haliases d hm).2
      rw [hname] at this
      simpa using this
    rw [hS n hfn hs, lookup_append, lookup_aliases]
    simp only [SEnv.lookupAlias, Option.map_eq_some_iff] at ha
    obtain ⟨d, hd, hty⟩ := ha
    rw [hd]
    simp only [Option.map, hty]
  · rfl

theorem mgrLe_penvOf (env : SEnv) (ρ : List (String × Sym)) : MgrLe (penvOf env).mgr ρ := by
  intro e he; simp [penvOf] at he

end PySMT.Parser.Agree
