import PySMT.Proofs.C16Track
/-!
# C16, facts about the specification's item lists: `softOf`, `slots`, the item prefixes that were live at each
`push`, and the relation `Forall₂` used to match the implementation's goal list against `slots`.
-/

namespace PySMT.Proofs.C16
open PySMT.AssertStack

/-! ### `softOf` -/

theorem softOf_append (i : Nat) (a b : List Item) : softOf i (a ++ b) = softOf i a ++ softOf i b := by
  simp [softOf, List.filterMap_append]

theorem softOf_assert (i f : Nat) : softOf i [Item.assert f] = [] := by simp [softOf]
theorem softOf_objective (i g : Nat) : softOf i [Item.objective g] = [] := by simp [softOf]
theorem softOf_soft_same (i f w : Nat) : softOf i [Item.soft i f w] = [(f, w)] := by simp [softOf]
theorem softOf_soft_other {i j : Nat} (f w : Nat) (h : j ≠ i) : softOf i [Item.soft j f w] = [] := by
  simp [softOf, h]

theorem softOf_nil_of_append {i : Nat} {a b : List Item} (h : softOf i (a ++ b) = []) : softOf i a = [] := by
  rw [softOf_append] at h
  exact (List.append_eq_nil_iff.1 h).1

theorem snoc_induction {α : Type} {P : List α → Prop} (nil : P []) (snoc : ∀ l x, P l → P (l ++ [x])) :
    ∀ l, P l := by
  intro l
  have : ∀ r : List α, P r.reverse := by
    intro r
    induction r with
    | nil => exact nil
    | cons x r ih => simpa using snoc _ x ih
  simpa using this l.reverse

/-! ### `slotsFrom` -/

/-- what a new last item contributes to the slots -/
def slotOfLast (seen : List Nat) (before : List Item) : Item → List Slot
  | .assert _ => []
  | .objective g => [.obj g]
  | .soft i _ _ => if i ∈ seen ∨ softOf i before ≠ [] then [] else [.max i]

theorem slotsFrom_snoc (x : Item) : ∀ (a : List Item) (seen : List Nat),
    slotsFrom seen (a ++ [x]) = slotsFrom seen a ++ slotOfLast seen a x
  | [], seen => by
    cases x with
    | assert _ => simp [slotsFrom, slotOfLast]
    | objective _ => simp [slotsFrom, slotOfLast]
    | soft i f w => by_cases h : i ∈ seen <;> simp [slotsFrom, slotOfLast, softOf, h]
  | .assert _ :: r, seen => by
    have ih := slotsFrom_snoc x r seen
    cases x <;> simp_all [slotsFrom, slotOfLast, softOf]
  | .objective g :: r, seen => by
    have ih := slotsFrom_snoc x r seen
    cases x <;> simp_all [slotsFrom, slotOfLast, softOf]
  | .soft j f' w' :: r, seen => by
    by_cases hj : j ∈ seen
    · have ih := slotsFrom_snoc x r seen
      cases x with
      | assert _ => simp_all [slotsFrom, slotOfLast]
      | objective _ => simp_all [slotsFrom, slotOfLast]
      | soft i f w =>
        simp only [List.cons_append, slotsFrom, hj, if_true, ih, slotOfLast]
        by_cases hi : j = i
        · subst hi; simp [hj]
        · simp [softOf, hi]
    · have ih := slotsFrom_snoc x r (j :: seen)
      cases x with
      | assert _ => simp_all [slotsFrom, slotOfLast]
      | objective _ => simp_all [slotsFrom, slotOfLast]
      | soft i f w =>
        simp only [List.cons_append, slotsFrom, hj, if_false, ih, slotOfLast, List.cons_append]
        by_cases hi : j = i
        · subst hi; simp [softOf]
        · have : i ≠ j := fun h => hi h.symm
          simp [softOf, hi, this]

theorem slots_snoc (a : List Item) (x : Item) : slots (a ++ [x]) = slots a ++ slotOfLast [] a x :=
  slotsFrom_snoc x a []

theorem slots_assert (a : List Item) (f : Nat) : slots (a ++ [.assert f]) = slots a := by
  simp [slots_snoc, slotOfLast]

theorem slots_objective (a : List Item) (g : Nat) : slots (a ++ [.objective g]) = slots a ++ [.obj g] := by
  simp [slots_snoc, slotOfLast]

theorem slots_soft_old (a : List Item) (i f w : Nat) (h : softOf i a ≠ []) :
    slots (a ++ [.soft i f w]) = slots a := by
  simp [slots_snoc, slotOfLast, h]

theorem slots_soft_new (a : List Item) (i f w : Nat) (h : softOf i a = []) :
    slots (a ++ [.soft i f w]) = slots a ++ [.max i] := by
  simp [slots_snoc, slotOfLast, h]

/-- the slots of a prefix are a prefix of the slots -/
theorem slots_append (a : List Item) : ∀ b : List Item, ∃ t, slots (a ++ b) = slots a ++ t := by
  refine snoc_induction ⟨[], by simp⟩ ?_
  intro b x ih
  obtain ⟨t, ht⟩ := ih
  refine ⟨t ++ slotOfLast [] (a ++ b) x, ?_⟩
  rw [← List.append_assoc, slots_snoc, ht, List.append_assoc]

theorem slots_length_le (a b : List Item) : (slots a).length ≤ (slots (a ++ b)).length := by
  obtain ⟨t, ht⟩ := slots_append a b
  simp [ht]

theorem slots_take (a b : List Item) : (slots (a ++ b)).take (slots a).length = slots a := by
  obtain ⟨t, ht⟩ := slots_append a b
  simp [ht]

/-- an identifier has a slot exactly when it has a live soft clause -/
theorem mem_slots (i : Nat) (a : List Item) : Slot.max i ∈ slots a ↔ softOf i a ≠ [] := by
  revert a
  refine snoc_induction (by simp [slots, slotsFrom, softOf]) ?_
  intro a x ih
  · rw [slots_snoc, List.mem_append, ih, softOf_append]
    cases x with
    | assert f => simp [slotOfLast, softOf]
    | objective g => simp [slotOfLast, softOf]
    | soft j f w =>
      by_cases hj : j = i
      · subst hj
        by_cases h : softOf j a = [] <;> simp [slotOfLast, softOf_soft_same, h]
      · have hij : ¬ i = j := fun h => hj h.symm
        by_cases h : softOf j a = [] <;> simp [slotOfLast, softOf_soft_other _ _ hj, h, hij]

/-! ### stacks: items, pushed prefixes -/

theorem items_addItem (it : Item) (s : Stack) (h : s ≠ []) : items (addItem it s) = items s ++ [it] := by
  cases s with
  | nil => exact absurd rfl h
  | cons l ls => simp [addItem, items_cons]

theorem items_nil_level (s : Stack) : items ([] :: s) = items s := by simp [items_cons]

theorem items_init : items init = [] := by simp [items, init]

/-- the item lists that were live at each `push` still in force, most recent first -/
def prefs : Stack → List (List Item)
  | [] => []
  | [_] => []
  | _ :: l' :: ls => items (l' :: ls) :: prefs (l' :: ls)

theorem prefs_addItem (it : Item) (s : Stack) : prefs (addItem it s) = prefs s := by
  match s with
  | [] => simp [addItem, prefs]
  | [_] => simp [addItem, prefs]
  | _ :: _ :: _ => simp [addItem, prefs]

theorem prefs_push1 (s : Stack) (h : s ≠ []) : prefs ([] :: s) = items s :: prefs s := by
  match s, h with
  | l :: ls, _ => simp [prefs]

/-- every pushed prefix is a prefix of the live items -/
theorem prefs_prefix : ∀ (s : Stack) (P : List Item), P ∈ prefs s → ∃ t, items s = P ++ t
  | [], P, h => by simp [prefs] at h
  | [_], P, h => by simp [prefs] at h
  | l :: l' :: ls, P, h => by
    simp only [prefs, List.mem_cons] at h
    cases h with
    | inl h => exact ⟨l, by rw [h, items_cons]⟩
    | inr h =>
      obtain ⟨t, ht⟩ := prefs_prefix (l' :: ls) P h
      exact ⟨t ++ l, by rw [items_cons, ht, List.append_assoc]⟩

/-! ### element-wise relation between two lists -/

inductive Forall₂ {α β : Type} (R : α → β → Prop) : List α → List β → Prop
  | nil : Forall₂ R [] []
  | cons {a b l₁ l₂} : R a b → Forall₂ R l₁ l₂ → Forall₂ R (a :: l₁) (b :: l₂)

theorem forall₂_length {α β : Type} {R : α → β → Prop} {l₁ : List α} {l₂ : List β}
    (h : Forall₂ R l₁ l₂) : l₁.length = l₂.length := by
  induction h with
  | nil => rfl
  | cons _ _ ih => simp [ih]

theorem forall₂_append {α β : Type} {R : α → β → Prop} {l₁ l₁' : List α} {l₂ l₂' : List β}
    (h : Forall₂ R l₁ l₂) (h' : Forall₂ R l₁' l₂') : Forall₂ R (l₁ ++ l₁') (l₂ ++ l₂') := by
  induction h with
  | nil => simpa using h'
  | cons hab _ ih => exact Forall₂.cons hab ih

theorem forall₂_imp {α β : Type} {R S : α → β → Prop} {l₁ : List α} {l₂ : List β}
    (h : Forall₂ R l₁ l₂) (hi : ∀ a b, b ∈ l₂ → R a b → S a b) : Forall₂ S l₁ l₂ := by
  induction h with
  | nil => exact Forall₂.nil
  | cons hab _ ih =>
    exact Forall₂.cons (hi _ _ (by simp) hab) (ih fun a b hb => hi a b (by simp [hb]))

theorem forall₂_take {α β : Type} {R : α → β → Prop} {l₁ : List α} {l₂ : List β}
    (h : Forall₂ R l₁ l₂) (n : Nat) : Forall₂ R (l₁.take n) (l₂.take n) := by
  induction h generalizing n with
  | nil => simpa using Forall₂.nil
  | cons hab _ ih =>
    cases n with
    | zero => simpa using Forall₂.nil
    | succ n => simpa using Forall₂.cons hab (ih n)

theorem forall₂_map_eq {α β γ : Type} {R : α → β → Prop} {l₁ : List α} {l₂ : List β} (f : α → γ) (g : β → γ)
    (h : Forall₂ R l₁ l₂) (hfg : ∀ a b, R a b → f a = g b) : l₁.map f = l₂.map g := by
  induction h with
  | nil => rfl
  | cons hab _ ih => simp [hfg _ _ hab, ih]

end PySMT.Proofs.C16
