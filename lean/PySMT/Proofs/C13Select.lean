/-
C13, selection part: `get_closer_logic` and `most_generic_logic` (as translated) meet their
specification for *arbitrary* lists of supported logics.
-/
import PySMT.Proofs.C13Order
namespace PySMT.Logics

/-! ### the small Python prelude -/

theorem pyIndex0_ok {α : Type} {xs : List α} {r : α} (h : pyIndex0 xs = .ok r) : r ∈ xs := by
  cases xs with
  | nil => simp [pyIndex0] at h
  | cons x xs =>
    simp only [pyIndex0, Except.ok.injEq] at h
    subst h
    exact List.mem_cons_self

theorem pyIndex0_of_ne_nil {α : Type} {xs : List α} (h : xs ≠ []) : ∃ r, pyIndex0 xs = .ok r := by
  cases xs with
  | nil => exact absurd rfl h
  | cons x xs => exact ⟨x, rfl⟩

theorem mem_pyInsertBy {α : Type} (key : α → String) (x y : α) (xs : List α) :
    y ∈ pyInsertBy key x xs ↔ y = x ∨ y ∈ xs := by
  induction xs with
  | nil => simp [pyInsertBy]
  | cons z zs ih =>
    simp only [pyInsertBy]
    split
    · simp
    · simp only [List.mem_cons, ih]
      constructor
      · rintro (h | h | h)
        · exact .inr (.inl h)
        · exact .inl h
        · exact .inr (.inr h)
      · rintro (h | h | h)
        · exact .inr (.inl h)
        · exact .inl h
        · exact .inr (.inr h)

theorem mem_pySortedBy {α : Type} (key : α → String) (y : α) (xs : List α) :
    y ∈ pySortedBy key xs ↔ y ∈ xs := by
  induction xs with
  | nil => simp [pySortedBy]
  | cons z zs ih => simp only [pySortedBy, mem_pyInsertBy, ih, List.mem_cons]

theorem pySortedBy_ne_nil {α : Type} (key : α → String) {xs : List α} (h : xs ≠ []) :
    pySortedBy key xs ≠ [] := by
  cases xs with
  | nil => exact absurd rfl h
  | cons z zs =>
    intro hnil
    have : z ∈ pySortedBy key (z :: zs) := (mem_pySortedBy key z _).2 List.mem_cons_self
    rw [hnil] at this
    cases this

/-! ### a finite list with an antisymmetric, transitive relation has a minimal element -/

theorem exists_minimal {α : Type} (le : α → α → Bool)
    (trans : ∀ a b c, le a b = true → le b c = true → le a c = true) :
    ∀ (c : List α), c ≠ [] →
      (∀ a ∈ c, ∀ b ∈ c, le a b = true → le b a = true → a = b) →
      ∃ m ∈ c, ∀ k ∈ c, le k m = true → k = m := by
  intro c
  induction c with
  | nil => intro h; exact absurd rfl h
  | cons x xs ih =>
    intro _ anti
    cases xs with
    | nil =>
      refine ⟨x, List.mem_cons_self, ?_⟩
      intro k hk _
      simpa using hk
    | cons y ys =>
      have anti' : ∀ a ∈ y :: ys, ∀ b ∈ y :: ys, le a b = true → le b a = true → a = b :=
        fun a ha b hb => anti a (List.mem_cons_of_mem _ ha) b (List.mem_cons_of_mem _ hb)
      obtain ⟨m, hm, hmin⟩ := ih (by simp) anti'
      by_cases hx : le x m = true ∧ x ≠ m
      · -- x is strictly below the minimum of the tail: x is minimal
        refine ⟨x, List.mem_cons_self, ?_⟩
        intro k hk hkx
        rcases List.mem_cons.1 hk with rfl | hk'
        · rfl
        · have hkm : k = m := hmin k hk' (trans _ _ _ hkx hx.1)
          subst hkm
          exact anti k hk x List.mem_cons_self hkx hx.1
      · refine ⟨m, List.mem_cons_of_mem _ hm, ?_⟩
        intro k hk hkm
        rcases List.mem_cons.1 hk with rfl | hk'
        · by_cases hkm' : k = m
          · exact hkm'
          · exact absurd ⟨hkm, hkm'⟩ hx
        · exact hmin k hk' hkm

/-! ### `get_closer_logic` -/

/-- the result is supported, above the target, and no other supported logic lies in between -/
theorem get_closer_logic_spec (sup : List Logic) (tgt r : Logic)
    (h : get_closer_logic sup tgt = .ok r) : IsClosest Logic.le sup tgt r := by
  simp only [get_closer_logic] at h
  cases hc : ((List.filter (fun l => Logic.le tgt l) sup).length == 0) with
  | true => rw [hc] at h; simp at h
  | false =>
    rw [hc, cond_false] at h
    have hr := pyIndex0_ok h
    rw [mem_pySortedBy] at hr
    simp only [List.mem_filter, Bool.not_eq_true', List.any_eq_false, Bool.and_eq_true, not_and] at hr
    obtain ⟨⟨hsup, hle⟩, hmin⟩ := hr
    refine ⟨hsup, hle, ?_⟩
    rintro ⟨k, hk, htk, hkr, hne⟩
    have := hmin k ⟨hk, htk⟩ ((Logic.ne_iff r k).2 (Ne.symm hne))
    exact this hkr

/-- it raises `NoLogicAvailableError` exactly when nothing supported is above the target -/
theorem get_closer_logic_none (sup : List Logic) (tgt : Logic) :
    get_closer_logic sup tgt = .error .NoLogicAvailableError ↔ ∀ k ∈ sup, Logic.le tgt k = false := by
  simp only [get_closer_logic]
  cases hc : ((List.filter (fun l => Logic.le tgt l) sup).length == 0) with
  | true =>
    simp only [cond_true, true_iff]
    have : List.filter (fun l => Logic.le tgt l) sup = [] := by
      simpa using hc
    intro k hk
    have := List.filter_eq_nil_iff.1 this k hk
    simpa using this
  | false =>
    rw [cond_false]
    constructor
    · intro h
      have h0 : ∀ {xs : List Logic}, pyIndex0 xs ≠ .error .NoLogicAvailableError := by
        intro xs; cases xs <;> simp [pyIndex0]
      exact absurd h h0
    · intro h
      have : List.filter (fun l => Logic.le tgt l) sup = [] := by
        apply List.filter_eq_nil_iff.2
        intro k hk
        simp [h k hk]
      simp [this] at hc

/-- no `IndexError`: on a list without twins a closest logic is found whenever one is above the target -/
theorem get_closer_logic_total (sup : List Logic) (tgt : Logic) (hnt : NoTwins sup)
    (hex : ∃ k ∈ sup, Logic.le tgt k = true) : ∃ r, get_closer_logic sup tgt = .ok r := by
  obtain ⟨k0, hk0, hle0⟩ := hex
  simp only [get_closer_logic]
  have hmem0 : k0 ∈ List.filter (fun l => Logic.le tgt l) sup := List.mem_filter.2 ⟨hk0, hle0⟩
  have hne : List.filter (fun l => Logic.le tgt l) sup ≠ [] := List.ne_nil_of_mem hmem0
  have hc : ((List.filter (fun l => Logic.le tgt l) sup).length == 0) = false := by
    cases hl : List.filter (fun l => Logic.le tgt l) sup with
    | nil => exact absurd hl hne
    | cons _ _ => rfl
  rw [hc, cond_false]
  apply pyIndex0_of_ne_nil
  apply pySortedBy_ne_nil
  -- a minimal candidate survives the second filter
  have anti : ∀ a ∈ List.filter (fun l => Logic.le tgt l) sup,
      ∀ b ∈ List.filter (fun l => Logic.le tgt l) sup,
      Logic.le a b = true → Logic.le b a = true → a = b := by
    intro a ha b hb hab hba
    exact Logic.le_antisymm_of_noTwins hnt (List.mem_filter.1 ha).1 (List.mem_filter.1 hb).1 hab hba
  obtain ⟨m, hm, hmin⟩ := exists_minimal Logic.le Logic.le_trans _ hne anti
  apply List.ne_nil_of_mem (a := m)
  refine List.mem_filter.2 ⟨hm, ?_⟩
  simp only [Bool.not_eq_true', List.any_eq_false, Bool.and_eq_true, not_and]
  intro k hk hne' hkm
  exact ((Logic.ne_iff m k).1 hne') (hmin k hk hkm).symm

/-! ### `most_generic_logic` -/

theorem length_one {α : Type} {xs : List α} (h : (xs.length != 1) = false) : ∃ z, xs = [z] := by
  match xs, h with
  | [z], _ => exact ⟨z, rfl⟩
  | [], h => simp at h
  | _ :: _ :: _, h => simp at h

theorem most_generic_logic_spec (ls : List Logic) (r : Logic) (h : most_generic_logic ls = .ok r) :
    IsMostGeneric Logic.le ls r ∧ ∀ y, IsMostGeneric Logic.le ls y → y = r := by
  simp only [most_generic_logic] at h
  cases hc : ((List.filter (fun l => ls.all fun x => Logic.ge l x) ls).length != 1) with
  | true => rw [hc] at h; simp at h
  | false =>
    rw [hc, cond_false] at h
    obtain ⟨z, hz⟩ := length_one hc
    rw [hz] at h
    simp only [pyIndex0, Except.ok.injEq] at h
    subst h
    have hmem : ∀ y, y ∈ List.filter (fun l => ls.all fun x => Logic.ge l x) ls ↔ y = z := by
      intro y; rw [hz]; simp
    have key : ∀ y, IsMostGeneric Logic.le ls y ↔ y = z := by
      intro y
      rw [← hmem y]
      simp only [IsMostGeneric, List.mem_filter, List.all_eq_true, Logic.ge]
    exact ⟨(key z).2 rfl, fun y hy => (key y).1 hy⟩

/-- it raises exactly when there is not exactly one most generic member (counting multiplicity) -/
theorem most_generic_logic_ok_iff (ls : List Logic) :
    (∃ r, most_generic_logic ls = .ok r) ↔
      (List.filter (fun l => ls.all fun x => Logic.le x l) ls).length = 1 := by
  simp only [most_generic_logic, Logic.ge]
  cases hc : ((List.filter (fun l => ls.all fun x => Logic.le x l) ls).length != 1) with
  | true =>
    simp only [cond_true]
    constructor
    · rintro ⟨r, hr⟩; simp at hr
    · intro h; simp [h] at hc
  | false =>
    rw [cond_false]
    obtain ⟨z, hz⟩ := length_one hc
    rw [hz]
    simp [pyIndex0]

end PySMT.Logics
