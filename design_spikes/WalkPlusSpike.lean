import Mathlib.Tactic.Ring
/-! Spike for C01: soundness of the arithmetic normalisation rule `Simplifier.walk_plus` (simplifier.py:286-359):
    explicit work stack, flattening of nested sums, splitting of differences and negative-coefficient products,
    constant accumulation, final assembly. Integers only; the real-valued case is identical over `Rat`. -/
namespace PlusSpike

inductive A where
  | c (v : Int) | x (n : Nat)
  | plus (as : List A) | minus (a b : A) | times (as : List A)

def prod : List Int → Int | [] => 1 | a :: l => a * prod l

def ev (I : Nat → Int) : A → Int
  | .c v => v | .x n => I n
  | .plus as => (as.map (ev I)).sum
  | .minus a b => ev I a - ev I b
  | .times as => prod (as.map (ev I))

def size : A → Nat
  | .c _ => 1 | .x _ => 1
  | .plus as => 1 + (as.map size).sum
  | .minus a b => 1 + size a + size b
  | .times as => 1 + (as.map size).sum

/-- manager constructors with their arity normalisation -/
def mkPlus : List A → A | [a] => a | as => .plus as
def mkTimes : List A → A | [a] => a | as => .times as

theorem ev_mkPlus (I) (as : List A) (h : as ≠ []) : ev I (mkPlus as) = (as.map (ev I)).sum := by
  match as, h with
  | [a], _ => simp [mkPlus]
  | a :: b :: r, _ => simp [mkPlus, ev]
theorem ev_mkTimes (I) (as : List A) (h : as ≠ []) : ev I (mkTimes as) = prod (as.map (ev I)) := by
  match as, h with
  | [a], _ => simp [mkTimes, prod]
  | a :: b :: r, _ => simp [mkTimes, ev]

structure Acc where
  toSum : List A
  toSub : List A
  const : Int

def Acc.val (I : Nat → Int) (a : Acc) : Int := (a.toSum.map (ev I)).sum - (a.toSub.map (ev I)).sum + a.const

/-- what the loop does with one popped element that is not a nested sum -/
def classify (t : A) (a : Acc) : Acc :=
  match t with
  | .c v => { a with const := a.const + v }
  | .minus l r => { a with toSum := a.toSum ++ [l], toSub := a.toSub ++ [r] }
  | .times as =>
    match as.getLast? with
    | some (.c k) =>
      if k < 0 then
        let rest := as.dropLast
        let newArgs := if k = -1 then rest else rest ++ [.c (-k)]
        if newArgs = [] then { a with toSum := a.toSum ++ [t] }      -- cannot happen for Normal terms (≥ 2 arguments)
        else { a with toSub := a.toSub ++ [mkTimes newArgs] }
      else { a with toSum := a.toSum ++ [t] }
    | _ => { a with toSum := a.toSum ++ [t] }
  | t => { a with toSum := a.toSum ++ [t] }

theorem sum_append (l1 l2 : List Int) : (l1 ++ l2).sum = l1.sum + l2.sum := by
  induction l1 with
  | nil => simp
  | cons a l ih => simp [ih]; ring

theorem prod_append (l : List Int) (k : Int) : prod (l ++ [k]) = prod l * k := by
  induction l with
  | nil => simp [prod]
  | cons a l ih => simp only [List.cons_append, prod, ih]; ring

theorem dropLast_getLast (as : List A) (z : A) (h : as.getLast? = some z) : as = as.dropLast ++ [z] := by
  have hne : as ≠ [] := by intro h'; simp [h'] at h
  have := List.dropLast_concat_getLast hne
  rw [List.getLast?_eq_getLast hne] at h
  simp at h; rw [← h]; exact this.symm

theorem classify_val (I) (t : A) (a : Acc) (hnp : ∀ as, t ≠ .plus as) :
    (classify t a).val I = a.val I + ev I t := by
  cases t with
  | c v => simp [classify, Acc.val, ev]; ring
  | x n => simp [classify, Acc.val, ev, sum_append]; ring
  | plus as => exact absurd rfl (hnp as)
  | minus l r => simp [classify, Acc.val, ev, sum_append]; ring
  | times as =>
    simp only [classify]
    cases hl : as.getLast? with
    | none => simp [Acc.val, sum_append]; ring
    | some z =>
      cases z with
      | c k =>
        simp only
        by_cases hk : k < 0
        · simp only [hk, if_true]
          have has := dropLast_getLast as _ hl
          have hev : ev I (.times as) = prod (as.dropLast.map (ev I)) * k := by
            rw [ev]; conv => lhs; rw [has]
            rw [List.map_append, List.map_cons, List.map_nil, prod_append, ev]
          by_cases hk1 : k = -1
          · simp only [hk1, if_true]
            by_cases hr : as.dropLast = []
            · simp [hr, Acc.val, sum_append]; ring
            · simp only [hr, if_false, Acc.val, List.map_append, sum_append, List.map_cons, List.map_nil]
              rw [ev_mkTimes I _ hr, hev, hk1]; simp only [List.sum_cons, List.sum_nil]; ring
          · simp only [hk1, if_false]
            have hne : as.dropLast ++ [A.c (-k)] ≠ [] := by simp
            simp only [hne, if_false, Acc.val, List.map_append, sum_append, List.map_cons, List.map_nil]
            rw [ev_mkTimes I _ hne, hev, List.map_append, List.map_cons, List.map_nil, prod_append, ev]; simp only [List.sum_cons, List.sum_nil]; ring
        · simp [hk, Acc.val, sum_append]; ring
      | x n => simp [Acc.val, sum_append]; ring
      | plus _ => simp [Acc.val, sum_append]; ring
      | minus _ _ => simp [Acc.val, sum_append]; ring
      | times _ => simp [Acc.val, sum_append]; ring

theorem size_pos (t : A) : 0 < size t := by cases t <;> simp [size] <;> omega

/-- the `while stack:` loop; head of the list = top of the Python stack -/
def go : List A → Acc → Acc
  | [], a => a
  | .plus as :: rest, a => go (as.reverse ++ rest) a
  | .c v :: rest, a => go rest (classify (.c v) a)
  | .x n :: rest, a => go rest (classify (.x n) a)
  | .minus l r :: rest, a => go rest (classify (.minus l r) a)
  | .times ts :: rest, a => go rest (classify (.times ts) a)
termination_by stack _ => (stack.map size).sum
decreasing_by
  all_goals simp_wf
  · simp only [List.map_append, List.sum_append, List.map_reverse, List.sum_reverse, size]; omega
  all_goals (simp only [size]; omega)

theorem go_val (I) : ∀ (stack : List A) (a : Acc), (go stack a).val I = a.val I + (stack.map (ev I)).sum
  | [], a => by simp [go]
  | .plus as :: rest, a => by
    rw [go, go_val I (as.reverse ++ rest) a]
    simp [ev, List.map_append, sum_append, List.sum_reverse]
  | .c v :: rest, a => by
    rw [go, go_val I rest _, classify_val I (.c v) a (by intro as h; cases h)]; simp; ring
  | .x n :: rest, a => by
    rw [go, go_val I rest _, classify_val I (.x n) a (by intro as h; cases h)]; simp; ring
  | .minus l r :: rest, a => by
    rw [go, go_val I rest _, classify_val I (.minus l r) a (by intro as h; cases h)]; simp; ring
  | .times ts :: rest, a => by
    rw [go, go_val I rest _, classify_val I (.times ts) a (by intro as h; cases h)]; simp; ring
termination_by stack _ => (stack.map size).sum
decreasing_by
  all_goals simp_wf
  · simp only [List.map_append, List.sum_append, List.map_reverse, List.sum_reverse, size]; omega
  all_goals (simp only [size]; omega)

/-- final assembly of `walk_plus` -/
def assemble (a : Acc) : A :=
  if a.toSum = [] ∧ a.toSub = [] then .c a.const
  else
    let toSum := if a.const = 0 then a.toSum else a.toSum ++ [.c a.const]
    match toSum, a.toSub with
    | [], sub => mkTimes [.c (-1), mkPlus sub]
    | s, [] => mkPlus s
    | s, sub => .minus (mkPlus s) (mkPlus sub)

def walkPlus (args : List A) : A := assemble (go args.reverse ⟨[], [], 0⟩)

theorem assemble_val (I) (a : Acc) : ev I (assemble a) = a.val I := by
  unfold assemble
  by_cases h : a.toSum = [] ∧ a.toSub = []
  · simp [h, ev, Acc.val]
  · simp only [h, if_false]
    by_cases hc : a.const = 0
    · simp only [hc, if_true]
      cases hs : a.toSum with
      | nil =>
        have hsub : a.toSub ≠ [] := by intro h'; exact h ⟨hs, h'⟩
        simp only [mkTimes, ev, List.map_cons, List.map_nil, prod, ev_mkPlus I _ hsub, Acc.val, hs, hc]
        simp; 
      | cons s ss =>
        cases hb : a.toSub with
        | nil => simp [ev_mkPlus, Acc.val, hs, hb, hc]
        | cons b bs => simp [ev, ev_mkPlus, Acc.val, hs, hb, hc]
    · simp only [hc, if_false]
      have hne : a.toSum ++ [A.c a.const] ≠ [] := by simp
      cases hs : a.toSum ++ [A.c a.const] with
      | nil => exact absurd hs hne
      | cons s ss =>
        have hsum : ((s :: ss).map (ev I)).sum = (a.toSum.map (ev I)).sum + a.const := by
          rw [← hs, List.map_append, sum_append]; simp [ev]
        cases hb : a.toSub with
        | nil => simp only [ev_mkPlus I _ (List.cons_ne_nil s ss), hsum, Acc.val, hb]; simp
        | cons b bs =>
          simp only [ev, ev_mkPlus I _ (List.cons_ne_nil s ss), ev_mkPlus I _ (List.cons_ne_nil b bs), hsum, Acc.val, hb]; ring

/-- local soundness of the rule: the rebuilt term denotes the sum of the (already simplified) arguments -/
theorem walkPlus_sound (I) (args : List A) : ev I (walkPlus args) = (args.map (ev I)).sum := by
  unfold walkPlus
  rw [assemble_val, go_val]
  simp [Acc.val, List.sum_reverse]

#print axioms walkPlus_sound
end PlusSpike
