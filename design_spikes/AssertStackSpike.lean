/-! Spike for C16: the replay loop of `SmtLibScript.get_last_formula` / `IncrementalTrackingSolver`
    (flat assertion list + list of backtrack lengths) refines the SMT-LIB assertion stack (list of levels),
    for every legal command sequence with multi-level push/pop and reset-assertions. -/
namespace AStack

inductive Cmd | assert (f : Nat) | push (n : Nat) | pop (n : Nat) | reset | check

/-- specification: SMT-LIB assertion stack, innermost level first; never empty -/
structure Spec where
  levels : List (List Nat)     -- each level: assertions in order of assertion
  deriving Repr, DecidableEq

def Spec.init : Spec := ⟨[[]]⟩
def Spec.live (s : Spec) : List Nat := (s.levels.reverse).flatten
def Spec.legal (s : Spec) : Cmd → Bool
  | .pop n => decide (n < s.levels.length)
  | _ => true
def Spec.step (s : Spec) : Cmd → Spec
  | .assert f => match s.levels with
      | [] => ⟨[[f]]⟩
      | l :: ls => ⟨(l ++ [f]) :: ls⟩
  | .push n => ⟨List.replicate n [] ++ s.levels⟩
  | .pop n => ⟨s.levels.drop n⟩
  | .reset => Spec.init
  | .check => s

/-- implementation model: flat stack + backtrack points (script.py:272-300, solver.py:377-392) -/
structure Impl where
  stack : List Nat
  backtrack : List Nat         -- most recent first
  deriving Repr, DecidableEq

def Impl.init : Impl := ⟨[], []⟩
def popOnce (i : Impl) : Impl :=
  match i.backtrack with
  | [] => i                      -- Python would raise IndexError; excluded by legality
  | l :: bs => ⟨i.stack.take l, bs⟩
def Impl.step (i : Impl) : Cmd → Impl
  | .assert f => ⟨i.stack ++ [f], i.backtrack⟩
  | .push n => ⟨i.stack, List.replicate n i.stack.length ++ i.backtrack⟩
  | .pop n => (List.range n).foldl (fun acc _ => popOnce acc) i
  | .reset => ⟨[], []⟩
  | .check => i

/-- simulation relation: backtrack points are the cumulative lengths of the outer levels -/
def R : List (List Nat) → Impl → Prop
  | [], _ => False
  | [l], i => i.stack = l ∧ i.backtrack = []
  | l :: (l' :: ls), i =>
      ∃ outer, R (l' :: ls) ⟨outer, i.backtrack.tail⟩ ∧ i.backtrack.head? = some outer.length ∧ i.stack = outer ++ l

theorem R_live : ∀ (ls : List (List Nat)) (i : Impl), R ls i → i.stack = (ls.reverse).flatten
  | [], _, h => by simp [R] at h
  | [l], i, h => by simp [R] at h; simp [h.1]
  | l :: l' :: ls, i, h => by
    obtain ⟨outer, hr, _, hs⟩ := h
    have := R_live (l' :: ls) _ hr
    simp only at this
    simp [hs, this, List.reverse_cons, List.flatten_append]

theorem R_assert (f : Nat) : ∀ (l : List Nat) (ls : List (List Nat)) (i : Impl), R (l :: ls) i →
    R ((l ++ [f]) :: ls) ⟨i.stack ++ [f], i.backtrack⟩
  | l, [], i, h => by simp [R] at h ⊢; simp [h.1, h.2]
  | l, l' :: ls, i, h => by
    obtain ⟨outer, hr, hh, hs⟩ := h
    exact ⟨outer, hr, hh, by simp [hs]⟩

theorem R_push1 : ∀ (l : List Nat) (ls : List (List Nat)) (i : Impl), R (l :: ls) i →
    R ([] :: l :: ls) ⟨i.stack, i.stack.length :: i.backtrack⟩ := by
  intro l ls i h
  exact ⟨i.stack, by simpa using h, by simp, by simp⟩

theorem R_pop1 : ∀ (l l' : List Nat) (ls : List (List Nat)) (i : Impl), R (l :: l' :: ls) i →
    R (l' :: ls) (popOnce i) := by
  intro l l' ls i h
  obtain ⟨outer, hr, hh, hs⟩ := h
  unfold popOnce
  cases hb : i.backtrack with
  | nil => simp [hb] at hh
  | cons b bs =>
    simp only [hb, List.head?_cons, Option.some.injEq] at hh
    simp only [hb, List.tail_cons] at hr
    simp only
    have : i.stack.take b = outer := by rw [hs, hh]; simp
    rw [this]; exact hr


theorem R_nonempty : ∀ (ls : List (List Nat)) (i : Impl), R ls i → ls ≠ []
  | [], _, h => by simp [R] at h
  | _ :: _, _, _ => by simp

theorem R_pushN : ∀ (n : Nat) (ls : List (List Nat)) (i : Impl), R ls i →
    R (List.replicate n [] ++ ls) ⟨i.stack, List.replicate n i.stack.length ++ i.backtrack⟩
  | 0, ls, i, h => by simpa using h
  | n+1, ls, i, h => by
    have ih := R_pushN n ls i h
    cases hl : (List.replicate n ([] : List Nat) ++ ls) with
    | nil => exact absurd hl (R_nonempty _ _ ih)
    | cons l rest =>
      rw [hl] at ih
      have := R_push1 l rest _ ih
      simp only [List.replicate_succ, List.cons_append, hl]
      simpa using this

def popN (n : Nat) (i : Impl) : Impl := (List.range n).foldl (fun acc _ => popOnce acc) i

theorem popN_succ (n : Nat) (i : Impl) : popN (n+1) i = popN n (popOnce i) := by
  unfold popN
  rw [List.range_succ_eq_map, List.foldl_cons, List.foldl_map]

theorem R_popN : ∀ (n : Nat) (ls : List (List Nat)) (i : Impl), n < ls.length → R ls i → R (ls.drop n) (popN n i)
  | 0, ls, i, _, h => by simpa [popN] using h
  | n+1, [], i, hn, _ => by simp at hn
  | n+1, [l], i, hn, _ => by simp at hn
  | n+1, l :: l' :: ls, i, hn, h => by
    rw [popN_succ]
    have := R_pop1 l l' ls i h
    have ih := R_popN n (l' :: ls) (popOnce i) (by simp at hn ⊢; omega) this
    simpa using ih

theorem R_step (s : Spec) (i : Impl) (c : Cmd) (h : R s.levels i) (hl : s.legal c = true) :
    R (s.step c).levels (i.step c) := by
  cases c with
  | assert f =>
    cases hs : s.levels with
    | nil => exact absurd hs (R_nonempty _ _ h)
    | cons l ls =>
      rw [hs] at h
      simpa [Spec.step, Impl.step, hs] using R_assert f l ls i h
  | push n => simpa [Spec.step, Impl.step] using R_pushN n _ i h
  | pop n =>
    simp only [Spec.legal, decide_eq_true_eq] at hl
    simpa [Spec.step, Impl.step, popN] using R_popN n _ i hl h
  | reset => simp [Spec.step, Impl.step, Spec.init, R]
  | check => simpa [Spec.step, Impl.step] using h

/-- run both machines; `none` as soon as a command is illegal in SMT-LIB -/
def runBoth : List Cmd → Spec → Impl → Option (Spec × Impl)
  | [], s, i => some (s, i)
  | c :: cs, s, i => if s.legal c then runBoth cs (s.step c) (i.step c) else none

theorem refines : ∀ (cs : List Cmd) (s : Spec) (i : Impl), R s.levels i →
    ∀ s' i', runBoth cs s i = some (s', i') → i'.stack = s'.live
  | [], s, i, h, s', i', hr => by
    simp [runBoth] at hr; obtain ⟨rfl, rfl⟩ := hr
    exact R_live _ _ h
  | c :: cs, s, i, h, s', i', hr => by
    unfold runBoth at hr
    by_cases hl : s.legal c = true
    · simp [hl] at hr
      exact refines cs _ _ (R_step s i c h hl) s' i' hr
    · simp [hl] at hr

/-- from the initial states: after any legal script the reported list is exactly the live assertions -/
theorem script_refines_stack (cs : List Cmd) (s' : Spec) (i' : Impl)
    (h : runBoth cs Spec.init Impl.init = some (s', i')) : i'.stack = s'.live :=
  refines cs Spec.init Impl.init (by simp [Spec.init, Impl.init, R]) s' i' h

example : runBoth [.assert 1, .push 2, .assert 2, .pop 1, .assert 3, .push 1, .assert 4, .pop 2, .assert 5] Spec.init Impl.init
    = some (⟨[[1, 5]]⟩, ⟨[1, 5], []⟩) := by decide

#print axioms script_refines_stack
end AStack
