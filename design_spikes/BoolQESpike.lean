/-! Spike for C10: the two Boolean quantifier-elimination procedures (Shannon expansion and self-substitution,
    qelim.py:70-153) on quantifier-free bodies, for one variable; the n-variable versions iterate these. -/
namespace QESpike

inductive F where
  | atom (n : Nat) | tru | fls
  | not (f : F) | and (fs : List F) | or (fs : List F) | iff (a b : F) | ite (c t e : F)

abbrev Env := Nat → Bool
def upd (I : Env) (x : Nat) (v : Bool) : Env := fun y => if y = x then v else I y

def ev (I : Env) : F → Bool
  | .atom n => I n | .tru => true | .fls => false
  | .not f => !ev I f
  | .and fs => (fs.map (ev I)).all id
  | .or fs => (fs.map (ev I)).any id
  | .iff a b => ev I a == ev I b
  | .ite c t e => if ev I c then ev I t else ev I e

def sub (x : Nat) (g : F) : F → F
  | .atom n => if n = x then g else .atom n
  | .tru => .tru | .fls => .fls
  | .not f => .not (sub x g f)
  | .and fs => .and (fs.map (sub x g))
  | .or fs => .or (fs.map (sub x g))
  | .iff a b => .iff (sub x g a) (sub x g b)
  | .ite c t e => .ite (sub x g c) (sub x g t) (sub x g e)

theorem sub_lemma (x : Nat) (g : F) (I : Env) : ∀ f : F, ev I (sub x g f) = ev (upd I x (ev I g)) f
  | .atom n => by by_cases h : n = x <;> simp [sub, ev, upd, h]
  | .tru => by simp [sub, ev]
  | .fls => by simp [sub, ev]
  | .not f => by simp [sub, ev, sub_lemma x g I f]
  | .and fs => by
    simp only [sub, ev, List.map_map]; congr 1
    apply List.map_congr_left; intro a _; exact sub_lemma x g I a
  | .or fs => by
    simp only [sub, ev, List.map_map]; congr 1
    apply List.map_congr_left; intro a _; exact sub_lemma x g I a
  | .iff a b => by simp [sub, ev, sub_lemma x g I a, sub_lemma x g I b]
  | .ite c t e => by simp [sub, ev, sub_lemma x g I c, sub_lemma x g I t, sub_lemma x g I e]

def evAll (I : Env) (x : Nat) (f : F) : Bool := ev (upd I x false) f && ev (upd I x true) f
def evEx  (I : Env) (x : Nat) (f : F) : Bool := ev (upd I x false) f || ev (upd I x true) f

/-- Shannon: ∀x.f ≡ f[x:=⊥] ∧ f[x:=⊤],  ∃x.f ≡ f[x:=⊥] ∨ f[x:=⊤] -/
theorem shannon_all (I : Env) (x : Nat) (f : F) : ev I (.and [sub x .fls f, sub x .tru f]) = evAll I x f := by
  simp [ev, evAll, sub_lemma]
theorem shannon_ex (I : Env) (x : Nat) (f : F) : ev I (.or [sub x .fls f, sub x .tru f]) = evEx I x f := by
  simp [ev, evEx, sub_lemma]

/-- self-substitution: ∃x.f ≡ f[x := f[x:=⊤]],  ∀x.f ≡ f[x := f[x:=⊥]] -/
theorem selfsub_ex (I : Env) (x : Nat) (f : F) : ev I (sub x (sub x .tru f) f) = evEx I x f := by
  rw [sub_lemma, sub_lemma]
  simp only [ev, evEx]
  cases h1 : ev (upd I x true) f <;> cases h0 : ev (upd I x false) f <;> simp [h1, h0]
theorem selfsub_all (I : Env) (x : Nat) (f : F) : ev I (sub x (sub x .fls f) f) = evAll I x f := by
  rw [sub_lemma, sub_lemma]
  simp only [ev, evAll]
  cases h1 : ev (upd I x true) f <;> cases h0 : ev (upd I x false) f <;> simp [h1, h0]

#print axioms selfsub_ex
end QESpike
