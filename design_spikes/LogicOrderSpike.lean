import GenL
namespace GenL
def idLe (sia sid oia oid : Bool) : Bool :=
  if sid == oid then true else if sid && oia then true else if !sia && oia then true else false
def linLe (s o : Bool) : Bool := if s == o then true else if s && !o then true else false

def Theory.le (s o : Theory) : Bool :=
  let leID := idLe s.integer_arithmetic s.integer_difference o.integer_arithmetic o.integer_difference
  let leRD := idLe s.real_arithmetic s.real_difference o.real_arithmetic o.real_difference
  let leLin := linLe s.linear o.linear
  (s.arrays ≤ o.arrays) && (s.arrays_const ≤ o.arrays_const) && (s.bit_vectors ≤ o.bit_vectors) &&
  (s.floating_point ≤ o.floating_point) && (s.uninterpreted ≤ o.uninterpreted) && (s.custom_type ≤ o.custom_type) &&
  leID && (s.integer_arithmetic ≤ o.integer_arithmetic) && leRD && (s.real_arithmetic ≤ o.real_arithmetic) &&
  leLin && (s.strings ≤ o.strings)

theorem ble_trans : ∀ a b c : Bool, a ≤ b → b ≤ c → a ≤ c := by decide
theorem ble_antisymm : ∀ a b : Bool, a ≤ b → b ≤ a → a = b := by decide
theorem idLe_trans : ∀ a1 a2 b1 b2 c1 c2 : Bool, a1 ≤ b1 → b1 ≤ c1 →
    idLe a1 a2 b1 b2 = true → idLe b1 b2 c1 c2 = true → idLe a1 a2 c1 c2 = true := by decide
theorem idLe_antisymm : ∀ a1 a2 b1 b2 : Bool, a1 ≤ b1 → b1 ≤ a1 →
    idLe a1 a2 b1 b2 = true → idLe b1 b2 a1 a2 = true → a2 = b2 := by decide
theorem linLe_trans : ∀ a b c : Bool, linLe a b = true → linLe b c = true → linLe a c = true := by decide

theorem Theory.le_trans (a b c : Theory) : a.le b = true → b.le c = true → a.le c = true := by
  simp only [Theory.le, Bool.and_eq_true, decide_eq_true_eq]
  intro ⟨⟨⟨⟨⟨⟨⟨⟨⟨⟨⟨p1,p2⟩,p3⟩,p4⟩,p5⟩,p6⟩,p7⟩,p8⟩,p9⟩,p10⟩,p11⟩,p12⟩
  intro ⟨⟨⟨⟨⟨⟨⟨⟨⟨⟨⟨q1,q2⟩,q3⟩,q4⟩,q5⟩,q6⟩,q7⟩,q8⟩,q9⟩,q10⟩,q11⟩,q12⟩
  refine ⟨⟨⟨⟨⟨⟨⟨⟨⟨⟨⟨?_,?_⟩,?_⟩,?_⟩,?_⟩,?_⟩,?_⟩,?_⟩,?_⟩,?_⟩,?_⟩,?_⟩
  · exact ble_trans _ _ _ p1 q1
  · exact ble_trans _ _ _ p2 q2
  · exact ble_trans _ _ _ p3 q3
  · exact ble_trans _ _ _ p4 q4
  · exact ble_trans _ _ _ p5 q5
  · exact ble_trans _ _ _ p6 q6
  · exact idLe_trans _ _ _ _ _ _ p8 q8 p7 q7
  · exact ble_trans _ _ _ p8 q8
  · exact idLe_trans _ _ _ _ _ _ p10 q10 p9 q9
  · exact ble_trans _ _ _ p10 q10
  · exact linLe_trans _ _ _ p11 q11
  · exact ble_trans _ _ _ p12 q12

-- lift to the table without enumerating triples
def Logic.le (a b : Logic) : Bool := a.th.le b.th && (decide (a.qf ≥ b.qf))
theorem Logic.le_trans (a b c : Logic) : a.le b = true → b.le c = true → a.le c = true := by
  simp only [Logic.le, Bool.and_eq_true, decide_eq_true_eq]
  intro ⟨h1, h2⟩ ⟨h3, h4⟩
  exact ⟨Theory.le_trans _ _ _ h1 h3, ble_trans _ _ _ h4 h2⟩

theorem table_no_twins : ∀ a ∈ logics, ∀ b ∈ logics, a.th = b.th → a.qf = b.qf → a.name = b.name := by
  decide +kernel
#print axioms Theory.le_trans
#print axioms table_no_twins
end GenL
