import warnings; warnings.simplefilter("ignore")
from pysmt.shortcuts import *
from pysmt.typing import *
from pysmt.exceptions import *
def tr(name, f):
    try:
        print(name, "=>", f())
    except Exception as e:
        print(name, "=> EXC", type(e).__name__, str(e)[:160])
x = Symbol("x", INT); y = Symbol("y", INT); b = Symbol("b"); c=Symbol("c")
r = Symbol("r", REAL)
# C15: failing substitution then reuse
f = And(LE(x, Int(3)), Or(b, LE(Plus(x, y), Int(5))), Not(c))
good = f.substitute({x: Int(1)})
print("good", good)
tr("bad subst", lambda: f.substitute({x: Real(1)}))
env = get_env()
print("stack len after failure", len(env.substituter.stack), "memo", len(env.substituter.memoization))
tr("after-failure subst y->2", lambda: f.substitute({y: Int(2)}))
tr("after-failure subst other", lambda: And(b, c).substitute({b: c}))
reset_env()
x = Symbol("x", INT); y = Symbol("y", INT); b = Symbol("b"); c=Symbol("c")
f = And(LE(x, Int(3)), Or(b, LE(Plus(x, y), Int(5))), Not(c))
print("twin:", f.substitute({y: Int(2)}))
# simplifier failure? 
reset_env()
x = Symbol("x", INT)
tr("pow zero neg", lambda: Pow(Ite(Symbol("b"), Int(0), Int(0)), Int(-1)).simplify())
env = get_env()
print("simplifier stack", len(env.simplifier.stack))
tr("simplify after", lambda: And(Symbol("b"), TRUE()).simplify())
# type checker: ill-typed node registered
reset_env()
x = Symbol("x", INT); r = Symbol("r", REAL)
n0 = len(get_env().formula_manager.formulae)
tr("ill-typed", lambda: Plus(x, r))
print("formulae grew by", len(get_env().formula_manager.formulae)-n0)
tr("ill-typed again", lambda: Plus(x, r))
tr("equals bool", lambda: Equals(Symbol("b"), Symbol("c")))
tr("equals bool again", lambda: Equals(Symbol("b"), Symbol("c")))
tr("bvult int bv", lambda: BVULT(x, Symbol("v", BV8)))
tr("equals fun", lambda: Equals(Symbol("ff", FunctionType(INT,[INT])), Symbol("ff", FunctionType(INT,[INT]))).get_type())
tr("rol neg", lambda: BVRol(Symbol("v", BV8), -1))
tr("forall const", lambda: ForAll([Int(1)], Symbol("b")))
tr("ITE funs", lambda: Ite(Symbol("b"), Symbol("ff", FunctionType(INT,[INT])), Symbol("ff", FunctionType(INT,[INT]))))
