import warnings; warnings.simplefilter("ignore")
import sys, time
from pysmt.shortcuts import *
from pysmt.typing import *
from pysmt.rewritings import nnf, aig, prenex_normal_form, cnf
from pysmt.smtlib.parser import SmtLibParser
from io import StringIO
def tr(name, f):
    t=time.time()
    try:
        r = f()
        print(name, "=> ok", time.time()-t)
    except BaseException as e:
        print(name, "=> EXC", type(e).__name__, str(e)[:100])
N=20000
b = Symbol("b"); v = Symbol("v", BV8); w = Symbol("w", BV8)
x = Symbol("x", INT)
def deep_and():
    f = b
    for i in range(N):
        f = And(f, Symbol("p%d"%(i%7)))
    return f
def deep_ite_bv():
    f = v
    for i in range(N):
        f = Ite(Symbol("p%d"%(i%7)), f, w)
    return f
def deep_ite_bv2():
    f = v
    for i in range(N):
        f = Ite(Symbol("p%d"%(i%7)), w, f)
    return f
def deep_plus():
    f = x
    for i in range(N):
        f = Plus(f, Int(i%3))
    return f
def deep_store():
    a = Symbol("a", ArrayType(INT, INT))
    for i in range(N):
        a = Store(a, Int(i), x)
    return a
def deep_bvadd():
    f = v
    for i in range(N):
        f = BVAdd(f, w)
    return f
tr("build and", deep_and)
f = deep_and()
tr("simplify and", lambda: f.simplify())
tr("fv and", lambda: f.get_free_variables())
tr("subst and", lambda: f.substitute({b: Symbol("p0")}))
tr("nnf and", lambda: nnf(Not(f)))
tr("aig and", lambda: aig(f))
tr("to_smtlib dag", lambda: f.to_smtlib(daggify=True))
s = f.to_smtlib(daggify=True)
tr("parse dag", lambda: SmtLibParser().get_script(StringIO("".join("(declare-fun p%d () Bool)"%i for i in range(7))+"(declare-fun b () Bool)(assert %s)"%s)))
tr("get_logic", lambda: get_logic(f))
tr("size", lambda: f.size())
tr("atoms", lambda: f.get_atoms())
tr("serialize HR", lambda: f.serialize())
tr("to_smtlib tree", lambda: f.to_smtlib(daggify=False))
tr("build ite bv (then)", deep_ite_bv)
g = deep_ite_bv()
tr("bvnot of deep ite(then)", lambda: BVNot(g))
g2 = deep_ite_bv2()
tr("bvnot of deep ite(else)", lambda: BVNot(g2))
tr("bv_width deep ite", lambda: g.bv_width())
tr("build plus", deep_plus)
h = deep_plus()
tr("simplify plus", lambda: h.simplify())
tr("build store", deep_store)
tr("simplify store", lambda: deep_store().simplify())
tr("bvadd", deep_bvadd)
tr("simplify bvadd", lambda: deep_bvadd().simplify())
tr("prenex", lambda: prenex_normal_form(f))
tr("cnf", lambda: cnf(f))
