#!/usr/bin/env python3
# minimal strict SMT-LIB front-end (scratch): tracks declarations per level, always answers sat, values = false/0
import sys, re
levels=[set()]
def toks(s): return re.findall(r'\(|\)|\|[^|]*\||"[^"]*"|[^\s()]+', s)
def syms(t): return [x for x in t if re.match(r'^[A-Za-z_.|]', x)]
log=open("/tmp/mini_ref.log","w")
for line in sys.stdin:
    line=line.strip()
    if not line: continue
    log.write(line+"\n"); log.flush()
    t=toks(line)
    cmd=t[1]
    def out(s):
        log.write("  -> "+s+"\n"); log.flush()
        print(s, flush=True)
    if cmd in ("set-option","set-logic","set-info"): out("success")
    elif cmd=="declare-fun" or cmd=="declare-const":
        n=t[2]
        if any(n in l for l in levels): out('(error "already declared %s")'%n)
        else: levels[-1].add(n); out("success")
    elif cmd=="assert":
        known={"and","or","not","let","=","true","false","=>","ite"}
        bad=[x for x in syms(t[2:]) if x not in known and not x.startswith(".def") and not any(x in l for l in levels)]
        if bad: out('(error "unknown symbol %s")'%bad[0])
        else: out("success")
    elif cmd=="push":
        for _ in range(int(t[2])): levels.append(set())
        out("success")
    elif cmd=="pop":
        n=int(t[2])
        if n>=len(levels): out('(error "pop too many")')
        else:
            for _ in range(n): levels.pop()
            out("success")
    elif cmd=="reset-assertions":
        levels=[set()]; out("success")
    elif cmd=="check-sat": out("sat")
    elif cmd=="get-value":
        n=t[3]
        if not any(n in l for l in levels): out('(error "unknown %s")'%n)
        else: out("((%s false))"%n)
    elif cmd=="exit": break
    else: out('(error "unsupported")')
