import warnings; warnings.simplefilter("ignore")
import sys
from pysmt.shortcuts import *
from pysmt.logics import QF_UF, QF_BOOL
def tr(name, f):
    try:
        print(name, "=>", f())
    except Exception as e:
        print(name, "=> EXC", type(e).__name__, str(e)[:160])
env = get_env()
import os
env.factory.add_generic_solver("mini", [sys.executable, os.path.join(os.path.dirname(os.path.abspath(__file__)), "mini_ref.py")], [QF_UF])
a,b,c = Symbol("a"), Symbol("b"), Symbol("c")
def scenario_get_model():
    with Solver(name="mini", logic=QF_UF) as s:
        s.add_assertion(a)
        s.push()
        s.add_assertion(b)
        s.solve()
        m = s.get_model()
        return sorted(str(k) for k,_ in m)
tr("get_model after push (expects a and b)", scenario_get_model)
def scenario_pushn():
    with Solver(name="mini", logic=QF_UF) as s:
        s.push(2)
        s.add_assertion(a)
        s.pop(1)
        s.add_assertion(Or(a,b))   # a must be re-declared (popped) 
        s.pop(1)
        s.add_assertion(c)
        return "ok", s.declared_vars
tr("push(2) pop(1) pop(1)", scenario_pushn)
def scenario_reset():
    with Solver(name="mini", logic=QF_UF) as s:
        s.add_assertion(a)
        s.reset_assertions()
        s.add_assertion(And(a,b))
        return "ok"
tr("reset then reuse a", scenario_reset)
