import warnings; warnings.simplefilter("ignore")
from pysmt.shortcuts import *
from pysmt.typing import *
from pysmt.typing import Type as PType
from pysmt.smtlib.script import smtlibscript_from_formula
from io import StringIO
get_env().enable_infix_notation=True
Pair = PType("Pair", 2); U = PType("U")
a = Symbol("a", Pair(INT,INT)); b = Symbol("b", Pair(BOOL,U)); c = Symbol("c", Pair(INT,INT))
f = And(Equals(a, c), Equals(b, b))
sc = smtlibscript_from_formula(And(Equals(a,c), Not(Equals(b, Symbol("b2", Pair(BOOL,U))))))
buf=StringIO(); sc.serialize(buf, daggify=False); print(buf.getvalue())
# array of custom, function over custom
g = Symbol("g", FunctionType(U, [ArrayType(U, INT)]))
arr = Symbol("arr", ArrayType(U, INT))
sc = smtlibscript_from_formula(Equals(Function(g,[arr]), Symbol("u", U)))
buf=StringIO(); sc.serialize(buf, daggify=False); print(buf.getvalue())
