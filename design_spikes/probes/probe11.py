import warnings; warnings.simplefilter("ignore")
from pysmt.shortcuts import *
from pysmt.rewritings import cnf, cnf_as_set, PolarityCNFizer
p=Symbol("p")
print("cnf(And(p,False)) =", cnf(And(p, FALSE())))
print("pcnf(And(p,False)) =", PolarityCNFizer().convert_as_formula(And(p, FALSE())))
print("cnf(Not(Or(p,True))) =", cnf(Not(Or(p, TRUE()))))
print("cnf(Iff(p, False) & ...) =", cnf(And(Iff(p, FALSE()), p)))
