import warnings; warnings.simplefilter("ignore")
from pysmt.shortcuts import *
from pysmt.typing import *
from pysmt.oracles import get_logic
from io import StringIO
from pysmt.smtlib.parser import SmtLibParser
def tr(name, f):
    try:
        print(name, "=>", f())
    except Exception as e:
        print(name, "=> EXC", type(e).__name__, str(e)[:120])
x = Symbol("x", INT); y = Symbol("y", INT); b = Symbol("b")
r = Symbol("r", REAL)
tr("logic 3/r", lambda: get_logic(Equals(Div(Real(3), r), Real(1))))
tr("logic int.to.str", lambda: get_logic(Equals(IntToStr(x), IntToStr(y))))
bv = Symbol("bv8", BV8)
tr("logic forall bv", lambda: get_logic(ForAll([bv], TRUE())))
tr("logic forall bv b", lambda: get_logic(ForAll([bv], b)))
tr("logic x div 2", lambda: get_logic(LE(Div(x, Int(2)), Int(3))))
tr("logic str+real", lambda: get_logic(And(Equals(Symbol("s",STRING), String("a")), LE(r, Real(1)))))

def parse(s):
    p = SmtLibParser()
    sc = p.get_script(StringIO(s))
    return [c for c in sc.commands if c.name=="assert"][-1].args[0]
tr("let parallel", lambda: parse("(declare-fun x () Int)(declare-fun y () Int)(assert (let ((x y) (y x)) (< x y)))"))
tr("let nested", lambda: parse("(declare-fun z () Int)(assert (let ((x 1)) (let ((x 2) (y x)) (= y z))))"))
tr("define shadow", lambda: parse("(define-fun x () Int 5)(assert (forall ((x Int)) (> x 0)))"))
tr("define shadow let", lambda: parse("(define-fun x () Int 5)(declare-fun z () Int)(assert (let ((x 7)) (= x z)))"))
tr("undeclared", lambda: parse("(assert foo)"))
tr("undeclared2", lambda: parse("(declare-fun s () String)(assert (= s foo))"))
tr("crlf", lambda: parse("(declare-fun p () Bool)\r\n(declare-fun q () Bool)\r\n(assert (and p\r\n q))\r\n"))
tr("int /", lambda: parse("(declare-fun x () Int)(declare-fun y () Int)(assert (= (/ x y) 1))"))
tr("capture", lambda: parse("(declare-fun y () Int)(define-fun f ((a Int)) Bool (exists ((y Int)) (> y a)))(assert (f y))"))
tr("-3 symbol", lambda: parse("(declare-fun -3 () Int)(assert (= -3 1))"))
tr("1e2", lambda: parse("(declare-fun x () Int)(assert (= x 1e2))"))
tr("hex", lambda: parse("(assert (= #xFf #b11111111))"))
tr("div", lambda: parse("(declare-fun x () Int)(assert (= (div x 2) 1))"))
tr("chain =", lambda: parse("(declare-fun x () Int)(assert (= x 1 2))"))
tr("str escape", lambda: repr(parse('(declare-fun s () String)(assert (= s "a\\u{41}b"))')))
# C14 Int caching
reset_env()
tr("Int(1.0) fresh", lambda: Int(1.0))
reset_env()
Int(1)
tr("Int(1.0) after Int(1)", lambda: Int(1.0))
tr("Int(True) after Int(1)", lambda: Int(True))
reset_env()
tr("Real(True) fresh", lambda: Real(True))
Real(1)
tr("Real(True) after", lambda: Real(True))
tr("BV(True,1)", lambda: BV(True,1))
