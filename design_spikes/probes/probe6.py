import warnings; warnings.simplefilter("ignore")
from pysmt.shortcuts import *
from pysmt.typing import *
from pysmt.environment import Environment
from pysmt.optimization.goal import *
from pysmt.optimization.optimizer import OptComparationFunctions, OptSearchInterval
from pysmt.parsing import HRParser
def tr(name, f):
    try:
        print(name, "=>", f())
    except Exception as e:
        print(name, "=> EXC", type(e).__name__, str(e)[:160])
# F08
from pysmt.typing import Type as PType
get_env().enable_infix_notation=True
Pair = PType("Pair", 2); Box = PType("Box", 1)
t = Box(Pair(INT, INT))
s = Symbol("s", t)
env2 = Environment()
tr("normalize nested custom", lambda: env2.formula_manager.normalize(s).symbol_type())
t2 = Pair(Pair(INT,INT), INT)
s2 = Symbol("s2", t2)
tr("normalize nested custom same decl", lambda: env2.formula_manager.normalize(s2).symbol_type())
# F24
a = Symbol("a", BV8); b = Symbol("b", BV8); x = Symbol("x", INT)
g = MinimizationGoal(Ite(BVULT(a,b), Int(1), Int(2)))
tr("goal logic", lambda: g.get_logic())
tr("cmp funcs", lambda: OptComparationFunctions(get_env())._comparation_functions(g))
arr = Symbol("arr", ArrayType(INT, INT))
g2 = MinimizationGoal(Select(arr, x))
tr("cmp funcs arr", lambda: OptComparationFunctions(get_env())._comparation_functions(g2))
g3 = MaxSMTGoal(real_weights=False); g3.add_soft_clause(BVULT(a,b), Int(2)); g3.add_soft_clause(Symbol("p"), Int(3))
g3m = MaximizationGoal(g3.term())
tr("cmp funcs maxsmt bv", lambda: OptComparationFunctions(get_env())._comparation_functions(g3m))
# C06 bits
tr("BVRepeat 0", lambda: BVRepeat(a, 0))
tr("shl 300", lambda: BVLShl(a, 300))
# HR strings
f = Equals(Symbol("st", STRING), String('a"b'))
tr("HR ser", lambda: f.serialize())
tr("HR parse", lambda: HRParser().parse(f.serialize()))
f2 = LE(Symbol("we ird", INT), Int(-3))
tr("HR ser2", lambda: f2.serialize())
tr("HR parse2", lambda: HRParser().parse(f2.serialize()))
f3 = Symbol("it's")
tr("HR ser3", lambda: f3.serialize())
tr("HR parse3", lambda: HRParser().parse(f3.serialize()))
# smtlib round trip with name containing |
from pysmt.smtlib.parser import SmtLibParser
from io import StringIO
from pysmt.smtlib.script import smtlibscript_from_formula
def rt(f, dag):
    sc = smtlibscript_from_formula(f)
    buf = StringIO(); sc.serialize(buf, daggify=dag)
    p = SmtLibParser(); sc2 = p.get_script(StringIO(buf.getvalue()))
    return sc2.get_last_formula() is f, buf.getvalue().replace("\n"," ")[:200]
tr("rt bar", lambda: rt(And(Symbol("a|b"), Symbol("c\\d")), True))
tr("rt int div", lambda: rt(Equals(Div(x, Symbol("y", INT)), Int(1)), False))
tr("rt .def_0", lambda: rt(And(Symbol(".def_0"), Or(Symbol("q"), Symbol(".def_1"))), True))
tr("rt true sym", lambda: rt(And(Symbol("true"), Symbol("q")), False))
