import warnings; warnings.simplefilter("ignore")
from pysmt.shortcuts import *
from pysmt.typing import *
import pysmt
def tr(name, f):
    try:
        print(name, "=>", f())
    except Exception as e:
        print(name, "=> EXC", type(e).__name__, str(e)[:100])

# C01 array equals
tr("arr-eq", lambda: Equals(Array(INT, Int(0)), Array(INT, Int(1))).simplify())
tr("arr-eq2", lambda: Equals(Array(INT, Int(0)), Array(INT, Int(0), {Int(1):Int(2)})).simplify())
# strings
tr("charat -2", lambda: StrCharAt(String("abc"), Int(-2)).simplify())
tr("indexof neg", lambda: StrIndexOf(String("abc"), String("c"), Int(-1)).simplify())
tr("substr neg", lambda: StrSubstr(String("abc"), Int(-2), Int(3)).simplify())
tr("str.to.int -3", lambda: StrToInt(String("-3")).simplify())
tr("str.to.int ' 5'", lambda: StrToInt(String(" 5")).simplify())
tr("str.to.int 1_0", lambda: StrToInt(String("1_0")).simplify())
tr("str.to.int unicode", lambda: StrToInt(String("٣")).simplify())
tr("indexof empty beyond", lambda: StrIndexOf(String("abc"), String(""), Int(5)).simplify())
tr("indexof empty at len", lambda: StrIndexOf(String("abc"), String(""), Int(3)).simplify())
tr("replace empty", lambda: StrReplace(String("abc"), String(""), String("x")).simplify())
# int div huge
x = Symbol("x", INT)
tr("div huge", lambda: Div(Int(10**20+1), Int(3)).simplify())
print(" expected", (10**20+1)//3)
tr("div neg", lambda: [Div(Int(a), Int(b)).simplify() for a in (7,-7) for b in (2,-2)])
# pow type
b = Symbol("b")
tr("pow type", lambda: (Pow(Ite(b, Int(3), Int(3)), Int(2)).get_type(), Pow(Ite(TRUE(), Int(3), x), Int(2)).simplify().get_type()))
tr("pow bool", lambda: Pow(Symbol("bb"), TRUE()).get_type())
# Div(3,x) linear?
r = Symbol("r", REAL)
tr("logic 3/r", lambda: get_logic(Equals(Div(Real(3), r), Real(1))))
i2s = IntToStr
y = Symbol("y", INT)
tr("logic int.to.str", lambda: get_logic(Equals(IntToStr(x), IntToStr(y))))
bv = Symbol("bv8", BV8)
tr("logic forall bv", lambda: get_logic(ForAll([bv], TRUE())))
tr("logic forall bv b", lambda: get_logic(ForAll([bv], b)))
# NNF of Not(Ite)
a_, c_ = Symbol("a"), Symbol("c")
from pysmt.rewritings import nnf, cnf, Ackermannizer
tr("nnf not ite", lambda: nnf(Not(Ite(a_, b, c_))))
arrb = Symbol("arrb", ArrayType(INT, BOOL))
tr("nnf bool select", lambda: nnf(And(Select(arrb, x), b)))
# Ackermann nested
f = Symbol("f", FunctionType(INT, [INT])); g = Symbol("g", FunctionType(INT, [INT]))
tr("ack", lambda: Ackermannizer().do_ackermannization(Equals(f(Plus(g(x), Int(1))), f(y))) if False else None)
get_env().enable_infix_notation = True
tr("ack", lambda: Ackermannizer().do_ackermannization(Equals(Function(f,[Plus(Function(g,[x]), Int(1))]), Function(f,[y]))))
