import warnings; warnings.simplefilter("ignore")
import pysmt, sys
print(pysmt.__file__)
from pysmt.shortcuts import *
print(list(get_env().factory.all_solvers().keys()))
a,b = Symbol("a"), Symbol("b")
for name in get_env().factory.all_solvers():
    try:
        with Solver(name=name, logic="QF_BOOL" if name not in ("cvc5",) else "QF_LRA") as s:
            s.add_assertion(a)
            r1 = s.is_sat(Not(a))     # one-shot: a & !a unsat
            r2 = s.solve()            # should be sat again (only a asserted)
            print(name, "is_sat(!a)=",r1, " later solve()=", r2, "(expected False, True)")
    except Exception as e:
        print(name, "EXC", type(e).__name__, str(e)[:100])
