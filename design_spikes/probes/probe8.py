import warnings; warnings.simplefilter("ignore")
import itertools, threading, sys
from pysmt.shortcuts import *
from pysmt.typing import *
from pysmt.logics import QF_LIA, QF_BOOL, QF_UFLIRA
from pysmt.solvers.solver import IncrementalTrackingSolver, SolverOptions
from pysmt.solvers.eager import EagerModel
from pysmt.decorators import clear_pending_pop
from pysmt.optimization.optimizer import SUAOptimizerMixin, IncrementalOptimizerMixin
from pysmt.optimization.goal import *
from pysmt.exceptions import *
class Opts(SolverOptions):
    def __call__(self, solver): pass
class Brute(IncrementalTrackingSolver):
    LOGICS=[QF_LIA, QF_UFLIRA]
    OptionsClass=Opts
    DOM=range(-3,4)
    def __init__(self, environment, logic, **options):
        IncrementalTrackingSolver.__init__(self, environment, logic, **options)
        self.model=None; self.fail=options.get("solver_options",{}).get("fail") if options else None
    @clear_pending_pop
    def _reset_assertions(self): pass
    @clear_pending_pop
    def _add_assertion(self, formula, named=None): return formula
    @clear_pending_pop
    def _push(self, levels=1): pass
    @clear_pending_pop
    def _pop(self, levels=1): pass
    @clear_pending_pop
    def _solve(self, assumptions=None):
        if getattr(self, "fail", None): raise SolverReturnedUnknownResultError()
        fs = list(self.assertions) + list(assumptions or [])
        f = And(fs)
        vs = sorted(f.get_free_variables(), key=str)
        doms = [[Bool(False),Bool(True)] if v.symbol_type().is_bool_type() else [Int(i) for i in self.DOM] for v in vs]
        for vals in itertools.product(*doms):
            asg = dict(zip(vs, vals))
            if f.substitute(asg).simplify().is_true():
                self.model = EagerModel(asg, self.environment); return True
        self.model=None; return False
    def get_model(self): return self.model
    def get_value(self, f): return self.model.get_value(f)
    def _exit(self): pass
class BruteSUA(Brute, SUAOptimizerMixin): pass
class BruteInc(Brute, IncrementalOptimizerMixin): pass
x,y = Symbol("x", INT), Symbol("y", INT)
for cls in (BruteSUA, BruteInc):
    s = cls(get_env(), QF_LIA)
    s.add_assertion(And(GE(x, Int(-1)), LE(x, Int(2)), GE(y, x), LE(y, Int(3))))
    before = (len(s._backtrack_points), list(s.assertions))
    for strat in ("linear","binary"):
        r = s.optimize(MinimizationGoal(x), strategy=strat); print(cls.__name__, strat, "min x", r[1], "bt", len(s._backtrack_points))
        r = s.optimize(MaximizationGoal(Plus(x,y)), strategy=strat); print(cls.__name__, strat, "max x+y", r[1], "bt", len(s._backtrack_points))
    r = s.lexicographic_optimize([MaximizationGoal(y), MinimizationGoal(x)])
    print(cls.__name__, "lexi", r[1], "backtrack points before/after:", before[0], len(s._backtrack_points), "assertions same:", list(s.assertions)==before[1])
    ps = list(s.pareto_optimize([MinimizationGoal(x), MaximizationGoal(y)]))
    print(cls.__name__, "pareto", [[str(v) for v in c] for _,c in ps], "bt", len(s._backtrack_points))
# F25 portfolio all-fail
from pysmt.solvers.portfolio import Portfolio
class Failing(Brute):
    def _solve(self, assumptions=None): raise SolverReturnedUnknownResultError()
env=get_env()
env.factory._all_solvers["brute"]=Brute
env.factory._all_solvers["failing"]=Failing
def run(members, out):
    try:
        with Portfolio(members, environment=env, logic=QF_LIA, incremental=False, generate_models=True) as p:
            p.add_assertion(GE(x, Int(1)))
            out.append(("res", p.solve()))
            out.append(("model x", str(p.get_model().get_value(x))))
    except BaseException as e:
        out.append(("exc", type(e).__name__))
for members in (["brute","failing"], ["failing","brute"], ["failing","failing"]):
    out=[]
    t=threading.Thread(target=run, args=(members,out), daemon=True); t.start(); t.join(8)
    print("portfolio", members, "=>", out if not t.is_alive() else "BLOCKED after 8s")
import os; os._exit(0)
