import warnings; warnings.simplefilter("ignore")
import itertools
from pysmt.logics import *
L = sorted(LOGICS, key=str); P = sorted(PYSMT_LOGICS, key=str)
print(len(L), len(P), len(SMTLIB2_LOGICS))
# duplicates by (theory,qf)
def key(l): return (str(l.theory), l.quantifier_free)
from collections import defaultdict
d=defaultdict(list)
for l in L: d[key(l)].append(l.name)
print("dups", [v for v in d.values() if len(v)>1])
# antisymmetry
bad=[(a,b) for a in L for b in L if a<=b and b<=a and a!=b]
print("antisym viol", bad[:5], len(bad))
# transitivity
cnt=0
for a in L:
    for b in L:
        if a<=b:
            for c in L:
                if b<=c and not a<=c: cnt+=1
print("trans viol", cnt)
# closer logic for every target in L over PYSMT and SMTLIB2
for sup,name in ((P,"PYSMT"),(sorted(SMTLIB2_LOGICS,key=str),"SMTLIB2")):
    errs=0; notmin=0
    for t in L:
        try:
            r = get_closer_logic(sup, t)
            assert r in sup and t <= r
            if any(t<=k and k<=r and k!=r for k in sup): notmin+=1
        except NoLogicAvailableError: errs+=1
        except Exception as e: print("EXC", t, type(e).__name__, e)
    print(name, "no-logic", errs, "notmin", notmin)
# theories: all 4096, check combine upper bound & le partial order on wf
import itertools
names=["arrays","arrays_const","bit_vectors","floating_point","integer_arithmetic","real_arithmetic","integer_difference","real_difference","linear","uninterpreted","custom_type","strings"]
def mk(bits):
    kw=dict(zip(names,bits))
    if kw["arrays_const"] and not kw["arrays"]: return None
    return Theory(**kw)
allT=[t for t in (mk(b) for b in itertools.product([False,True],repeat=12)) if t is not None]
print(len(allT))
wf=[t for t in allT if (not t.integer_difference or t.integer_arithmetic) and (not t.real_difference or t.real_arithmetic)]
print(len(wf))
import random
random.seed(1)
viol=0
for _ in range(200000):
    a,b=random.choice(allT),random.choice(allT)
    c=a.combine(b)
    if not (a<=c and b<=c): viol+=1
print("combine ub viol (all)", viol)
viol=0
for _ in range(200000):
    a,b=random.choice(wf),random.choice(wf)
    c=a.combine(b)
    if not (a<=c and b<=c): viol+=1
print("combine ub viol (wf)", viol)
# most_generic_logic on subsets? 
# detection: theory combos that have no PYSMT logic
miss=[t for t in wf if not any(Logic("x","",quantifier_free=True,theory=t) <= l for l in P)]
print("wf theories w/o QF pysmt logic", len(miss), "of", len(wf))
print(miss[0] if miss else None)
