import warnings; warnings.simplefilter("ignore")
from pysmt.shortcuts import *
from pysmt.typing import *
from pysmt.smtlib.parser import SmtLibParser
from pysmt.smtlib.script import smtlibscript_from_formula
from io import StringIO
import itertools, random
def rt(f, dag):
    sc = smtlibscript_from_formula(f)
    buf = StringIO(); sc.serialize(buf, daggify=dag)
    p = SmtLibParser(); sc2 = p.get_script(StringIO(buf.getvalue()))
    g = sc2.get_last_formula()
    return g is f, g, buf.getvalue().replace("\n"," ")
vs = [Symbol("q%d"%i, INT) for i in range(6)]
bad=0
for perm in itertools.permutations(vs[:4]):
    f = ForAll(list(perm), LE(Plus(perm), Int(0)))
    ok, g, txt = rt(f, False)
    if not ok:
        bad+=1
        if bad==1: print("NOT IDENTICAL:", f, "->", g)
print("quantifier var order failures:", bad, "of 24")
# Exists nested inside with 2 vars
f = Exists([vs[1], vs[0]], LT(vs[0], vs[1]))
print(rt(f, True)[:2])
