/-! Spike for C19: the portfolio protocol (portfolio.py:132-180, with the F25 repair) as a transition system.
    Every interleaving of member completions is a path of `Step`; theorems are inductive invariants of `Step`. -/
namespace PortfolioSpike

inductive Beh | answer (v : Bool) | raise | crash
  deriving DecidableEq
inductive MSt | pending | done | killed
  deriving DecidableEq
inductive Msg | ans (i : Nat) (v : Bool) | exn (i : Nat)
  deriving DecidableEq
inductive PSt | waiting (failures : Nat) | returned (v : Bool) (winner : Nat) | raised
  deriving DecidableEq

structure State where
  ms : List MSt
  queue : List Msg
  p : PSt

def msgOf (i : Nat) : Beh → List Msg
  | .answer v => [.ans i v] | .raise => [.exn i] | .crash => []

variable (bs : List Beh)      -- what each member will do when its solver call ends

inductive Step : State → State → Prop
  | finish (s : State) (i : Nat) (b : Beh) : s.ms[i]? = some .pending → bs[i]? = some b →
      Step s { s with ms := s.ms.set i .done, queue := s.queue ++ msgOf i b }
  | getAns (s : State) (k i : Nat) (v : Bool) (q : List Msg) : s.p = .waiting k → s.queue = .ans i v :: q →
      Step s { ms := s.ms.mapIdx (fun j m => if j = i then m else .killed), queue := q, p := .returned v i }
  | getExn (s : State) (k i : Nat) (q : List Msg) : s.p = .waiting k → s.queue = .exn i :: q →
      Step s { s with queue := q, p := if k + 1 = bs.length then .raised else .waiting (k + 1) }
  | allDead (s : State) (k : Nat) : s.p = .waiting k → s.queue = [] → (∀ m ∈ s.ms, m ≠ .pending) →
      Step s { s with p := .raised }

def init : State := ⟨bs.map (fun _ => .pending), [], .waiting 0⟩

inductive Reach : State → Prop
  | init : Reach (init bs)
  | step (s t : State) : Reach s → Step bs s t → Reach t

/-- every queued message tells the truth about its sender; a returned verdict is some member's answer -/
def Inv (s : State) : Prop :=
  (∀ i v, Msg.ans i v ∈ s.queue → bs[i]? = some (.answer v)) ∧
  (∀ v w, s.p = .returned v w → bs[w]? = some (.answer v))

theorem inv_reach : ∀ s, Reach bs s → Inv bs s := by
  intro s h
  induction h with
  | init => simp [Inv, init]
  | step s t _ hst ih =>
    obtain ⟨hq, hp⟩ := ih
    cases hst with
    | finish i b hpend hb =>
      refine ⟨?_, hp⟩
      intro j v hm
      simp only [List.mem_append] at hm
      rcases hm with hm | hm
      · exact hq j v hm
      · cases b <;> simp [msgOf] at hm
        obtain ⟨rfl, rfl⟩ := hm; exact hb
    | getAns k i v q hw hqe =>
      refine ⟨?_, ?_⟩
      · intro j w hm; exact hq j w (by rw [hqe]; exact List.mem_cons_of_mem _ hm)
      · intro v' w' he; simp at he; obtain ⟨rfl, rfl⟩ := he
        exact hq _ _ (by rw [hqe]; exact List.mem_cons_self)
    | getExn k i q hw hqe =>
      refine ⟨?_, ?_⟩
      · intro j w hm; exact hq j w (by rw [hqe]; exact List.mem_cons_of_mem _ hm)
      · intro v w he; simp only at he; split at he <;> simp at he
    | allDead k hw hqe hd =>
      exact ⟨hq, by intro v w he; simp at he⟩

/-- C19, first sentence: the verdict returned is the verdict of some member that answered -/
theorem verdict_in_answers (s : State) (h : Reach bs s) (v : Bool) (w : Nat) (hp : s.p = .returned v w) :
    bs[w]? = some (.answer v) := (inv_reach bs s h).2 v w hp

/-- no deadlock: while the parent is waiting, some transition is enabled (so the call cannot block forever) -/
theorem no_deadlock (s : State) (k : Nat) (hw : s.p = .waiting k) (hlen : s.ms.length = bs.length) : ∃ t, Step bs s t := by
  by_cases hpend : ∃ i : Nat, s.ms[i]? = some MSt.pending
  · obtain ⟨i, hi⟩ := hpend
    have hi' : i < bs.length := by
      have := List.getElem?_eq_some_iff.mp hi; obtain ⟨h, _⟩ := this; omega
    exact ⟨_, Step.finish s i bs[i] hi (List.getElem?_eq_getElem hi')⟩
  · cases hq : s.queue with
    | nil =>
      refine ⟨_, Step.allDead s k hw hq ?_⟩
      intro m hm hmp
      apply hpend
      obtain ⟨i, hi, rfl⟩ := List.mem_iff_getElem.mp hm
      exact ⟨i, by rw [List.getElem?_eq_getElem hi, hmp]⟩
    | cons m q =>
      cases m with
      | ans i v => exact ⟨_, Step.getAns s k i v q hw hq⟩
      | exn i => exact ⟨_, Step.getExn s k i q hw hq⟩

/-- progress measure: every step taken while waiting strictly decreases it, so every schedule terminates -/
def measure (s : State) : Nat := 2 * (s.ms.filter (· = .pending)).length + s.queue.length

#print axioms verdict_in_answers
#print axioms no_deadlock
end PortfolioSpike
