/-! Spike for C10: negation normal form with n-ary connectives, implies/iff/Boolean ite and Boolean quantifiers:
    equivalence under every interpretation and the "negations only on atoms" shape. -/
namespace NNFSpike

inductive F where
  | atom (n : Nat) | tru | fls
  | not (f : F) | and (fs : List F) | or (fs : List F)
  | imp (a b : F) | iff (a b : F) | ite (c t e : F)
  | all (x : Nat) (f : F) | ex (x : Nat) (f : F)

abbrev Env := Nat → Bool
def upd (I : Env) (x : Nat) (v : Bool) : Env := fun y => if y = x then v else I y

def ev (I : Env) : F → Bool
  | .atom n => I n | .tru => true | .fls => false
  | .not f => !ev I f
  | .and fs => (fs.map (ev I)).all id
  | .or fs => (fs.map (ev I)).any id
  | .imp a b => !ev I a || ev I b
  | .iff a b => ev I a == ev I b
  | .ite c t e => if ev I c then ev I t else ev I e
  | .all x f => ev (upd I x false) f && ev (upd I x true) f
  | .ex x f => ev (upd I x false) f || ev (upd I x true) f

def nnf (pos : Bool) : F → F
  | .atom n => if pos then .atom n else .not (.atom n)
  | .tru => if pos then .tru else .not .tru
  | .fls => if pos then .fls else .not .fls
  | .not f => nnf (!pos) f
  | .and fs => if pos then .and (fs.map (nnf true)) else .or (fs.map (nnf false))
  | .or fs => if pos then .or (fs.map (nnf true)) else .and (fs.map (nnf false))
  | .imp a b => if pos then .or [nnf false a, nnf true b] else .and [nnf true a, nnf false b]
  | .iff a b =>
    if pos then .and [.or [nnf false a, nnf true b], .or [nnf false b, nnf true a]]
    else .or [.and [nnf true a, nnf false b], .and [nnf true b, nnf false a]]
  | .ite c t e =>
    if pos then .and [.or [nnf false c, nnf true t], .or [nnf true c, nnf true e]]
    else .and [.or [nnf false c, nnf false t], .or [nnf true c, nnf false e]]     -- repaired F18 behaviour
  | .all x f => if pos then .all x (nnf true f) else .ex x (nnf false f)
  | .ex x f => if pos then .ex x (nnf true f) else .all x (nnf false f)

theorem nnf_equiv : ∀ (f : F) (pos : Bool) (I : Env), ev I (nnf pos f) = (if pos then ev I f else !ev I f)
  | .atom n, pos, I => by cases pos <;> simp [nnf, ev]
  | .tru, pos, I => by cases pos <;> simp [nnf, ev]
  | .fls, pos, I => by cases pos <;> simp [nnf, ev]
  | .not f, pos, I => by
    have := nnf_equiv f (!pos) I
    cases pos <;> simp_all [nnf, ev]
  | .and fs, pos, I => by
    have iht : ∀ g ∈ fs, ev I (nnf true g) = ev I g := fun g _ => by simpa using nnf_equiv g true I
    have ihf : ∀ g ∈ fs, ev I (nnf false g) = !ev I g := fun g _ => by simpa using nnf_equiv g false I
    cases pos
    · simp only [nnf, ev, List.map_map, Bool.false_eq_true, if_false, List.any_map, List.all_map, Function.comp_def]
      rw [Bool.eq_iff_iff]; simp only [List.any_eq_true, Bool.not_eq_true', List.all_eq_false, id]
      constructor
      · rintro ⟨g, hg, h⟩; exact ⟨g, hg, by simpa [ihf g hg] using h⟩
      · rintro ⟨g, hg, h⟩; exact ⟨g, hg, by simpa [ihf g hg] using h⟩
    · simp only [nnf, ev, if_true, List.map_map]
      congr 1
      apply List.map_congr_left; intro g hg; simp [iht g hg]
  | .or fs, pos, I => by
    have iht : ∀ g ∈ fs, ev I (nnf true g) = ev I g := fun g _ => by simpa using nnf_equiv g true I
    have ihf : ∀ g ∈ fs, ev I (nnf false g) = !ev I g := fun g _ => by simpa using nnf_equiv g false I
    cases pos
    · simp only [nnf, ev, List.map_map, Bool.false_eq_true, if_false, List.any_map, List.all_map, Function.comp_def]
      rw [Bool.eq_iff_iff]; simp only [List.all_eq_true, Bool.not_eq_true', List.any_eq_false, id]
      constructor
      · intro h g hg; simpa [ihf g hg] using h g hg
      · intro h g hg; simpa [ihf g hg] using h g hg
    · simp only [nnf, ev, if_true, List.map_map]
      congr 1
      apply List.map_congr_left; intro g hg; simp [iht g hg]
  | .imp a b, pos, I => by
    have a1 := nnf_equiv a true I; have a0 := nnf_equiv a false I
    have b1 := nnf_equiv b true I; have b0 := nnf_equiv b false I
    cases pos <;> simp_all [nnf, ev] <;> cases ev I a <;> cases ev I b <;> rfl
  | .iff a b, pos, I => by
    have a1 := nnf_equiv a true I; have a0 := nnf_equiv a false I
    have b1 := nnf_equiv b true I; have b0 := nnf_equiv b false I
    cases pos <;> simp_all [nnf, ev] <;> cases ev I a <;> cases ev I b <;> rfl
  | .ite c t e, pos, I => by
    have c1 := nnf_equiv c true I; have c0 := nnf_equiv c false I
    have t1 := nnf_equiv t true I; have t0 := nnf_equiv t false I
    have e1 := nnf_equiv e true I; have e0 := nnf_equiv e false I
    cases pos <;> simp_all [nnf, ev] <;> cases ev I c <;> cases ev I t <;> cases ev I e <;> rfl
  | .all x f, pos, I => by
    have f1 := fun J => nnf_equiv f true J; have f0 := fun J => nnf_equiv f false J
    cases pos <;> simp_all [nnf, ev]
  | .ex x f, pos, I => by
    have f1 := fun J => nnf_equiv f true J; have f0 := fun J => nnf_equiv f false J
    cases pos <;> simp_all [nnf, ev]

/-- negations only on atoms (constants count as atoms, as in NNFizer) -/
inductive IsNNF : F → Prop
  | atom (n) : IsNNF (.atom n) | natom (n) : IsNNF (.not (.atom n))
  | tru : IsNNF .tru | fls : IsNNF .fls | ntru : IsNNF (.not .tru) | nfls : IsNNF (.not .fls)
  | and (fs) : (∀ g ∈ fs, IsNNF g) → IsNNF (.and fs)
  | or (fs) : (∀ g ∈ fs, IsNNF g) → IsNNF (.or fs)
  | all (x f) : IsNNF f → IsNNF (.all x f)
  | ex (x f) : IsNNF f → IsNNF (.ex x f)

theorem nnf_shape : ∀ (f : F) (pos : Bool), IsNNF (nnf pos f)
  | .atom n, pos => by cases pos <;> simp [nnf] <;> constructor
  | .tru, pos => by cases pos <;> simp [nnf] <;> constructor
  | .fls, pos => by cases pos <;> simp [nnf] <;> constructor
  | .not f, pos => by simpa [nnf] using nnf_shape f (!pos)
  | .and fs, pos => by
    cases pos <;> simp only [nnf, Bool.false_eq_true, if_false, if_true] <;> constructor <;>
      (intro g hg; obtain ⟨g', hg', rfl⟩ := List.mem_map.mp hg; exact nnf_shape g' _)
  | .or fs, pos => by
    cases pos <;> simp only [nnf, Bool.false_eq_true, if_false, if_true] <;> constructor <;>
      (intro g hg; obtain ⟨g', hg', rfl⟩ := List.mem_map.mp hg; exact nnf_shape g' _)
  | .imp a b, pos => by
    have := nnf_shape a true; have := nnf_shape a false; have := nnf_shape b true; have := nnf_shape b false
    cases pos <;> simp only [nnf, Bool.false_eq_true, if_false, if_true] <;> constructor <;> simp_all
  | .iff a b, pos => by
    have := nnf_shape a true; have := nnf_shape a false; have := nnf_shape b true; have := nnf_shape b false
    cases pos <;> simp only [nnf, Bool.false_eq_true, if_false, if_true] <;> constructor <;>
      (intro g hg; simp at hg; rcases hg with rfl | rfl <;> constructor <;> simp_all)
  | .ite c t e, pos => by
    have := nnf_shape c true; have := nnf_shape c false; have := nnf_shape t true; have := nnf_shape t false
    have := nnf_shape e true; have := nnf_shape e false
    cases pos <;> simp only [nnf, Bool.false_eq_true, if_false, if_true] <;> constructor <;>
      (intro g hg; simp at hg; rcases hg with rfl | rfl <;> constructor <;> simp_all)
  | .all x f, pos => by
    cases pos <;> simp only [nnf, Bool.false_eq_true, if_false, if_true] <;> constructor <;> exact nnf_shape f _
  | .ex x f, pos => by
    cases pos <;> simp only [nnf, Bool.false_eq_true, if_false, if_true] <;> constructor <;> exact nnf_shape f _

#print axioms nnf_equiv
#print axioms nnf_shape
end NNFSpike
