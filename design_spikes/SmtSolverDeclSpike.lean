/-! Spike for C17: declaration bookkeeping of the text-interface wrapper (repaired push n / pop n / reset) against
    a strict SMT-LIB front end: the emitted command stream is never rejected and the two declaration stacks agree. -/
namespace SmtSolverSpike

inductive Api | assert (syms : List Nat) | push (n : Nat) | pop (n : Nat) | reset | solve
inductive Out | declare (s : Nat) | assert (syms : List Nat) | push (n : Nat) | pop (n : Nat) | reset | checkSat

/-- strict solver: levels of declared symbols (innermost first) -/
abbrev Levels := List (List Nat)
def declared (ls : Levels) (s : Nat) : Bool := ls.any (·.contains s)

def strictStep (ls : Levels) : Out → Option Levels
  | .declare s => if declared ls s then none else
      match ls with | [] => none | l :: rest => some ((s :: l) :: rest)
  | .assert syms => if syms.all (declared ls) then some ls else none
  | .push n => some (List.replicate n [] ++ ls)
  | .pop n => if n < ls.length then some (ls.drop n) else none
  | .reset => some [[]]
  | .checkSat => some ls

def strictRun : Levels → List Out → Option Levels
  | ls, [] => some ls
  | ls, o :: os => match strictStep ls o with | some ls' => strictRun ls' os | none => none

/-- wrapper (smtlib/solver.py after the F23 repairs): same shape of bookkeeping, emits commands -/
def declareMissing : Levels → List Nat → Levels × List Out
  | ls, [] => (ls, [])
  | ls, s :: ss =>
    if declared ls s then declareMissing ls ss
    else match ls with
      | [] => (ls, [])                               -- unreachable: the stack is never empty
      | l :: rest =>
        let r := declareMissing ((s :: l) :: rest) ss
        (r.1, .declare s :: r.2)

def wrapStep (ls : Levels) : Api → Levels × List Out
  | .assert syms => let r := declareMissing ls syms; (r.1, r.2 ++ [.assert syms])
  | .push n => (List.replicate n [] ++ ls, [.push n])
  | .pop n => (ls.drop n, [.pop n])
  | .reset => ([[]], [.reset])
  | .solve => (ls, [.checkSat])

theorem strictRun_append (ls : Levels) (a b : List Out) :
    strictRun ls (a ++ b) = (strictRun ls a).bind (fun ls' => strictRun ls' b) := by
  induction a generalizing ls with
  | nil => simp [strictRun]
  | cons o os ih =>
    simp only [List.cons_append, strictRun]
    cases strictStep ls o <;> simp [ih]

theorem declared_mono (l : List Nat) (rest : Levels) (s x : Nat) (h : declared (l :: rest) x = true) :
    declared ((s :: l) :: rest) x = true := by
  simp only [declared, List.any_cons, Bool.or_eq_true] at h ⊢
  rcases h with h | h
  · left; simp only [List.contains_cons, Bool.or_eq_true]; right; exact h
  · right; exact h

/-- declaring what is missing is accepted by the strict solver, leaves both stacks equal, and afterwards
    every requested symbol is declared -/
theorem declareMissing_ok : ∀ (syms : List Nat) (ls : Levels), ls ≠ [] →
    strictRun ls (declareMissing ls syms).2 = some (declareMissing ls syms).1 ∧
    (declareMissing ls syms).1 ≠ [] ∧
    (∀ x, declared ls x = true → declared (declareMissing ls syms).1 x = true) ∧
    (∀ x ∈ syms, declared (declareMissing ls syms).1 x = true)
  | [], ls, hne => by simp [declareMissing, strictRun, hne]
  | s :: ss, ls, hne => by
    unfold declareMissing
    by_cases hd : declared ls s = true
    · simp only [hd, if_true]
      obtain ⟨h1, h2, h3, h4⟩ := declareMissing_ok ss ls hne
      refine ⟨h1, h2, h3, ?_⟩
      intro x hx
      rcases List.mem_cons.mp hx with rfl | hx
      · exact h3 _ hd
      · exact h4 x hx
    · simp only [hd, Bool.false_eq_true, if_false]
      cases ls with
      | nil => exact absurd rfl hne
      | cons l rest =>
        obtain ⟨h1, h2, h3, h4⟩ := declareMissing_ok ss ((s :: l) :: rest) (by simp)
        simp only
        refine ⟨?_, h2, ?_, ?_⟩
        · simp only [strictRun, strictStep, hd, Bool.false_eq_true, if_false]
          exact h1
        · intro x hx; exact h3 x (declared_mono l rest s x hx)
        · intro x hx
          rcases List.mem_cons.mp hx with rfl | hx
          · apply h3; simp [declared]
          · exact h4 x hx

/-- one API call: if the call is legal (pop within the stack) its command stream is accepted and the stacks agree -/
theorem wrapStep_ok (ls : Levels) (hne : ls ≠ []) (a : Api)
    (hl : ∀ n, a = .pop n → n < ls.length) :
    strictRun ls (wrapStep ls a).2 = some (wrapStep ls a).1 ∧ (wrapStep ls a).1 ≠ [] := by
  cases a with
  | assert syms =>
    obtain ⟨h1, h2, _, h4⟩ := declareMissing_ok syms ls hne
    refine ⟨?_, h2⟩
    simp only [wrapStep, strictRun_append, h1, Option.bind_some, strictRun, strictStep]
    have : syms.all (declared (declareMissing ls syms).1) = true := List.all_eq_true.mpr h4
    simp [this]
  | push n => simp [wrapStep, strictRun, strictStep, hne]
  | pop n =>
    have := hl n rfl
    refine ⟨by simp [wrapStep, strictRun, strictStep, this], ?_⟩
    simp only [wrapStep]
    intro h
    have : (ls.drop n).length = 0 := by rw [h]; rfl
    simp at this; omega
  | reset => simp [wrapStep, strictRun, strictStep]
  | solve => simp [wrapStep, strictRun, strictStep, hne]

#print axioms wrapStep_ok
end SmtSolverSpike
