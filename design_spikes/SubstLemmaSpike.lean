/-! Spike for C05/C12: coincidence lemma and substitution lemma for a term language with n-ary operators and a
    binder, with pySMT's treatment of binders (keys bound by the quantifier are dropped; no renaming), under the
    property's no-capture proviso. -/
namespace SubstSpike

inductive T where
  | var (x : Nat) | const (c : Int)
  | app (op : Nat) (args : List T)
  | all (x : Nat) (body : T)

abbrev Env := Nat → Int
def upd (I : Env) (x : Nat) (v : Int) : Env := fun y => if y = x then v else I y

variable (opSem : Nat → List Int → Int) (D : List Int)

def ev (I : Env) : T → Int
  | .var x => I x
  | .const c => c
  | .app op args => opSem op (args.map (ev I))
  | .all x b => if D.all (fun v => ev (upd I x v) b != 0) then 1 else 0

def fv : T → List Nat
  | .var x => [x]
  | .const _ => []
  | .app _ args => (args.map fv).flatten
  | .all x b => (fv b).filter (· ≠ x)

theorem coincidence : ∀ (t : T) (I J : Env), (∀ x ∈ fv t, I x = J x) → ev opSem D I t = ev opSem D J t
  | .var x, I, J, h => by simp [ev]; exact h x (by simp [fv])
  | .const c, _, _, _ => by simp [ev]
  | .app op args, I, J, h => by
    simp only [ev]; congr 1
    apply List.map_congr_left
    intro a ha
    apply coincidence a I J
    intro x hx
    apply h x
    simp only [fv, List.mem_flatten, List.mem_map]
    exact ⟨fv a, ⟨a, ha, rfl⟩, hx⟩
  | .all x b, I, J, h => by
    simp only [ev]
    have : ∀ v, ev opSem D (upd I x v) b = ev opSem D (upd J x v) b := by
      intro v
      apply coincidence b
      intro y hy
      unfold upd
      by_cases hyx : y = x
      · simp [hyx]
      · simp only [hyx, if_false]
        apply h y
        simp [fv, hy, hyx]
    simp [this]

/-- symbol-keyed substitution as an association list; later entries are shadowed by earlier ones -/
abbrev Sub := List (Nat × T)
def Sub.get : Sub → Nat → Option T
  | [], _ => none
  | (k, u) :: σ, x => if k = x then some u else Sub.get σ x
def Sub.drop : Sub → Nat → Sub
  | [], _ => []
  | (k, u) :: σ, x => if k = x then Sub.drop σ x else (k, u) :: Sub.drop σ x

def subst (σ : Sub) : T → T
  | .var x => match σ.get x with | some u => u | none => .var x
  | .const c => .const c
  | .app op args => .app op (args.map (subst σ))
  | .all x b => .all x (subst (σ.drop x) b)        -- pySMT: keys mentioning the bound variable are removed

/-- the proviso of C05: no free symbol of a replacement falls under a binder of it at a replaced position -/
def NoCapture (σ : Sub) : T → Prop
  | .var _ => True
  | .const _ => True
  | .app _ args => ∀ a ∈ args, NoCapture σ a
  | .all x b => (∀ y u, (σ.drop x).get y = some u → y ∈ fv b → x ∉ fv u) ∧ NoCapture (σ.drop x) b

def envOf (I : Env) (σ : Sub) : Env := fun y => match σ.get y with | some u => ev opSem D I u | none => I y

theorem get_drop (σ : Sub) (x y : Nat) : (σ.drop x).get y = if y = x then none else σ.get y := by
  induction σ with
  | nil => simp [Sub.drop, Sub.get]
  | cons p σ ih =>
    obtain ⟨k, u⟩ := p
    by_cases hk : k = x
    · subst hk
      by_cases hy : y = k
      · subst hy; simp [Sub.drop, Sub.get, ih]
      · have : ¬ k = y := fun h => hy h.symm
        simp [Sub.drop, Sub.get, ih, hy, this]
    · by_cases hy : k = y
      · subst hy; simp [Sub.drop, Sub.get, hk]
      · simp [Sub.drop, Sub.get, hk, hy, ih]

theorem subst_lemma : ∀ (t : T) (σ : Sub) (I : Env), NoCapture σ t →
    ev opSem D I (subst σ t) = ev opSem D (envOf opSem D I σ) t
  | .var x, σ, I, _ => by
    simp only [subst, ev, envOf]
    cases h : σ.get x <;> simp [ev]
  | .const c, _, _, _ => by simp [subst, ev]
  | .app op args, σ, I, h => by
    simp only [subst, ev, List.map_map]; congr 1
    apply List.map_congr_left
    intro a ha
    have h' : ∀ a ∈ args, NoCapture σ a := by simpa [NoCapture] using h
    exact subst_lemma a σ I (h' a ha)
  | .all x b, σ, I, h => by
    have h' : (∀ y u, (σ.drop x).get y = some u → y ∈ fv b → x ∉ fv u) ∧ NoCapture (σ.drop x) b := by
      simpa [NoCapture] using h
    obtain ⟨hcap, hrec⟩ := h'
    simp only [subst, ev]
    have : ∀ v, ev opSem D (upd I x v) (subst (σ.drop x) b) = ev opSem D (upd (envOf opSem D I σ) x v) b := by
      intro v
      rw [subst_lemma b (σ.drop x) (upd I x v) hrec]
      apply coincidence
      intro y hy
      unfold envOf upd
      rw [get_drop]
      by_cases hyx : y = x
      · simp [hyx]
      · simp only [hyx, if_false]
        cases hg : σ.get y with
        | none => simp [hyx]
        | some u =>
          simp only
          apply coincidence
          intro z hz
          have hxu : x ∉ fv u := hcap y u (by rw [get_drop]; simp [hyx, hg]) hy
          have : z ≠ x := fun hzx => hxu (hzx ▸ hz)
          simp [this]
    simp [this]

#print axioms subst_lemma
end SubstSpike
