/-! Spike for C11: Tseitin encoding as in `CNFizer` (rewritings.py:32-220), definition variables keyed by
    sub-formula; both directions of model-by-model equisatisfiability. Top-level clean-up not included. -/
namespace Tseitin

inductive F where
  | atom (n : Nat) | tru | fls
  | not (f : F) | and (fs : List F) | or (fs : List F)
  | imp (a b : F) | iff (a b : F) | ite (c t e : F)

inductive Var | orig (n : Nat) | aux (f : F)
inductive Lit | pos (v : Var) | neg (v : Var) | T | Fl

def Lit.negate : Lit → Lit
  | .pos v => .neg v | .neg v => .pos v | .T => .Fl | .Fl => .T

abbrev Clause := List Lit
abbrev Val := Var → Bool

def Lit.val (ν : Val) : Lit → Bool
  | .pos v => ν v | .neg v => !ν v | .T => true | .Fl => false
def Clause.holds (ν : Val) (c : Clause) : Bool := c.any (Lit.val ν)
def holdsAll (ν : Val) (cs : List Clause) : Prop := ∀ c ∈ cs, Clause.holds ν c = true

@[simp] theorem val_negate (ν : Val) (l : Lit) : (l.negate).val ν = !(l.val ν) := by
  cases l <;> simp [Lit.negate, Lit.val]

def evalF (I : Nat → Bool) : F → Bool
  | .atom n => I n | .tru => true | .fls => false
  | .not f => !evalF I f
  | .and fs => (fs.map (evalF I)).all id
  | .or fs => (fs.map (evalF I)).any id
  | .imp a b => !evalF I a || evalF I b
  | .iff a b => evalF I a == evalF I b
  | .ite c t e => if evalF I c then evalF I t else evalF I e

/-- (top literal, definitional clauses) -/
def enc : F → Lit × List Clause
  | .atom n => (.pos (.orig n), [])
  | .tru => (.T, [])
  | .fls => (.Fl, [])
  | .not f => let r := enc f; (r.1.negate, r.2)
  | .and fs =>
    let rs := fs.map enc
    let k := Var.aux (.and fs)
    (.pos k, ((.pos k) :: rs.map (fun r => r.1.negate)) :: (rs.map (fun r => [r.1, .neg k])) ++ (rs.map (·.2)).flatten)
  | .or fs =>
    let rs := fs.map enc
    let k := Var.aux (.or fs)
    (.pos k, ((.neg k) :: rs.map (·.1)) :: (rs.map (fun r => [.pos k, r.1.negate])) ++ (rs.map (·.2)).flatten)
  | .imp a b =>
    let ra := enc a; let rb := enc b; let k := Var.aux (.imp a b)
    (.pos k, [[ra.1.negate, rb.1, .neg k], [ra.1, .pos k], [rb.1.negate, .pos k]] ++ ra.2 ++ rb.2)
  | .iff a b =>
    let ra := enc a; let rb := enc b; let k := Var.aux (.iff a b)
    (.pos k, [[ra.1.negate, rb.1.negate, .pos k], [ra.1.negate, rb.1, .neg k], [ra.1, rb.1.negate, .neg k], [ra.1, rb.1, .pos k]] ++ ra.2 ++ rb.2)
  | .ite c t e =>
    let rc := enc c; let rt := enc t; let re := enc e; let k := Var.aux (.ite c t e)
    (.pos k, [[rc.1.negate, rt.1.negate, .pos k], [rc.1.negate, rt.1, .neg k], [rc.1, re.1.negate, .pos k], [rc.1, re.1, .neg k]]
             ++ rc.2 ++ rt.2 ++ re.2)

/-- canonical extension of an interpretation of the original atoms to the definition variables -/
def ext (I : Nat → Bool) : Val
  | .orig n => I n
  | .aux f => evalF I f

@[simp] theorem val_pos (ν : Val) (v : Var) : (Lit.pos v).val ν = ν v := rfl
@[simp] theorem val_neg (ν : Val) (v : Var) : (Lit.neg v).val ν = !ν v := rfl
@[simp] theorem val_T (ν : Val) : Lit.T.val ν = true := rfl
@[simp] theorem val_Fl (ν : Val) : Lit.Fl.val ν = false := rfl
@[simp] theorem ext_aux (I : Nat → Bool) (f : F) : ext I (.aux f) = evalF I f := rfl
@[simp] theorem ext_orig (I : Nat → Bool) (n : Nat) : ext I (.orig n) = I n := rfl

theorem holdsAll_append {ν : Val} {a b : List Clause} : holdsAll ν (a ++ b) ↔ holdsAll ν a ∧ holdsAll ν b := by
  simp [holdsAll, List.mem_append, or_imp, forall_and]

theorem holdsAll_cons {ν : Val} {c : Clause} {cs : List Clause} : holdsAll ν (c :: cs) ↔ Clause.holds ν c = true ∧ holdsAll ν cs := by
  simp [holdsAll]


theorem holdsAll_flatten {ν : Val} {css : List (List Clause)} : holdsAll ν css.flatten ↔ ∀ cs ∈ css, holdsAll ν cs := by
  simp only [holdsAll, List.mem_flatten]
  constructor
  · intro h cs hcs c hc; exact h c ⟨cs, hcs, hc⟩
  · rintro h c ⟨cs, hcs, hc⟩; exact h cs hcs c hc

/-- completeness: the canonical extension satisfies every definitional clause and gives the top literal the formula's value -/
theorem enc_complete (I : Nat → Bool) : ∀ f : F, (enc f).1.val (ext I) = evalF I f ∧ holdsAll (ext I) (enc f).2
  | .atom n => by simp [enc, evalF, holdsAll]
  | .tru => by simp [enc, evalF, holdsAll]
  | .fls => by simp [enc, evalF, holdsAll]
  | .not f => by
    have ih := enc_complete I f
    simp [enc, evalF, ih.1, ih.2]
  | .and fs => by
    have ih : ∀ g ∈ fs, (enc g).1.val (ext I) = evalF I g ∧ holdsAll (ext I) (enc g).2 :=
      fun g _ => enc_complete I g
    refine ⟨by simp [enc], ?_⟩
    simp only [enc]
    refine holdsAll_cons.mpr ⟨?_, holdsAll_append.mpr ⟨?_, holdsAll_flatten.mpr ?_⟩⟩
    · simp only [Clause.holds, List.any_cons, val_pos, ext_aux, evalF, List.any_map, List.all_map, Function.comp_def, val_negate]
      by_cases h : fs.all (fun g => evalF I g) = true
      · simp [h]
      · simp only [Bool.not_eq_true] at h
        rw [List.all_eq_false] at h
        obtain ⟨g, hg, hv⟩ := h
        simp only [Bool.or_eq_true, List.any_eq_true]
        right; exact ⟨g, hg, by simp [(ih g hg).1, hv]⟩
    · intro c hc
      simp only [List.mem_map] at hc
      obtain ⟨r, ⟨g, hg, rfl⟩, rfl⟩ := hc
      simp only [Clause.holds, List.any_cons, List.any_nil, val_neg, ext_aux, evalF, (ih g hg).1, List.all_map, Function.comp_def]
      by_cases h : evalF I g = true
      · simp [h]
      · have : fs.all (fun g => evalF I g) = false := by
          rw [List.all_eq_false]; exact ⟨g, hg, by simpa using h⟩
        simp [this]
    · intro cs hcs
      simp only [List.mem_map] at hcs
      obtain ⟨r, ⟨g, hg, rfl⟩, rfl⟩ := hcs
      exact (ih g hg).2
  | .or fs => by
    have ih : ∀ g ∈ fs, (enc g).1.val (ext I) = evalF I g ∧ holdsAll (ext I) (enc g).2 :=
      fun g _ => enc_complete I g
    refine ⟨by simp [enc], ?_⟩
    simp only [enc]
    refine holdsAll_cons.mpr ⟨?_, holdsAll_append.mpr ⟨?_, holdsAll_flatten.mpr ?_⟩⟩
    · simp only [Clause.holds, List.any_cons, val_neg, ext_aux, evalF, List.any_map, Function.comp_def]
      by_cases h : fs.any (fun g => evalF I g) = true
      · have h' := h
        rw [List.any_eq_true] at h'
        obtain ⟨g, hg, hv⟩ := h'
        simp only [Bool.or_eq_true, List.any_eq_true]
        right; exact ⟨g, hg, by simp [(ih g hg).1, hv]⟩
      · simp [h]
    · intro c hc
      simp only [List.mem_map] at hc
      obtain ⟨r, ⟨g, hg, rfl⟩, rfl⟩ := hc
      simp only [Clause.holds, List.any_cons, List.any_nil, val_pos, ext_aux, evalF, (ih g hg).1, List.any_map, Function.comp_def, val_negate]
      by_cases h : evalF I g = true
      · have : fs.any (fun g => evalF I g) = true := by
          rw [List.any_eq_true]; exact ⟨g, hg, h⟩
        simp [this]
      · simp [h]
    · intro cs hcs
      simp only [List.mem_map] at hcs
      obtain ⟨r, ⟨g, hg, rfl⟩, rfl⟩ := hcs
      exact (ih g hg).2
  | .imp a b => by
    have iha := enc_complete I a; have ihb := enc_complete I b
    refine ⟨by simp [enc], ?_⟩
    simp only [enc, holdsAll_append]
    refine ⟨⟨?_, iha.2⟩, ihb.2⟩
    simp only [holdsAll, List.mem_cons, List.mem_nil_iff, or_false]
    rintro c (rfl | rfl | rfl) <;>
      simp only [Clause.holds, List.any_cons, List.any_nil, val_negate, val_pos, val_neg, ext_aux, evalF, iha.1, ihb.1] <;>
      cases evalF I a <;> cases evalF I b <;> rfl
  | .iff a b => by
    have iha := enc_complete I a; have ihb := enc_complete I b
    refine ⟨by simp [enc], ?_⟩
    simp only [enc, holdsAll_append]
    refine ⟨⟨?_, iha.2⟩, ihb.2⟩
    simp only [holdsAll, List.mem_cons, List.mem_nil_iff, or_false]
    rintro c (rfl | rfl | rfl | rfl) <;>
      simp only [Clause.holds, List.any_cons, List.any_nil, val_negate, val_pos, val_neg, ext_aux, evalF, iha.1, ihb.1] <;>
      cases evalF I a <;> cases evalF I b <;> rfl
  | .ite c t e => by
    have ihc := enc_complete I c; have iht := enc_complete I t; have ihe := enc_complete I e
    refine ⟨by simp [enc], ?_⟩
    simp only [enc, holdsAll_append]
    refine ⟨⟨⟨?_, ihc.2⟩, iht.2⟩, ihe.2⟩
    simp only [holdsAll, List.mem_cons, List.mem_nil_iff, or_false]
    rintro cl (rfl | rfl | rfl | rfl) <;>
      simp only [Clause.holds, List.any_cons, List.any_nil, val_negate, val_pos, val_neg, ext_aux, evalF, ihc.1, iht.1, ihe.1] <;>
      cases evalF I c <;> cases evalF I t <;> cases evalF I e <;> rfl


/-- soundness: any valuation of original *and* auxiliary variables that satisfies the definitional clauses gives
    the top literal the value of the formula under the restriction to the original atoms -/
theorem enc_sound (ν : Val) : ∀ f : F, holdsAll ν (enc f).2 → (enc f).1.val ν = evalF (fun n => ν (.orig n)) f
  | .atom n => by simp [enc, evalF]
  | .tru => by simp [enc, evalF]
  | .fls => by simp [enc, evalF]
  | .not f => by
    intro h
    have ih := enc_sound ν f (by simpa [enc] using h)
    simp [enc, evalF, ih]
  | .and fs => by
    intro h
    simp only [enc] at h
    obtain ⟨h0, h12⟩ := holdsAll_cons.mp h
    obtain ⟨h1, h2⟩ := holdsAll_append.mp h12
    have ih : ∀ g ∈ fs, (enc g).1.val ν = evalF (fun n => ν (.orig n)) g := by
      intro g hg
      apply enc_sound ν g
      exact holdsAll_flatten.mp h2 _ (List.mem_map.mpr ⟨enc g, List.mem_map.mpr ⟨g, hg, rfl⟩, rfl⟩)
    simp only [enc, val_pos, evalF, List.all_map, Function.comp_def]
    cases hk : ν (Var.aux (F.and fs)) with
    | true =>
      symm; rw [List.all_eq_true]
      intro g hg
      have := h1 [(enc g).1, .neg (.aux (.and fs))] (List.mem_map.mpr ⟨enc g, List.mem_map.mpr ⟨g, hg, rfl⟩, rfl⟩)
      simp only [Clause.holds, List.any_cons, List.any_nil, val_neg, hk, ih g hg] at this
      simpa using this
    | false =>
      symm; rw [List.all_eq_false]
      simp only [Clause.holds, List.any_cons, val_pos, hk, List.any_map, Function.comp_def, val_negate, Bool.false_or, List.any_eq_true] at h0
      obtain ⟨g, hg, hv⟩ := h0
      exact ⟨g, hg, by simpa [ih g hg] using hv⟩
  | .or fs => by
    intro h
    simp only [enc] at h
    obtain ⟨h0, h12⟩ := holdsAll_cons.mp h
    obtain ⟨h1, h2⟩ := holdsAll_append.mp h12
    have ih : ∀ g ∈ fs, (enc g).1.val ν = evalF (fun n => ν (.orig n)) g := by
      intro g hg
      apply enc_sound ν g
      exact holdsAll_flatten.mp h2 _ (List.mem_map.mpr ⟨enc g, List.mem_map.mpr ⟨g, hg, rfl⟩, rfl⟩)
    simp only [enc, val_pos, evalF, List.any_map, Function.comp_def]
    cases hk : ν (Var.aux (F.or fs)) with
    | true =>
      symm; rw [List.any_eq_true]
      simp only [Clause.holds, List.any_cons, val_neg, hk, List.any_map, Function.comp_def, Bool.not_true, Bool.false_or, List.any_eq_true] at h0
      obtain ⟨g, hg, hv⟩ := h0
      exact ⟨g, hg, by simpa [ih g hg] using hv⟩
    | false =>
      symm; rw [List.any_eq_false]
      intro g hg
      have := h1 [.pos (.aux (.or fs)), (enc g).1.negate] (List.mem_map.mpr ⟨enc g, List.mem_map.mpr ⟨g, hg, rfl⟩, rfl⟩)
      simp only [Clause.holds, List.any_cons, List.any_nil, val_pos, hk, val_negate, ih g hg] at this
      simpa using this
  | .imp a b => by
    intro h
    simp only [enc, holdsAll_append] at h
    obtain ⟨⟨h0, ha⟩, hb⟩ := h
    have iha := enc_sound ν a ha; have ihb := enc_sound ν b hb
    have c1 := h0 _ (List.mem_cons_self)
    have c2 := h0 _ (List.mem_cons_of_mem _ List.mem_cons_self)
    have c3 := h0 _ (List.mem_cons_of_mem _ (List.mem_cons_of_mem _ List.mem_cons_self))
    simp only [Clause.holds, List.any_cons, List.any_nil, val_negate, val_pos, val_neg, iha, ihb] at c1 c2 c3
    simp only [enc, val_pos, evalF]
    revert c1 c2 c3
    cases ν (Var.aux (F.imp a b)) <;> cases evalF (fun n => ν (.orig n)) a <;> cases evalF (fun n => ν (.orig n)) b <;> simp
  | .iff a b => by
    intro h
    simp only [enc, holdsAll_append] at h
    obtain ⟨⟨h0, ha⟩, hb⟩ := h
    have iha := enc_sound ν a ha; have ihb := enc_sound ν b hb
    have c1 := h0 _ (List.mem_cons_self)
    have c2 := h0 _ (List.mem_cons_of_mem _ List.mem_cons_self)
    have c3 := h0 _ (List.mem_cons_of_mem _ (List.mem_cons_of_mem _ List.mem_cons_self))
    have c4 := h0 _ (List.mem_cons_of_mem _ (List.mem_cons_of_mem _ (List.mem_cons_of_mem _ List.mem_cons_self)))
    simp only [Clause.holds, List.any_cons, List.any_nil, val_negate, val_pos, val_neg, iha, ihb] at c1 c2 c3 c4
    simp only [enc, val_pos, evalF]
    revert c1 c2 c3 c4
    cases ν (Var.aux (F.iff a b)) <;> cases evalF (fun n => ν (.orig n)) a <;> cases evalF (fun n => ν (.orig n)) b <;> simp
  | .ite c t e => by
    intro h
    simp only [enc, holdsAll_append] at h
    obtain ⟨⟨⟨h0, hc⟩, ht⟩, he⟩ := h
    have ihc := enc_sound ν c hc; have iht := enc_sound ν t ht; have ihe := enc_sound ν e he
    have c1 := h0 _ (List.mem_cons_self)
    have c2 := h0 _ (List.mem_cons_of_mem _ List.mem_cons_self)
    have c3 := h0 _ (List.mem_cons_of_mem _ (List.mem_cons_of_mem _ List.mem_cons_self))
    have c4 := h0 _ (List.mem_cons_of_mem _ (List.mem_cons_of_mem _ (List.mem_cons_of_mem _ List.mem_cons_self)))
    simp only [Clause.holds, List.any_cons, List.any_nil, val_negate, val_pos, val_neg, ihc, iht, ihe] at c1 c2 c3 c4
    simp only [enc, val_pos, evalF]
    revert c1 c2 c3 c4
    cases ν (Var.aux (F.ite c t e)) <;> cases evalF (fun n => ν (.orig n)) c <;> cases evalF (fun n => ν (.orig n)) t <;>
      cases evalF (fun n => ν (.orig n)) e <;> simp

/-- model-by-model equisatisfiability of `f` and `clauses f ∧ top literal` -/
theorem equisat_forward (I : Nat → Bool) (f : F) (h : evalF I f = true) :
    holdsAll (ext I) (enc f).2 ∧ (enc f).1.val (ext I) = true :=
  ⟨(enc_complete I f).2, by rw [(enc_complete I f).1, h]⟩

theorem equisat_backward (ν : Val) (f : F) (h : holdsAll ν (enc f).2) (ht : (enc f).1.val ν = true) :
    evalF (fun n => ν (.orig n)) f = true := by
  rw [← enc_sound ν f h, ht]

#print axioms equisat_forward
#print axioms equisat_backward
end Tseitin
