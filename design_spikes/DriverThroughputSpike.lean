partial def loop (h : IO.FS.Stream) (out : IO.FS.Stream) (acc : Nat) : IO Nat := do
  let line ← h.getLine
  if line.isEmpty then return acc
  let toks := line.trimAscii.toString.splitOn " "
  let s := toks.foldl (fun a t => a + (t.toNat?.getD 0)) 0
  out.putStrLn (toString s)
  loop h out (acc + 1)
def main : IO Unit := do
  let n ← loop (← IO.getStdin) (← IO.getStdout) 0
  IO.eprintln s!"lines {n}"
