namespace BVSpike
-- spec through core BitVec
def specAdd (w a b : Nat) : Nat := (BitVec.ofNat w a + BitVec.ofNat w b).toNat
def specNeg (w a : Nat) : Nat := (- BitVec.ofNat w a).toNat
def specExtract (w lo hi a : Nat) : Nat := (BitVec.extractLsb' lo (hi - lo + 1) (BitVec.ofNat w a)).toNat
def smtUdiv {w} (x y : BitVec w) : BitVec w := if y = 0 then BitVec.allOnes w else x / y
def specSdiv (w a b : Nat) : Nat :=
  let x := BitVec.ofNat w a; let y := BitVec.ofNat w b
  (match x.msb, y.msb with
   | false, false => smtUdiv x y
   | true, false => - smtUdiv (-x) y
   | false, true => - smtUdiv x (-y)
   | true, true => smtUdiv (-x) (-y)).toNat

-- model = what simplifier.py computes on Python ints
def implAdd (w a b : Nat) : Nat := (a + b) % 2^w
def implNeg (w a : Nat) : Nat := (2^w - a) % 2^w
def implExtract (lo hi a : Nat) : Nat := (a >>> lo) % 2^(hi - lo + 1)
def implUdiv (w a b : Nat) : Nat := if b = 0 then 2^w - 1 else (a / b) % 2^w
def signedNeg (w a : Nat) : Bool := decide (a ≥ 2^(w-1))   -- bv_signed_value < 0  (w>0)
def implSdiv (w a b : Nat) : Nat :=
  match signedNeg w a, signedNeg w b with
  | false, false => implUdiv w a b
  | true, false => implNeg w (implUdiv w (implNeg w a) b)
  | false, true => implNeg w (implUdiv w a (implNeg w b))
  | true, true => implUdiv w (implNeg w a) (implNeg w b)

theorem add_ok (w a b : Nat) (ha : a < 2^w) (hb : b < 2^w) : implAdd w a b = specAdd w a b := by
  simp [implAdd, specAdd, BitVec.toNat_add, Nat.mod_eq_of_lt ha, Nat.mod_eq_of_lt hb]

theorem neg_ok (w a : Nat) (ha : a < 2^w) : implNeg w a = specNeg w a := by
  simp [implNeg, specNeg, BitVec.toNat_neg, Nat.mod_eq_of_lt ha]

theorem extract_ok (w lo hi a : Nat) (ha : a < 2^w) : implExtract lo hi a = specExtract w lo hi a := by
  simp [implExtract, specExtract, BitVec.extractLsb'_toNat, Nat.mod_eq_of_lt ha]

theorem udiv_ok (w a b : Nat) (ha : a < 2^w) (hb : b < 2^w) :
    implUdiv w a b = (smtUdiv (BitVec.ofNat w a) (BitVec.ofNat w b)).toNat := by
  unfold implUdiv smtUdiv
  by_cases h : b = 0
  · subst h; simp
  · have hne : ¬ (BitVec.ofNat w b = 0) := by
      intro hc
      have := congrArg BitVec.toNat hc
      simp [Nat.mod_eq_of_lt hb] at this
      exact h this
    rw [if_neg h, if_neg hne, BitVec.toNat_udiv]
    simp only [BitVec.toNat_ofNat, Nat.mod_eq_of_lt ha, Nat.mod_eq_of_lt hb]
    exact Nat.mod_eq_of_lt (Nat.lt_of_le_of_lt (Nat.div_le_self a b) ha)

theorem msb_ok (w a : Nat) (hw : 0 < w) (ha : a < 2^w) : signedNeg w a = (BitVec.ofNat w a).msb := by
  simp [signedNeg, BitVec.msb_eq_decide, Nat.mod_eq_of_lt ha]

#print axioms udiv_ok
end BVSpike
