import warnings; warnings.simplefilter("ignore")
from pysmt.logics import *
names=["arrays","arrays_const","bit_vectors","floating_point","integer_arithmetic","real_arithmetic","integer_difference","real_difference","linear","uninterpreted","custom_type","strings"]
def b(x): return "true" if x else "false"
L = sorted(LOGICS, key=lambda l:l.name)
out=["namespace GenL","structure Theory where"]
for n in names: out.append(f"  {n} : Bool")
out.append("deriving DecidableEq, Repr")
out.append("structure Logic where\n  name : String\n  qf : Bool\n  th : Theory\nderiving DecidableEq, Repr")
out.append("def logics : List Logic := [")
rows=[]
for l in L:
    t=l.theory
    rows.append('  ⟨"%s", %s, ⟨%s⟩⟩' % (l.name, b(l.quantifier_free), ", ".join(b(getattr(t,n)) for n in names)))
out.append(",\n".join(rows)); out.append("]")
out.append("def pysmtNames : List String := [" + ", ".join('"%s"'%l.name for l in sorted(PYSMT_LOGICS,key=lambda l:l.name)) + "]")
out.append("end GenL")
open("GenL.lean","w").write("\n".join(out)+"\n")
print(len(L))
