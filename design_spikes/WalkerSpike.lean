namespace Walker

variable {N R : Type} [DecidableEq N]

structure G (N : Type) where
  children : N → List N
  rank : N → Nat
  acyclic : ∀ n c, c ∈ children n → rank c < rank n

abbrev Memo (N R : Type) := List (N × R)

def look (m : Memo N R) (n : N) : Option R := List.lookup n m

structure St (N R : Type) where
  stack : List (Bool × N)
  memo : Memo N R
  calls : Nat

def step (g : G N) (f : N → List R → R) (s : St N R) : St N R :=
  match s.stack with
  | [] => s
  | (true, n) :: rest =>
      match look s.memo n with
      | some _ => { s with stack := rest }
      | none =>
        let args := (g.children n).filterMap (look s.memo)
        { stack := rest, memo := (n, f n args) :: s.memo, calls := s.calls + 1 }
  | (false, n) :: rest =>
      let todo := (g.children n).filter (fun c => (look s.memo c).isNone)
      { s with stack := (todo.map (fun c => (false, c))).reverse ++ (true, n) :: rest }

def iter (g : G N) (f : N → List R → R) : Nat → St N R → St N R
  | 0, s => s
  | k+1, s => iter g f k (step g f s)

theorem iter_add (g : G N) (f : N → List R → R) (a b : Nat) (s : St N R) :
    iter g f (a + b) s = iter g f b (iter g f a s) := by
  induction a generalizing s with
  | zero => simp [iter]
  | succ a ih => rw [Nat.succ_add]; simp [iter, ih]

def spec (g : G N) (f : N → List R → R) (n : N) : R :=
  f n ((g.children n).attach.map (fun c => spec g f c.1))
termination_by g.rank n
decreasing_by exact g.acyclic n c.1 c.2

theorem spec_eq (g : G N) (f : N → List R → R) (n : N) :
    spec g f n = f n ((g.children n).map (spec g f)) := by
  rw [spec]; congr 1; simp [List.map_attach_eq_pmap, List.pmap_eq_map]

structure Closed (g : G N) (f : N → List R → R) (m : Memo N R) : Prop where
  ok : ∀ n r, look m n = some r → r = spec g f n
  down : ∀ n, (look m n).isSome → ∀ c ∈ g.children n, (look m c).isSome

def Ext (m m' : Memo N R) : Prop := ∀ n r, look m n = some r → look m' n = some r

theorem Ext.refl (m : Memo N R) : Ext m m := fun _ _ h => h
theorem Ext.trans {a b c : Memo N R} (h1 : Ext a b) (h2 : Ext b c) : Ext a c :=
  fun n r h => h2 n r (h1 n r h)

-- when all children are memoised and memo OK, filterMap gives the spec values
theorem args_ok (g : G N) (f : N → List R → R) (m : Memo N R) (hm : Closed g f m) (cs : List N)
    (h : ∀ c ∈ cs, (look m c).isSome) : cs.filterMap (look m) = cs.map (spec g f) := by
  induction cs with
  | nil => rfl
  | cons c cs ih =>
    have hc := h c (List.mem_cons_self)
    obtain ⟨r, hr⟩ := Option.isSome_iff_exists.mp hc
    have := hm.ok c r hr
    simp [List.filterMap_cons, hr, this]
    exact ih (fun c' hc' => h c' (List.mem_cons_of_mem _ hc'))

end Walker

namespace Walker
variable {N R : Type} [DecidableEq N]

theorem look_cons (m : Memo N R) (n x : N) (v : R) :
    look ((n, v) :: m) x = if x = n then some v else look m x := by
  unfold look
  by_cases h : x = n
  · subst h; simp [List.lookup]
  · simp [List.lookup, h]
    have : (x == n) = false := by simp [h]
    simp [this]

/-- reflexive-transitive descendant relation -/
inductive Desc (g : G N) : N → N → Prop
  | refl (n : N) : Desc g n n
  | step (n c x : N) : c ∈ g.children n → Desc g c x → Desc g n x

/-- `From g roots m m'`: every entry of `m'` was in `m` or is a descendant of one of the roots -/
def From (g : G N) (roots : List N) (m m' : Memo N R) : Prop :=
  ∀ x, (look m' x).isSome → (look m x).isSome ∨ ∃ r ∈ roots, Desc g r x

def Reach (g : G N) (f : N → List R → R) (s : St N R) (rest : List (Bool × N)) (m : Memo N R)
    (roots : List N) (P : Memo N R → Prop) : Prop :=
  ∃ j m' calls', iter g f j s = ⟨rest, m', calls'⟩ ∧ Closed g f m' ∧ Ext m m' ∧ P m' ∧
    calls' + m.length = s.calls + m'.length ∧ From g roots m m'

theorem From.refl (g : G N) (roots : List N) (m : Memo N R) : From g roots m m := fun _ h => Or.inl h

theorem run_list (g : G N) (f : N → List R → R) (k : Nat)
    (IH : ∀ n, g.rank n < k → ∀ rest m calls, Closed g f m →
      Reach g f ⟨(false, n) :: rest, m, calls⟩ rest m [n] (fun m' => (look m' n).isSome)) :
    ∀ cs : List N, (∀ c ∈ cs, g.rank c < k) → ∀ tail m calls, Closed g f m →
      Reach g f ⟨(cs.map (fun c => (false, c))).reverse ++ tail, m, calls⟩ tail m cs
        (fun m' => ∀ c ∈ cs, (look m' c).isSome) := by
  intro cs
  induction cs with
  | nil =>
    intro _ tail m calls hm
    exact ⟨0, m, calls, rfl, hm, Ext.refl m, by simp, rfl, From.refl g [] m⟩
  | cons c cs ih =>
    intro hr tail m calls hm
    have hr' : ∀ c' ∈ cs, g.rank c' < k := fun c' h => hr c' (List.mem_cons_of_mem _ h)
    obtain ⟨j1, m1, c1, e1, hm1, x1, p1, n1, f1⟩ := ih hr' ((false, c) :: tail) m calls hm
    obtain ⟨j2, m2, c2, e2, hm2, x2, p2, n2, f2⟩ := IH c (hr c List.mem_cons_self) tail m1 c1 hm1
    refine ⟨j1 + j2, m2, c2, ?_, hm2, x1.trans x2, ?_, ?_, ?_⟩
    · rw [iter_add]
      have : (List.map (fun c => (false, c)) (c :: cs)).reverse ++ tail
           = (List.map (fun c => (false, c)) cs).reverse ++ ((false, c) :: tail) := by
        simp [List.map_cons, List.reverse_cons, List.append_assoc]
      rw [this, e1, e2]
    · intro c' hc'
      rcases List.mem_cons.mp hc' with rfl | h
      · exact p2
      · obtain ⟨r, hr⟩ := Option.isSome_iff_exists.mp (p1 c' h)
        simp [x2 c' r hr]
    · simp only at n1 n2 ⊢; omega
    · intro x hx
      rcases f2 x hx with h | ⟨r, hr, hd⟩
      · rcases f1 x h with h' | ⟨r, hr, hd⟩
        · exact Or.inl h'
        · exact Or.inr ⟨r, List.mem_cons_of_mem _ hr, hd⟩
      · simp only [List.mem_singleton] at hr; subst hr
        exact Or.inr ⟨r, List.mem_cons_self, hd⟩

theorem run_expand (g : G N) (f : N → List R → R) :
    ∀ k n, g.rank n < k → ∀ rest m calls, Closed g f m →
      Reach g f ⟨(false, n) :: rest, m, calls⟩ rest m [n] (fun m' => (look m' n).isSome) := by
  intro k
  induction k with
  | zero => intro n hn; omega
  | succ k ih =>
    intro n hn rest m calls hm
    let todo := (g.children n).filter (fun c => (look m c).isNone)
    have htodo : ∀ c ∈ todo, g.rank c < k := by
      intro c hc
      have hc' : c ∈ g.children n := (List.mem_filter.mp hc).1
      have := g.acyclic n c hc'
      omega
    obtain ⟨j1, m1, c1, e1, hm1, x1, p1, n1, f1⟩ :=
      run_list g f k ih todo htodo ((true, n) :: rest) m calls hm
    have hall : ∀ c ∈ g.children n, (look m1 c).isSome := by
      intro c hc
      by_cases hmc : (look m c).isSome
      · obtain ⟨r, hr⟩ := Option.isSome_iff_exists.mp hmc
        simp [x1 c r hr]
      · apply p1
        apply List.mem_filter.mpr
        refine ⟨hc, ?_⟩
        cases h : look m c <;> simp_all
    have hfrom : From g [n] m m1 := by
      intro x hx
      rcases f1 x hx with h | ⟨r, hr, hd⟩
      · exact Or.inl h
      · exact Or.inr ⟨n, List.mem_singleton.mpr rfl, Desc.step n r x (List.mem_filter.mp hr).1 hd⟩
    have hstep1 : step g f ⟨(false, n) :: rest, m, calls⟩ =
        ⟨(todo.map (fun c => (false, c))).reverse ++ (true, n) :: rest, m, calls⟩ := rfl
    cases hl : look m1 n with
    | some r =>
      refine ⟨1 + (j1 + 1), m1, c1, ?_, hm1, x1, by simp [hl], by simpa using n1, hfrom⟩
      rw [iter_add, iter_add]
      simp only [iter, hstep1, e1]
      simp [step, hl]
    | none =>
      let v := f n ((g.children n).filterMap (look m1))
      have hv : v = spec g f n := by
        show f n _ = _
        rw [args_ok g f m1 hm1 _ hall, spec_eq g f n]
      refine ⟨1 + (j1 + 1), (n, v) :: m1, c1 + 1, ?_, ?_, ?_, ?_, ?_, ?_⟩
      · rw [iter_add, iter_add]
        simp only [iter, hstep1, e1]
        simp [step, hl, v]
      · constructor
        · intro x r hx
          rw [look_cons] at hx
          by_cases hxn : x = n
          · subst hxn; simp at hx; rw [← hx, hv]
          · simp [hxn] at hx; exact hm1.ok x r hx
        · intro x hx c hc
          rw [look_cons] at hx ⊢
          by_cases hcn : c = n
          · simp [hcn]
          · simp only [hcn, if_false]
            by_cases hxn : x = n
            · subst hxn; exact hall c hc
            · simp only [hxn, if_false] at hx; exact hm1.down x hx c hc
      · intro x r hx
        rw [look_cons]
        by_cases hxn : x = n
        · subst hxn; have := x1 x r hx; rw [hl] at this; cases this
        · simp [hxn]; exact x1 x r hx
      · show (look ((n, v) :: m1) n).isSome = true
        rw [look_cons]; simp
      · simp only [List.length_cons] at n1 ⊢; omega
      · intro x hx
        rw [look_cons] at hx
        by_cases hxn : x = n
        · subst hxn; exact Or.inr ⟨x, List.mem_singleton.mpr rfl, Desc.refl x⟩
        · simp only [hxn, if_false] at hx; exact hfrom x hx

/-- C20 reading: the number of callback invocations of a walk equals the number of memo entries it adds, every
    added entry is a descendant of the root, and afterwards the root (hence, by `Closed.down`, every descendant) is memoised -/
theorem calls_eq_new_entries (g : G N) (f : N → List R → R) (n : N) (m : Memo N R) (calls : Nat) (hm : Closed g f m) :
    ∃ j m' calls', iter g f j ⟨[(false, n)], m, calls⟩ = ⟨[], m', calls'⟩ ∧
      look m' n = some (spec g f n) ∧ calls' - calls = m'.length - m.length ∧ From g [n] m m' ∧ Closed g f m' := by
  obtain ⟨j, m', c', e, hc, hx, hp, hn, hf⟩ := run_expand g f (g.rank n + 1) n (Nat.lt_succ_self _) [] m calls hm
  refine ⟨j, m', c', e, ?_, by simp only at hn; omega, hf, hc⟩
  obtain ⟨r, hr⟩ := Option.isSome_iff_exists.mp hp
  rw [hr, hc.ok n r hr]

#print axioms calls_eq_new_entries
end Walker
