/-! Spike for C18: the generic minimisation loop of `ExternalOptimizerMixin._optimize`
    (optimizer.py:425-470) with `OptSearchInterval`, integer objective, linear or binary strategy,
    against an arbitrary satisfiability oracle. -/
namespace OptSpike

inductive Strat | linear | binary

structure St where
  lower : Option Int
  upper : Int            -- after the first satisfiable step `upper` is always set (value of the best model)
  deriving Repr

/-- `_compute_pivot` for a minimisation goal, upper bound known. -/
def pivot (s : St) : Int :=
  let l := match s.lower with | some l => l | none => s.upper - (s.upper.natAbs + 1)
  (l + s.upper) / 2 + 1

def empty (s : St) : Bool := match s.lower with | some l => decide (s.upper ≤ l) | none => false

/-- the oracle: given a strict cut `c`, returns the objective value of some model with value `< c`, or none -/
structure Oracle (S : Int → Prop) where
  ask : Int → Option Int
  sound : ∀ c v, ask c = some v → S v ∧ v < c
  complete : ∀ c, ask c = none → ∀ v, S v → ¬ v < c

def step {S} (o : Oracle S) (strat : Strat) (s : St) : St :=
  match strat with
  | .linear =>
    match o.ask s.upper with
    | some v => { s with upper := if s.upper > v then v else s.upper }
    | none => { s with lower := some s.upper }          -- search_is_unsat without pivot
  | .binary =>
    let p := pivot s
    match o.ask p with
    | some v => { s with upper := if s.upper > v then v else s.upper }
    | none => { s with lower := some p }

def loop {S} (o : Oracle S) (strat : Strat) : Nat → St → Option Int
  | 0, _ => none
  | n+1, s => if empty s then some s.upper else loop o strat n (step o strat s)

def Inv (S : Int → Prop) (s : St) : Prop :=
  S s.upper ∧ ∀ l, s.lower = some l → ∀ v, S v → l ≤ v

theorem pivot_le_upper (s : St) (h : empty s = false) : pivot s ≤ s.upper := by
  unfold pivot empty at *
  cases hl : s.lower with
  | none => simp only; omega
  | some l => simp [hl] at h; simp only; omega

theorem step_inv {S} (o : Oracle S) (strat : Strat) (s : St) (hi : Inv S s) (he : empty s = false) :
    Inv S (step o strat s) := by
  obtain ⟨hS, hL⟩ := hi
  cases strat with
  | linear =>
    unfold step; simp only
    cases ha : o.ask s.upper with
    | some v =>
      have := o.sound _ _ ha
      refine ⟨?_, ?_⟩
      · simp only; split <;> simp_all
      · intro l hl; exact hL l hl
    | none =>
      refine ⟨hS, ?_⟩
      intro l hl v hv
      simp at hl; subst hl
      have := o.complete _ ha v hv; omega
  | binary =>
    unfold step; simp only
    cases ha : o.ask (pivot s) with
    | some v =>
      have := o.sound _ _ ha
      refine ⟨?_, ?_⟩
      · simp only; split <;> simp_all
      · intro l hl; exact hL l hl
    | none =>
      refine ⟨hS, ?_⟩
      intro l hl v hv
      simp at hl; subst hl
      have := o.complete _ ha v hv; omega

/-- partial correctness: whatever the oracle answers, if the loop returns it returns the minimum -/
theorem loop_optimal {S} (o : Oracle S) (strat : Strat) :
    ∀ n s, Inv S s → ∀ r, loop o strat n s = some r → S r ∧ ∀ v, S v → r ≤ v := by
  intro n
  induction n with
  | zero => intro s _ r h; simp [loop] at h
  | succ n ih =>
    intro s hi r h
    unfold loop at h
    by_cases he : empty s = true
    · simp [he] at h; subst h
      refine ⟨hi.1, ?_⟩
      intro v hv
      unfold empty at he
      cases hl : s.lower with
      | none => simp [hl] at he
      | some l =>
        simp [hl] at he
        have := hi.2 l hl v hv; omega
    · have he' : empty s = false := by cases h' : empty s <;> simp_all
      simp [he'] at h
      exact ih _ (step_inv o strat s hi he') r h


theorem loop_mono {S} (o : Oracle S) (strat : Strat) : ∀ n s r, loop o strat n s = some r → loop o strat (n+1) s = some r := by
  intro n
  induction n with
  | zero => intro s r h; simp [loop] at h
  | succ n ih =>
    intro s r h
    unfold loop at h ⊢
    by_cases he : empty s = true
    · simp [he] at h ⊢; exact h
    · have he' : empty s = false := by cases h' : empty s <;> simp_all
      simp [he'] at h ⊢
      exact ih _ _ h

/-- phase 2: once a lower bound is known the interval shrinks at every step -/
theorem term_bounded {S} (o : Oracle S) (strat : Strat) :
    ∀ (k : Nat) (s : St) (l : Int), s.lower = some l → s.upper - l ≤ (k : Int) → ∃ r, loop o strat (k+1) s = some r := by
  intro k
  induction k with
  | zero =>
    intro s l hl hk
    refine ⟨s.upper, ?_⟩
    have : empty s = true := by simp [empty, hl]; omega
    simp [loop, this]
  | succ k ih =>
    intro s l hl hk
    by_cases he : empty s = true
    · exact ⟨s.upper, by simp [loop, he]⟩
    · have he' : empty s = false := by cases h' : empty s <;> simp_all
      have hlt : l < s.upper := by simp [empty, hl] at he'; omega
      have hp : l < pivot s ∧ pivot s ≤ s.upper := by
        refine ⟨?_, pivot_le_upper s he'⟩
        simp only [pivot, hl]; omega
      have key : ∃ l', (step o strat s).lower = some l' ∧ (step o strat s).upper - l' ≤ (k : Int) := by
        cases strat with
        | linear =>
          unfold step; simp only
          cases ha : o.ask s.upper with
          | some v =>
            have := o.sound _ _ ha
            refine ⟨l, hl, ?_⟩
            simp only; split <;> omega
          | none => exact ⟨s.upper, rfl, by simp⟩
        | binary =>
          unfold step; simp only
          cases ha : o.ask (pivot s) with
          | some v =>
            have := o.sound _ _ ha
            refine ⟨l, hl, ?_⟩
            simp only; split <;> omega
          | none => exact ⟨pivot s, rfl, by simp; omega⟩
      obtain ⟨l', hl', hk'⟩ := key
      obtain ⟨r, hr⟩ := ih _ l' hl' hk'
      exact ⟨r, by rw [loop]; simp [he', hr]⟩

/-- phase 1 + 2: if the optimum is attained the loop terminates, for every oracle -/
theorem terminates {S} (o : Oracle S) (strat : Strat) (m : Int) (hm : ∀ v, S v → m ≤ v) :
    ∀ (k : Nat) (s : St), S s.upper → s.lower = none → s.upper - m ≤ (k : Int) → ∃ n r, loop o strat n s = some r := by
  intro k
  induction k with
  | zero =>
    intro s hS hl hk
    -- upper = m; one more step either finds nothing below (sets lower) or is impossible
    have hum : s.upper = m := by have := hm _ hS; omega
    have he' : empty s = false := by simp [empty, hl]
    have hp := pivot_le_upper s he'
    have : ∃ l', (step o strat s).lower = some l' := by
      cases strat with
      | linear =>
        unfold step; simp only
        cases ha : o.ask s.upper with
        | some v => have := o.sound _ _ ha; have := hm v this.1; omega
        | none => exact ⟨_, rfl⟩
      | binary =>
        unfold step; simp only
        cases ha : o.ask (pivot s) with
        | some v => have := o.sound _ _ ha; have := hm v this.1; omega
        | none => exact ⟨_, rfl⟩
    obtain ⟨l', hl'⟩ := this
    obtain ⟨r, hr⟩ := term_bounded o strat ((step o strat s).upper - l').toNat _ l' hl' (by omega)
    exact ⟨((step o strat s).upper - l').toNat + 1 + 1, r, by rw [loop]; simp only [he']; exact hr⟩
  | succ k ih =>
    intro s hS hl hk
    have he' : empty s = false := by simp [empty, hl]
    have hp := pivot_le_upper s he'
    -- either the step sets a lower bound (phase 2) or strictly improves upper (induction)
    have : (∃ l', (step o strat s).lower = some l') ∨
           ((step o strat s).lower = none ∧ S (step o strat s).upper ∧ (step o strat s).upper - m ≤ (k : Int)) := by
      cases strat with
      | linear =>
        unfold step; simp only
        cases ha : o.ask s.upper with
        | some v =>
          have hv := o.sound _ _ ha; have := hm v hv.1
          right; refine ⟨hl, ?_, ?_⟩
          · simp only; split <;> simp_all
          · simp only; split <;> omega
        | none => left; exact ⟨_, rfl⟩
      | binary =>
        unfold step; simp only
        cases ha : o.ask (pivot s) with
        | some v =>
          have hv := o.sound _ _ ha; have := hm v hv.1
          right; refine ⟨hl, ?_, ?_⟩
          · simp only; split <;> simp_all
          · simp only; split <;> omega
        | none => left; exact ⟨_, rfl⟩
    rcases this with ⟨l', hl'⟩ | ⟨h1, h2, h3⟩
    · obtain ⟨r, hr⟩ := term_bounded o strat ((step o strat s).upper - l').toNat _ l' hl' (by omega)
      exact ⟨((step o strat s).upper - l').toNat + 1 + 1, r, by rw [loop]; simp only [he']; exact hr⟩
    · obtain ⟨n, r, hr⟩ := ih _ h2 h1 h3
      exact ⟨n + 1, r, by rw [loop]; simp only [he']; exact hr⟩

#print axioms loop_optimal
#print axioms terminates
end OptSpike
