/-! Spike for C07/C09: token-level S-expressions, a printer in the style of `SmtPrinter`, a *standard-style*
    elaborator with parallel `let` and a binder, and the round trip `rd (print t) = t`; plus the let-chain
    lemma on which the DAG printer's correctness rests. Lexing (characters → tokens) is not part of this spike. -/
namespace SexpSpike

inductive Op | and_ | or_ | not_ | plus | le | eq
  deriving DecidableEq

def Op.name : Op → String
  | .and_ => "and" | .or_ => "or" | .not_ => "not" | .plus => "+" | .le => "<=" | .eq => "="

def opOfName (s : String) : Option Op :=
  if s = "and" then some .and_ else if s = "or" then some .or_ else if s = "not" then some .not_
  else if s = "+" then some .plus else if s = "<=" then some .le else if s = "=" then some .eq else none

theorem opOfName_name (o : Op) : opOfName o.name = some o := by cases o <;> decide

inductive Term where
  | var (x : String) | num (n : Int)
  | app (op : Op) (args : List Term)
  | all (x : String) (body : Term)

/-- tokens already classified by the lexer -/
inductive Sexp where
  | sym (s : String) | numeral (n : Nat)
  | list (xs : List Sexp)

def reserved (s : String) : Bool := s = "let" || s = "forall" || s = "-" || (opOfName s).isSome

def toSexp : Term → Sexp
  | .var x => .sym x
  | .num n => if n < 0 then .list [.sym "-", .numeral n.natAbs] else .numeral n.toNat
  | .app op args => .list (.sym op.name :: args.map toSexp)
  | .all x b => .list [.sym "forall", .list [.list [.sym x, .sym "Int"]], toSexp b]

abbrev Env := List (String × Term)
def Env.get : Env → String → Option Term
  | [], _ => none
  | (k, v) :: e, x => if k = x then some v else Env.get e x
def Env.drop : Env → String → Env
  | [], _ => []
  | (k, v) :: e, x => if k = x then Env.drop e x else (k, v) :: Env.drop e x

mutual
/-- standard reading: `let` binds in parallel (all right-hand sides are read in the outer environment) -/
def rd (env : Env) : Sexp → Option Term
  | .sym x => some ((env.get x).getD (.var x))
  | .numeral n => some (.num n)
  | .list [.sym "-", .numeral n] => some (.num (-(n : Int)))
  | .list [.sym "forall", .list [.list [.sym x, .sym "Int"]], b] => (rd (env.drop x) b).map (.all x)
  | .list [.sym "let", .list bs, body] =>
      match rdBindings env bs with
      | some new => rd (new ++ env) body
      | none => none
  | .list (.sym f :: args) =>
      match opOfName f with
      | some op => (rdList env args).map (.app op)
      | none => none
  | .list _ => none
def rdList (env : Env) : List Sexp → Option (List Term)
  | [] => some []
  | s :: ss => match rd env s, rdList env ss with
    | some t, some ts => some (t :: ts)
    | _, _ => none
def rdBindings (env : Env) : List Sexp → Option Env
  | [] => some []
  | .list [.sym x, e] :: bs => match rd env e, rdBindings env bs with
    | some t, some r => some ((x, t) :: r)
    | _, _ => none
  | _ :: _ => none
end

/-- names a formula may use: not reserved (the property's proviso) -/
def NamesOK : Term → Prop
  | .var x => reserved x = false
  | .num _ => True
  | .app _ args => ∀ a ∈ args, NamesOK a
  | .all x b => reserved x = false ∧ NamesOK b

theorem rdList_map (env : Env) (ts : List Term) (h : ∀ t ∈ ts, rd env (toSexp t) = some t) :
    rdList env (ts.map toSexp) = some ts := by
  induction ts with
  | nil => simp [rdList]
  | cons t ts ih =>
    simp only [List.map_cons, rdList, h t List.mem_cons_self, ih (fun t' ht' => h t' (List.mem_cons_of_mem _ ht'))]


theorem rd_app (env : Env) (op : Op) (args : List Sexp) :
    rd env (.list (.sym op.name :: args)) = (rdList env args).map (.app op) := by
  cases op <;> simp [rd, Op.name, opOfName]

/-- reading pySMT's tree output with the standard-style reader gives the formula back -/
theorem rd_toSexp : ∀ t : Term, rd [] (toSexp t) = some t
  | .var x => by simp [toSexp, rd, Env.get]
  | .num n => by
    by_cases h : n < 0
    · simp only [toSexp, h, if_true, rd]
      congr 2; omega
    · simp only [toSexp, h, if_false, rd]
      congr 2; omega
  | .app op args => by
    rw [toSexp, rd_app, rdList_map [] args (fun t _ => rd_toSexp t)]; rfl
  | .all x b => by
    simp only [toSexp, rd, Env.drop, rd_toSexp b, Option.map_some]

/-- one `let` with one binding: the right-hand side is read in the *outer* environment, the body in the extended one;
    the DAG printer's output is a chain of these, so its correctness is an induction over the chain -/
theorem rd_let1 (env : Env) (d : String) (e body : Sexp) :
    rd env (.list [.sym "let", .list [.list [.sym d, e]], body]) =
      (rd env e).bind (fun t => rd ((d, t) :: env) body) := by
  simp only [rd, rdBindings]
  cases rd env e <;> simp

/-- parallel let: the second binding does not see the first (the standard's semantics; F13 is the sequential misreading) -/
example : rd [] (.list [.sym "let", .list [.list [.sym "x", .sym "y"], .list [.sym "y", .sym "x"]],
                        .list [.sym "<=", .sym "x", .sym "y"]])
        = some (.app .le [.var "y", .var "x"]) := by
  simp [rd, rdBindings, rdList, opOfName, Env.get]

#print axioms rd_toSexp
end SexpSpike
