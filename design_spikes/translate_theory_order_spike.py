# spike: translate Theory.__le__ / Theory.combine (straight-line Boolean Python) to Lean
import ast, sys
src = open('/repo/pysmt/logics.py').read()
tree = ast.parse(src)
cls = next(n for n in tree.body if isinstance(n, ast.ClassDef) and n.name == 'Theory')
FIELDS = [a.arg for a in next(f for f in cls.body if isinstance(f, ast.FunctionDef) and f.name=='__init__').args.args[1:]]
class Unsupported(Exception): pass
def ex(e):
    if isinstance(e, ast.BoolOp):
        op = ' && ' if isinstance(e.op, ast.And) else ' || '
        return '(' + op.join(ex(v) for v in e.values) + ')'
    if isinstance(e, ast.UnaryOp) and isinstance(e.op, ast.Not): return '(!' + ex(e.operand) + ')'
    if isinstance(e, ast.Compare) and len(e.ops)==1:
        l, r = ex(e.left), ex(e.comparators[0])
        if isinstance(e.ops[0], ast.Eq): return f'({l} == {r})'
        if isinstance(e.ops[0], ast.LtE): return f'(!{l} || {r})'
        if isinstance(e.ops[0], ast.GtE): return f'({l} || !{r})'
        raise Unsupported(ast.dump(e))
    if isinstance(e, ast.Attribute) and isinstance(e.value, ast.Name) and e.value.id in ('self','other') and e.attr in FIELDS:
        return f'{e.value.id}.{e.attr}'
    if isinstance(e, ast.Name): return e.id
    if isinstance(e, ast.Constant) and isinstance(e.value, bool): return 'true' if e.value else 'false'
    raise Unsupported(ast.dump(e))
def assigned_var(stmts):
    # each branch must be a single assignment to the same variable (asserts ignored)
    names=set()
    for s in stmts:
        if isinstance(s, ast.Assign) and len(s.targets)==1 and isinstance(s.targets[0], ast.Name): names.add(s.targets[0].id)
        elif isinstance(s, ast.Assert): continue
        else: raise Unsupported(ast.dump(s))
    if len(names)!=1: raise Unsupported('branch assigns %s'%names)
    return names.pop()
def branch_value(stmts):
    s=[x for x in stmts if isinstance(x, ast.Assign)][0]
    return ex(s.value)
def if_chain(node):
    var = assigned_var(node.body)
    out = f'if {ex(node.test)} then {branch_value(node.body)} else '
    if len(node.orelse)==1 and isinstance(node.orelse[0], ast.If):
        v2, rest = if_chain(node.orelse[0]); assert v2==var
        return var, out + rest
    assert assigned_var(node.orelse)==var
    return var, out + branch_value(node.orelse)
def fun(name, leanname, rettype):
    f = next(x for x in cls.body if isinstance(x, ast.FunctionDef) and x.name==name)
    lines=[f'def {leanname} (self other : Theory) : {rettype} :=']
    for st in f.body:
        if isinstance(st, ast.If):
            var, e = if_chain(st); lines.append(f'  let {var} := {e}')
        elif isinstance(st, ast.Return):
            v = st.value
            if isinstance(v, ast.Call) and isinstance(v.func, ast.Name) and v.func.id=='Theory':
                kws = {k.arg: ex(k.value) for k in v.keywords}
                lines.append('  { ' + ', '.join(f'{fld} := {kws[fld]}' for fld in FIELDS) + ' }')
            else:
                lines.append('  ' + ex(v))
        elif isinstance(st, ast.Expr) and isinstance(st.value, ast.Constant): continue   # docstring
        else: raise Unsupported(ast.dump(st))
    return '\n'.join(lines)
print('namespace GenT')
print('structure Theory where\n' + '\n'.join(f'  {f} : Bool' for f in FIELDS) + '\nderiving DecidableEq, Repr')
print(fun('__le__', 'Theory.le', 'Bool'))
print(fun('combine', 'Theory.combine', 'Theory'))
print('end GenT')
